"""Translator: `allowed_parameters` of parser.parse_search_parameters (AST), the IUPAC alphabet of SingleAdapter.__init__ and the brace
repeat limit of expand_braces (regex on the source) -> Cutadapt/Generated/ParserTables.lean."""
import ast
import os
import re


def generate(build_dir):
    src = open(os.path.join(build_dir, "cutadapt", "parser.py")).read()
    tree = ast.parse(src)
    table = None
    for node in ast.walk(tree):
        if isinstance(node, ast.FunctionDef) and node.name == "parse_search_parameters":
            for st in ast.walk(node):
                if isinstance(st, ast.Assign) and getattr(st.targets[0], "id", None) == "allowed_parameters":
                    table = ast.literal_eval(st.value)
    assert isinstance(table, dict) and table, "allowed_parameters not found"

    def canon(k):
        seen = set()
        while table[k] is not None:
            assert k not in seen
            seen.add(k)
            k = table[k]
        return k
    pairs = [(k, canon(k)) for k in table]
    m = re.search(r"0 <= (?:\w+) <= (\d+)|> (\d+):", src[src.index("def expand_braces"):])
    limit = int(m.group(1) or m.group(2))
    asrc = open(os.path.join(build_dir, "cutadapt", "adapters.py")).read()
    m = re.search(r'iupac = frozenset\("([A-Z]+)"\)', asrc)
    iupac = m.group(1)
    out = ["/-! GENERATED from parser.py / adapters.py by gen/gen_parsertables.py — do not edit. -/",
           "namespace Cutadapt.Generated", "",
           "/-- `allowed_parameters`: accepted parameter name ↦ the canonical name it is un-abbreviated to -/",
           "def allowedParameters : List (String × String) := [" + ", ".join('("%s", "%s")' % p for p in pairs) + "]", "",
           "/-- largest repeat count accepted inside braces by `expand_braces` -/",
           f"def braceLimit : Nat := {limit}", "",
           "/-- characters accepted in an adapter sequence when adapter wildcards are on -/",
           f'def iupacAlphabet : String := "{iupac}"', "",
           "end Cutadapt.Generated", ""]
    return "ParserTables.lean", "\n".join(out)
