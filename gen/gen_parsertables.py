"""Translator: `allowed_parameters` of parser.parse_search_parameters (AST), the IUPAC alphabet of SingleAdapter.__init__ and the brace
repeat limit of expand_braces (regex on the source) -> Cutadapt/Generated/ParserTables.lean."""
import ast
import os
import re


CANDIDATES = ["e", "error_rate", "max_error_rate", "o", "max_errors", "min_overlap", "anywhere", "required", "optional", "indels", "noindels", "rightmost",
              # not parameters (must be rejected): near misses and abbreviations that are not in the table
              "overlap", "O", "E", "min_o", "noindel", "indel", "any", "right", "leftmost", "req", "opt", "name", "times", "errors", "max_error"]


OUTPUT = "ParserTables.lean"      # the generated file (harness/core.py: a failure of this translator concerns the properties that import it)

def probe_parameters():
    """accepted parameter name -> canonical name, from the behaviour of parse_search_parameters"""
    import importlib
    psp = importlib.import_module("cutadapt.parser").parse_search_parameters
    out = []
    for k in CANDIDATES:
        got = None
        for form in (k, k + "=1"):
            try:
                r = psp(form)
            except Exception:
                continue
            if len(r) == 1:
                got = next(iter(r))
                break
        if got is not None:
            # noindels / optional are stored under the positive name with value False
            canon = {"indels": "noindels" if k.startswith("no") else "indels", "required": "optional" if k.startswith("opt") else "required"}.get(got, got)
            out.append((k, canon))
    return out


def generate(build_dir):
    import importlib
    src = open(os.path.join(build_dir, "cutadapt", "parser.py")).read()
    table = None
    try:
        tree = ast.parse(src)
        for node in ast.walk(tree):
            if isinstance(node, ast.FunctionDef) and node.name == "parse_search_parameters":
                for st in ast.walk(node):
                    if isinstance(st, ast.Assign) and getattr(st.targets[0], "id", None) == "allowed_parameters":
                        table = ast.literal_eval(st.value)
    except Exception:
        table = None
    probed = probe_parameters()
    if isinstance(table, dict) and table:
        def canon(k):
            seen = set()
            while table[k] is not None:
                assert k not in seen
                seen.add(k)
                k = table[k]
            return k
        pairs = [(k, canon(k)) for k in table]
        # cross-check: every candidate behaves as the table says
        assert dict(probed) == {k: v for k, v in pairs if k in CANDIDATES}, ("allowed_parameters and behaviour disagree", probed, pairs)
    else:
        # the table is no longer where it was (harmless restructuring?): fall back on the behaviour
        pairs = probed
    # brace limit, probed: the largest n for which `A{n}` is accepted
    eb = importlib.import_module("cutadapt.parser").expand_braces

    def ok(n):
        try:
            return len(eb("A{%d}" % n)) == n
        except ValueError:
            return False
    lo, hi = 0, 1
    while ok(hi) and hi < 10 ** 7:
        lo, hi = hi, hi * 2
    while lo + 1 < hi:
        mid = (lo + hi) // 2
        lo, hi = (mid, hi) if ok(mid) else (lo, mid)
    limit = lo
    m = re.search(r"0 <= (?:\w+) <= (\d+)|> (\d+):", src[src.index("def expand_braces"):] if "def expand_braces" in src else "")
    if m:
        assert int(m.group(1) or m.group(2)) == limit, "brace limit: source text and behaviour disagree"
    # IUPAC alphabet, probed: which upper-case letters a wildcard-enabled adapter accepts
    A = importlib.import_module("cutadapt.adapters")
    letters = []
    for c in "ABCDEFGHIJKLMNOPQRSTUVWXYZ":
        try:
            A.BackAdapter("AC" + c + "GT", adapter_wildcards=True)
            if c != "I":                 # inosine is rewritten to N before the check and is not part of the alphabet itself
                letters.append(c)
        except A.InvalidCharacter:
            pass
        except ValueError:
            pass
    iupac = "".join(letters)
    asrc = open(os.path.join(build_dir, "cutadapt", "adapters.py")).read()
    m = re.search(r'iupac = frozenset\("([A-Z]+)"\)', asrc)
    if m:
        assert set(m.group(1)) == set(iupac), ("IUPAC alphabet: source text and behaviour disagree", m.group(1), iupac)
        iupac = m.group(1)
    out = ["/-! GENERATED from parser.py / adapters.py by gen/gen_parsertables.py — do not edit. -/",
           "namespace Cutadapt.Generated", "",
           "/-- `allowed_parameters`: accepted parameter name ↦ the canonical name it is un-abbreviated to -/",
           "def allowedParameters : List (String × String) := [" + ", ".join('("%s", "%s")' % p for p in pairs) + "]", "",
           "/-- largest repeat count accepted inside braces by `expand_braces` -/",
           f"def braceLimit : Nat := {limit}", "",
           "/-- characters accepted in an adapter sequence when adapter wildcards are on -/",
           f'def iupacAlphabet : String := "{iupac}"', "",
           "end Cutadapt.Generated", ""]
    return "ParserTables.lean", "\n".join(out)
