"""Translator: match tables, Where flag sets, alignment scores -> Cutadapt/Generated/Tables.lean.
Reads the scratch build of /repo's working tree (import) and the DEF lines of _align.pyx (regex)."""
import importlib
import os
import re


def generate(build_dir):
    mt = importlib.import_module("cutadapt._match_tables")
    ad = importlib.import_module("cutadapt.adapters")
    al = importlib.import_module("cutadapt.align")
    acgt, iupac, upper = mt._acgt_table(), mt._iupac_table(), mt._upper_table()
    assert len(acgt) == len(iupac) == len(upper) == 256
    pyx = open(os.path.join(build_dir, "cutadapt", "_align.pyx")).read()
    scores = {}
    for name in ("MATCH_SCORE", "MISMATCH_SCORE", "INSERTION_SCORE", "DELETION_SCORE"):
        m = re.search(r"^DEF %s = ([+-]?\d+)\s*$" % name, pyx, re.M)
        scores[name] = int(m.group(1))
    src = open(os.path.join(build_dir, "cutadapt", "adapters.py")).read()
    m = re.search(r"indel_cost = (\d+) if self\.indels else (\d+)", src)
    indel_on, indel_off = int(m.group(1)), int(m.group(2))

    def arr(b):
        return "#[" + ", ".join(str(x) for x in b) + "]"

    W = ad.Where
    E = al.EndSkip
    out = ["/-! GENERATED from /repo's working tree by gen/gen_tables.py — do not edit. -/",
           "namespace Cutadapt.Generated", "",
           f"def acgtTable : Array UInt8 := {arr(acgt)}", "",
           f"def iupacTable : Array UInt8 := {arr(iupac)}", "",
           f"def upperTable : Array UInt8 := {arr(upper)}", "",
           "/-- `EndSkip` bits -/",
           f"def endSkipReferenceStart : Nat := {int(E.REFERENCE_START)}",
           f"def endSkipQueryStart : Nat := {int(E.QUERY_START)}",
           f"def endSkipReferenceEnd : Nat := {int(E.REFERENCE_END)}",
           f"def endSkipQueryStop : Nat := {int(E.QUERY_STOP)}",
           "/-- `Where` flag sets -/",
           f"def whereBack : Nat := {int(W.BACK)}",
           f"def whereFront : Nat := {int(W.FRONT)}",
           f"def wherePrefix : Nat := {int(W.PREFIX)}",
           f"def whereSuffix : Nat := {int(W.SUFFIX)}",
           f"def whereFrontNotInternal : Nat := {int(W.FRONT_NOT_INTERNAL)}",
           f"def whereBackNotInternal : Nat := {int(W.BACK_NOT_INTERNAL)}",
           f"def whereAnywhere : Nat := {int(W.ANYWHERE)}", "",
           f"def matchScore : Int := {scores['MATCH_SCORE']}",
           f"def mismatchScore : Int := {scores['MISMATCH_SCORE']}",
           f"def insertionScore : Int := {scores['INSERTION_SCORE']}",
           f"def deletionScore : Int := {scores['DELETION_SCORE']}",
           f"def indelCostOn : Nat := {indel_on}",
           f"def indelCostOff : Nat := {indel_off}", "",
           "end Cutadapt.Generated", ""]
    return "Tables.lean", "\n".join(out)
