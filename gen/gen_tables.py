"""Translator: match tables, Where flag sets, alignment scores -> Cutadapt/Generated/Tables.lean.
Everything is taken from the *behaviour* of the scratch build of /repo's working tree (import, call, probe), so that a harmless
rewrite of the source text does not break the tie; where the source text also states the constant (DEF lines of _align.pyx, the
`indel_cost = … if self.indels else …` line) it is read as a cross-check and a disagreement is an error."""
import importlib
import os
import re


OUTPUT = "Tables.lean"      # the generated file (harness/core.py: a failure of this translator concerns the properties that import it)

def generate(build_dir):
    mt = importlib.import_module("cutadapt._match_tables")
    ad = importlib.import_module("cutadapt.adapters")
    al = importlib.import_module("cutadapt.align")
    acgt, iupac, upper = mt._acgt_table(), mt._iupac_table(), mt._upper_table()
    assert len(acgt) == len(iupac) == len(upper) == 256
    # scores, probed: global alignment (flags 0) of an 8-mer with itself, with one substitution, one deletion, one insertion
    from cutadapt._align import Aligner
    aln = Aligner("ACGTACGT", 0.9, flags=0, indel_cost=1, min_overlap=1)
    exact, sub, dele, ins = aln.locate("ACGTACGT"), aln.locate("ACGAACGT"), aln.locate("ACGACGT"), aln.locate("ACGTTACGT")
    assert exact[5] == 0 and sub[5] == dele[5] == ins[5] == 1, (exact, sub, dele, ins)
    assert exact[4] % 8 == 0
    match = exact[4] // 8
    scores = {"MATCH_SCORE": match, "MISMATCH_SCORE": sub[4] - 7 * match, "DELETION_SCORE": dele[4] - 7 * match,
              "INSERTION_SCORE": ins[4] - 8 * match}
    pyx = open(os.path.join(build_dir, "cutadapt", "_align.pyx")).read()
    for name in scores:
        m = re.search(r"^DEF %s = ([+-]?\d+)\s*$" % name, pyx, re.M)
        if m:
            assert int(m.group(1)) == scores[name], f"{name}: source says {m.group(1)}, behaviour says {scores[name]}"
    # indel costs: what `_make_aligner` passes to the aligner with indels on / off (recorded at the call)
    seen = {}
    real_aligner = ad.Aligner

    def recording(*a, **k):
        seen[len(seen)] = k.get("indel_cost")
        return real_aligner(*a, **k)
    ad.Aligner = recording
    try:
        ad.BackAdapter("ACGTACGT", max_errors=0.2, indels=True).aligner
        ad.BackAdapter("ACGTACGT", max_errors=0.2, indels=False).aligner
    finally:
        ad.Aligner = real_aligner
    indel_on, indel_off = seen[0], seen[1]
    assert isinstance(indel_on, int) and isinstance(indel_off, int), seen
    src = open(os.path.join(build_dir, "cutadapt", "adapters.py")).read()
    m = re.search(r"indel_cost = (\d+) if self\.indels else (\d+)", src)
    if m:
        assert (int(m.group(1)), int(m.group(2))) == (indel_on, indel_off), "indel costs: source text and behaviour disagree"

    def arr(b):
        return "#[" + ", ".join(str(x) for x in b) + "]"

    W = ad.Where
    E = al.EndSkip
    out = ["/-! GENERATED from /repo's working tree by gen/gen_tables.py — do not edit. -/",
           "namespace Cutadapt.Generated", "",
           f"def acgtTable : Array UInt8 := {arr(acgt)}", "",
           f"def iupacTable : Array UInt8 := {arr(iupac)}", "",
           f"def upperTable : Array UInt8 := {arr(upper)}", "",
           "/-- `EndSkip` bits -/",
           f"def endSkipReferenceStart : Nat := {int(E.REFERENCE_START)}",
           f"def endSkipQueryStart : Nat := {int(E.QUERY_START)}",
           f"def endSkipReferenceEnd : Nat := {int(E.REFERENCE_END)}",
           f"def endSkipQueryStop : Nat := {int(E.QUERY_STOP)}",
           "/-- `Where` flag sets -/",
           f"def whereBack : Nat := {int(W.BACK)}",
           f"def whereFront : Nat := {int(W.FRONT)}",
           f"def wherePrefix : Nat := {int(W.PREFIX)}",
           f"def whereSuffix : Nat := {int(W.SUFFIX)}",
           f"def whereFrontNotInternal : Nat := {int(W.FRONT_NOT_INTERNAL)}",
           f"def whereBackNotInternal : Nat := {int(W.BACK_NOT_INTERNAL)}",
           f"def whereAnywhere : Nat := {int(W.ANYWHERE)}", "",
           f"def matchScore : Int := {scores['MATCH_SCORE']}",
           f"def mismatchScore : Int := {scores['MISMATCH_SCORE']}",
           f"def insertionScore : Int := {scores['INSERTION_SCORE']}",
           f"def deletionScore : Int := {scores['DELETION_SCORE']}",
           f"def indelCostOn : Nat := {indel_on}",
           f"def indelCostOff : Nat := {indel_off}", "",
           "end Cutadapt.Generated", ""]
    return "Tables.lean", "\n".join(out)
