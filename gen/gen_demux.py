"""Translator: which files the real command-line program creates when demultiplexing, and which file each probe read ends up in
-> Cutadapt/Generated/Demux.lean.

Adapter lists (distinct names; one sequence under two names; one name for two sequences; three names) x {no option, --discard-untrimmed,
--untrimmed-output} for `{name}` (single-end), and `{name1}`/`{name2}` (paired-end, with and without --discard-untrimmed). Probe reads carry
exactly one of the adapter sequences at their 3' end, or none. Emitted, as observed: the files that exist after the run (an empty file is a
file) and the file that holds each probe. C15 proves both equal to the documented rule: one file per adapter name (per combination of names)
plus the 'unknown' / untrimmed file, and every read in the file named after the adapter that matched (the first given among equal ones)."""
import importlib
import io
import logging
import os
import shutil
import sys

OUTPUT = "Demux.lean"

S = {"S1": "AAAGGGCCCTTTAGC", "S2": "TTTGGGAACCATGCA", "S3": "GATTACAGATTCCGG"}
LISTS = [
    [("a", "S1"), ("b", "S2")],
    [("a", "S1"), ("b", "S1")],              # one sequence under two names
    [("a", "S1"), ("a", "S2")],              # one name for two sequences
    [("a", "S1"), ("b", "S2"), ("c", "S3")],
    [("only", "S2")],
]
MODES = ["plain", "discard", "untrimmed"]
BODY = "CATCATGGTACCATTGAC"


def _run(cli, argv):
    old = sys.stdout, sys.stderr
    sys.stdout, sys.stderr = io.StringIO(), io.StringIO()
    handlers = logging.root.handlers[:]
    lg = logging.getLogger("cutadapt")
    lg_handlers = lg.handlers[:]
    try:
        cli.main(argv)
    finally:
        sys.stdout, sys.stderr = old
        for h in logging.root.handlers[:]:
            if h not in handlers:
                logging.root.removeHandler(h)
        for h in lg.handlers[:]:
            if h not in lg_handlers:
                lg.removeHandler(h)


def _fastq(reads):
    return "".join(f"@{n}\n{s}\n+\n{'I' * len(s)}\n" for n, s in reads)


def _where(d):
    files = sorted(fn for fn in os.listdir(d) if fn.endswith(".fastq") and not fn.startswith("in"))
    key = lambda fn: "<untrimmed>" if fn == "ut.fastq" else fn[len("dm-"):-len(".fastq")]      # the text that replaced {name} (…{name1}-{name2}.side)
    where = {}
    for fn in files:
        for line in open(os.path.join(d, fn)).read().split("\n")[0::4]:
            if line.startswith("@"):
                where.setdefault(line[1:].split()[0], []).append(key(fn))
    return [key(fn) for fn in files], where


def generate(build_dir):
    cli = importlib.import_module("cutadapt.cli")
    d = os.path.join(build_dir, "_demux")
    single, comb = [], []
    probes = [("p1", BODY + S["S1"]), ("p2", BODY + S["S2"]), ("p3", BODY + S["S3"]), ("p0", BODY)]
    try:
        for li, lst in enumerate(LISTS):
            for mode in MODES:
                shutil.rmtree(d, ignore_errors=True)
                os.makedirs(d)
                with open(os.path.join(d, "in.fastq"), "w") as f:
                    f.write(_fastq(probes))
                argv = ["--quiet"] + [t for n, k in lst for t in ("-a", f"{n}={S[k]}")]
                if mode == "discard":
                    argv.append("--discard-untrimmed")
                elif mode == "untrimmed":
                    argv += ["--untrimmed-output", os.path.join(d, "ut.fastq")]
                argv += ["-o", os.path.join(d, "dm-{name}.fastq"), os.path.join(d, "in.fastq")]
                try:
                    _run(cli, argv)
                    files, where = _where(d)
                    routing = [(p, where.get(p, [])) for p, _ in probes]
                except (Exception, SystemExit):
                    files, routing = ["run-failed"], []
                single.append((li, mode, files, routing))
        # combinatorial: R1 adapters a/b (S1/S2), R2 adapters x/y (S3/S1)
        r1ads, r2ads = [("a", "S1"), ("b", "S2")], [("x", "S3"), ("y", "S1")]
        pairs = [("q11", BODY + S["S1"], BODY + S["S3"]), ("q12", BODY + S["S1"], BODY + S["S1"]), ("q20", BODY + S["S2"], BODY),
                 ("q01", BODY, BODY + S["S3"]), ("q00", BODY, BODY)]
        for mode in ("plain", "discard"):
            shutil.rmtree(d, ignore_errors=True)
            os.makedirs(d)
            with open(os.path.join(d, "in1.fastq"), "w") as f:
                f.write(_fastq([(n, a) for n, a, b in pairs]))
            with open(os.path.join(d, "in2.fastq"), "w") as f:
                f.write(_fastq([(n, b) for n, a, b in pairs]))
            argv = ["--quiet"] + [t for n, k in r1ads for t in ("-a", f"{n}={S[k]}")] + [t for n, k in r2ads for t in ("-A", f"{n}={S[k]}")]
            if mode == "discard":
                argv.append("--discard-untrimmed")
            argv += ["-o", os.path.join(d, "dm-{name1}-{name2}.1.fastq"), "-p", os.path.join(d, "dm-{name1}-{name2}.2.fastq"),
                     os.path.join(d, "in1.fastq"), os.path.join(d, "in2.fastq")]
            try:
                _run(cli, argv)
                files, where = _where(d)
                routing = [(p, where.get(p, [])) for p, _, _ in pairs]
            except (Exception, SystemExit):
                files, routing = ["run-failed"], []
            comb.append((mode, files, routing))
        # paired {name} with adapters for R2 only: the name is that of the last match on R1 - there is none
        r2only = []
        for mode in ("plain", "discard"):
            shutil.rmtree(d, ignore_errors=True)
            os.makedirs(d)
            with open(os.path.join(d, "in1.fastq"), "w") as f:
                f.write(_fastq([(n, a) for n, a, b in pairs]))
            with open(os.path.join(d, "in2.fastq"), "w") as f:
                f.write(_fastq([(n, b) for n, a, b in pairs]))
            argv = ["--quiet"] + [t for n, k in r2ads for t in ("-A", f"{n}={S[k]}")]
            if mode == "discard":
                argv.append("--discard-untrimmed")
            argv += ["-o", os.path.join(d, "dm-{name}.1.fastq"), "-p", os.path.join(d, "dm-{name}.2.fastq"),
                     os.path.join(d, "in1.fastq"), os.path.join(d, "in2.fastq")]
            try:
                _run(cli, argv)
                files, where = _where(d)
                routing = [(p, where.get(p, [])) for p, _, _ in pairs]
            except (Exception, SystemExit):
                files, routing = ["run-failed"], []
            r2only.append((mode, files, routing))
    finally:
        shutil.rmtree(d, ignore_errors=True)
    lst_ = lambda xs: "[" + ", ".join('"%s"' % x for x in xs) + "]"
    pairs_ = lambda xs: "[" + ", ".join('("%s", "%s")' % x for x in xs) + "]"
    rout = lambda xs: "[" + ", ".join('("%s", %s)' % (p, lst_(fs)) for p, fs in xs) + "]"
    out = ["/-! GENERATED from /repo's working tree by gen/gen_demux.py — do not edit.",
           "    Demultiplexing as observed on the real command-line program. `demuxLists`: the adapter lists (name, sequence id) given with `-a`;",
           "    `demuxSingle`: (list number, \"plain\" | \"discard\" (--discard-untrimmed) | \"untrimmed\" (--untrimmed-output), files existing after the run — each given",
           "    by the text that stands in the place of `{name}`, the untrimmed file as `<untrimmed>` —,",
           "    [(probe read, files holding it)]) — probe p1/p2/p3 ends in sequence S1/S2/S3, p0 carries no adapter;",
           "    `demuxComb`: `{name1}-{name2}` with R1 adapters a=S1, b=S2 and R2 adapters x=S3, y=S1; pairs q11 (S1, S3), q12 (S1, S1), q20 (S2, none),",
           "    q01 (none, S3), q00 (none, none). -/",
           "namespace Cutadapt.Generated", "",
           "def demuxLists : List (List (String × String)) := [" + ", ".join(pairs_(l) for l in LISTS) + "]", "",
           "def demuxSingle : List (Nat × String × List String × List (String × List String)) := [",
           ",\n".join(f'  ({li}, "{m}", {lst_(fs)}, {rout(r)})' for li, m, fs, r in single), "]", "",
           "def demuxComb : List (String × List String × List (String × List String)) := [",
           ",\n".join(f'  ("{m}", {lst_(fs)}, {rout(r)})' for m, fs, r in comb), "]", "",
           "/-- paired-end `{name}` with adapters for R2 only (x=S3, y=S1), the same probe pairs -/",
           "def demuxR2Only : List (String × List String × List (String × List String)) := [",
           ",\n".join(f'  ("{m}", {lst_(fs)}, {rout(r)})' for m, fs, r in r2only), "]", "", "end Cutadapt.Generated", ""]
    return "Demux.lean", "\n".join(out)
