"""Translator: how the real command-line program combines the per-read criterion of every filter over the two reads of a pair
-> Cutadapt/Generated/PairFilter.lean.

For every filtering option x every `--pair-filter` setting (absent, any, both, first) x (for the trimmed/untrimmed filters) adapters given for
both reads / R1 only / R2 only, the real `cutadapt.cli.main` is run on four probe pairs in which the criterion holds for
(R1 and R2), (R1 only), (R2 only), (neither). What is emitted is *observed behaviour*: for every probe pair whether the criterion holds for
R1, for R2, and whether the pair was removed from the main output. C05 proves that every row is the documented combination and that the
assembly model chooses the same combination for the same options."""
import importlib
import io
import logging
import os
import shutil
import sys

ADAPTER = "GATTACAGATTACAGG"
LONG, SHORT = "ACGTACGTACGT", "ACG"

# name, options, (read on which the criterion holds, read on which it does not), as (sequence, qualities, comment-number → header comment)
FILTERS = [
    ("too_short", ["-m", "5"], (SHORT, None, "N"), (LONG, None, "N")),
    ("too_long", ["-M", "5"], (LONG, None, "N"), (SHORT, None, "N")),
    ("too_many_n", ["--max-n", "0"], ("ACGNACGTACGT", None, "N"), (LONG, None, "N")),
    ("too_many_expected_errors", ["--max-ee", "1"], (LONG, "!", "N"), (LONG, None, "N")),
    ("too_high_average_error_rate", ["--max-aer", "0.1"], (LONG, "!", "N"), (LONG, None, "N")),
    ("casava_filtered", ["--discard-casava"], (LONG, None, "Y"), (LONG, None, "N")),
    ("discard_trimmed", ["--discard-trimmed"], (LONG + ADAPTER, None, "N"), (LONG, None, "N")),
    ("discard_untrimmed", ["--discard-untrimmed"], (LONG, None, "N"), (LONG + ADAPTER, None, "N")),
    ("untrimmed_output", ["--untrimmed-output", "@ut1", "--untrimmed-paired-output", "@ut2"], (LONG, None, "N"), (LONG + ADAPTER, None, "N")),
]
ADAPTER_FILTERS = ("discard_trimmed", "discard_untrimmed", "untrimmed_output")
MODES = [None, "any", "both", "first"]
SIDES = {"both": ["-a", ADAPTER, "-A", ADAPTER], "r1": ["-a", ADAPTER], "r2": ["-A", ADAPTER]}


OUTPUT = "PairFilter.lean"      # the generated file (harness/core.py: a failure of this translator concerns the properties that import it)

def _fastq(side, reads):
    out = []
    for pid, (seq, q, casava) in reads:
        out.append(f"@{pid} {side}:{casava}:0:1\n{seq}\n+\n{(q or 'I') * len(seq)}\n")
    return "".join(out)


def _holds(name, sided, side, is_hit):
    """does the documented criterion hold for this mate? (for the adapter filters it depends on whether adapters are searched in that read)"""
    if name not in ADAPTER_FILTERS:
        return is_hit
    searched = sided == "both" or sided == ("r1" if side == 1 else "r2")
    has_adapter = not is_hit if name != "discard_trimmed" else is_hit
    trimmed = searched and has_adapter
    return trimmed if name == "discard_trimmed" else not trimmed


def _run(cli, d, name, opts, mode, sided, hit, miss):
    probes = [("tt", hit, hit), ("tf", hit, miss), ("ft", miss, hit), ("ff", miss, miss)]
    with open(os.path.join(d, "in1.fastq"), "w") as f:
        f.write(_fastq(1, [(p, a) for p, a, b in probes]))
    with open(os.path.join(d, "in2.fastq"), "w") as f:
        f.write(_fastq(2, [(p, b) for p, a, b in probes]))
    argv = ["--quiet", "--action", "none"] + [os.path.join(d, t[1:] + ".fastq") if t.startswith("@") else t for t in opts]
    if name in ADAPTER_FILTERS:
        argv += SIDES[sided]
    if mode:
        argv += ["--pair-filter", mode]
    argv += ["-o", os.path.join(d, "o1.fastq"), "-p", os.path.join(d, "o2.fastq"), os.path.join(d, "in1.fastq"), os.path.join(d, "in2.fastq")]
    old = sys.stdout, sys.stderr
    sys.stdout, sys.stderr = io.StringIO(), io.StringIO()
    handlers = logging.root.handlers[:]
    lg = logging.getLogger("cutadapt")
    lg_handlers = lg.handlers[:]
    try:
        cli.main(argv)
    finally:
        sys.stdout, sys.stderr = old
        for h in logging.root.handlers[:]:
            if h not in handlers:
                logging.root.removeHandler(h)
        for h in lg.handlers[:]:
            if h not in lg_handlers:
                lg.removeHandler(h)
    kept1 = [l[1:].split()[0] for l in open(os.path.join(d, "o1.fastq")).read().splitlines()[0::4]]
    kept2 = [l[1:].split()[0] for l in open(os.path.join(d, "o2.fastq")).read().splitlines()[0::4]]
    assert kept1 == kept2, (kept1, kept2)
    obs = []
    for p, a, b in probes:
        obs.append((_holds(name, sided, 1, a is hit), _holds(name, sided, 2, b is hit), p not in kept1))
    return obs


def generate(build_dir):
    cli = importlib.import_module("cutadapt.cli")
    d = os.path.join(build_dir, "_pairfilter")
    os.makedirs(d, exist_ok=True)
    rows = []
    try:
        for name, opts, hit, miss in FILTERS:
            for sided in (["both", "r1", "r2"] if name in ADAPTER_FILTERS else ["none"]):
                for mode in MODES:
                    rows.append((name, mode or "default", sided, _run(cli, d, name, opts, mode, sided, hit, miss)))
    finally:
        shutil.rmtree(d, ignore_errors=True)
    b = lambda x: "true" if x else "false"
    def row(r):
        obs = ", ".join(f"({b(h1)}, {b(h2)}, {b(dd)})" for h1, h2, dd in r[3])
        return f'  ("{r[0]}", "{r[1]}", "{r[2]}", [{obs}])'
    out = ["/-! GENERATED from /repo's working tree by gen/gen_pairfilter.py — do not edit.",
           "    Observed pair decisions of the real command-line program: (filter, `--pair-filter` value or \"default\", reads for which adapters are",
           "    given (\"none\" for filters that do not look at adapters), [(criterion holds for R1, holds for R2, pair removed from the main output)]) -/",
           "namespace Cutadapt.Generated", "",
           "def pairDecisions : List (String × String × String × List (Bool × Bool × Bool)) := [",
           ",\n".join(row(r) for r in rows), "]", "", "end Cutadapt.Generated", ""]
    return "PairFilter.lean", "\n".join(out)
