"""Translator: SCORE_TO_ERROR_RATE of expected_errors.h -> Cutadapt/Generated/Phred.lean (bit patterns of the doubles
and exact rationals as numerator / 2^k). The table is read off the compiled code (`expected_errors` of a one-character quality
string returns the table entry itself), so reformatting the header does not break the tie; the literal table in the header, when
it can still be parsed, is a cross-check."""
import os
import re
import struct
from fractions import Fraction


OUTPUT = "Phred.lean"      # the generated file (harness/core.py: a failure of this translator concerns the properties that import it)

def generate(build_dir):
    import importlib
    ee = importlib.import_module("cutadapt.qualtrim").expected_errors
    vals = []
    for q in range(0, 94):          # printable quality characters '!' .. '~'
        vals.append(float(ee(chr(33 + q))))
    h = open(os.path.join(build_dir, "cutadapt", "expected_errors.h")).read()
    m = re.search(r"SCORE_TO_ERROR_RATE\[(\d+)\]\s*=\s*\{(.*?)\};", h, re.S)
    if m:
        body = re.sub(r"//[^\n]*", "", m.group(2))
        try:
            lit = [float(x.strip().rstrip("L")) for x in body.split(",") if x.strip()]
        except ValueError:
            lit = None
        if lit is not None:
            assert lit == vals, "expected_errors.h: literal table and compiled behaviour disagree"
    bits = [struct.unpack("<Q", struct.pack("<d", v))[0] for v in vals]
    fr = [Fraction(v) for v in vals]
    out = ["/-! GENERATED from src/cutadapt/expected_errors.h by gen/gen_phred.py — do not edit. -/",
           "namespace Cutadapt.Generated", "",
           "/-- IEEE binary64 bit patterns of `SCORE_TO_ERROR_RATE` -/",
           "def phredBits : Array UInt64 := #[" + ", ".join(str(b) for b in bits) + "]", "",
           "/-- the same doubles as exact rationals `(numerator, denominator)`; denominators are powers of two -/",
           "def phredExact : List (Nat × Nat) := [" + ", ".join(f"({f.numerator}, {f.denominator})" for f in fr) + "]", "",
           "end Cutadapt.Generated", ""]
    return "Phred.lean", "\n".join(out)
