"""Translator: SCORE_TO_ERROR_RATE of expected_errors.h -> Cutadapt/Generated/Phred.lean (bit patterns of the doubles
and exact rationals as numerator / 2^k)."""
import os
import re
import struct
from fractions import Fraction


def generate(build_dir):
    h = open(os.path.join(build_dir, "cutadapt", "expected_errors.h")).read()
    m = re.search(r"SCORE_TO_ERROR_RATE\[(\d+)\]\s*=\s*\{(.*?)\};", h, re.S)
    n = int(m.group(1))
    body = re.sub(r"//[^\n]*", "", m.group(2))
    vals = [float(x.strip().rstrip("L")) for x in body.split(",") if x.strip()]
    assert len(vals) == n, (len(vals), n)
    bits = [struct.unpack("<Q", struct.pack("<d", v))[0] for v in vals]
    fr = [Fraction(v) for v in vals]
    out = ["/-! GENERATED from src/cutadapt/expected_errors.h by gen/gen_phred.py — do not edit. -/",
           "namespace Cutadapt.Generated", "",
           "/-- IEEE binary64 bit patterns of `SCORE_TO_ERROR_RATE` -/",
           "def phredBits : Array UInt64 := #[" + ", ".join(str(b) for b in bits) + "]", "",
           "/-- the same doubles as exact rationals `(numerator, denominator)`; denominators are powers of two -/",
           "def phredExact : List (Nat × Nat) := [" + ", ".join(f"({f.numerator}, {f.denominator})" for f in fr) + "]", "",
           "end Cutadapt.Generated", ""]
    return "Phred.lean", "\n".join(out)
