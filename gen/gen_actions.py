"""Translator: what every `--action` of the real command-line program does to a probe read with one exact adapter occurrence
-> Cutadapt/Generated/Actions.lean.

Probe reads (mixed case, pairwise distinct quality characters) carry the adapter once, exactly: after the body for `-a`, before it for `-g`.
For every action (trim, mask, lowercase, none, retain, crop) the real `cutadapt.cli.main` is run; emitted, as observed: output sequence and
qualities. C03 proves each row equal to the documented effect of the action on the interval of the occurrence."""
import importlib
import io
import logging
import os
import shutil
import sys

OUTPUT = "Actions.lean"

ADAPTER = "GATTACAGATTCCGGA"
BODY = "CATcatGGTACCattGAC"
EXTRA = "tgCA"
ACTIONS = ["trim", "mask", "lowercase", "none", "retain", "crop"]
# (flag, read, start, stop of the adapter occurrence)
PROBES = [("-a", BODY + ADAPTER + EXTRA, len(BODY), len(BODY) + len(ADAPTER)),
          ("-g", EXTRA + ADAPTER + BODY, len(EXTRA), len(EXTRA) + len(ADAPTER)),
          ("-a", BODY + ADAPTER, len(BODY), len(BODY) + len(ADAPTER)),
          ("-g", ADAPTER + BODY, 0, len(ADAPTER))]


def _run(cli, argv):
    old = sys.stdout, sys.stderr
    sys.stdout, sys.stderr = io.StringIO(), io.StringIO()
    handlers = logging.root.handlers[:]
    lg = logging.getLogger("cutadapt")
    lg_handlers = lg.handlers[:]
    try:
        cli.main(argv)
    finally:
        sys.stdout, sys.stderr = old
        for h in logging.root.handlers[:]:
            if h not in handlers:
                logging.root.removeHandler(h)
        for h in lg.handlers[:]:
            if h not in lg_handlers:
                lg.removeHandler(h)


def generate(build_dir):
    cli = importlib.import_module("cutadapt.cli")
    d = os.path.join(build_dir, "_actions")
    rows = []
    try:
        for k, (flag, read, s, e) in enumerate(PROBES):
            quals = "".join(chr(40 + i) for i in range(len(read)))
            for action in ACTIONS:
                shutil.rmtree(d, ignore_errors=True)
                os.makedirs(d)
                with open(os.path.join(d, "in.fastq"), "w") as f:
                    f.write(f"@probe\n{read}\n+\n{quals}\n")
                try:
                    _run(cli, ["--quiet", flag, ADAPTER, "-e", "0", "--action", action, "-o", os.path.join(d, "out.fastq"), os.path.join(d, "in.fastq")])
                    lines = open(os.path.join(d, "out.fastq")).read().split("\n")
                    seq, q, ok = lines[1], lines[3], 1
                except (Exception, SystemExit):
                    seq, q, ok = "", "", 0
                rows.append((k, action, ok, seq, q))
    finally:
        shutil.rmtree(d, ignore_errors=True)
    by = lambda s: "[" + ", ".join(str(ord(c)) for c in s) + "]"
    out = ["/-! GENERATED from /repo's working tree by gen/gen_actions.py — do not edit.",
           "    `actionProbes`: (5' adapter? (`-g`; false = `-a`), read, qualities, start and stop of the exact adapter occurrence);",
           "    `actionRows`: (probe number, action, 1 = the run succeeded, output sequence, output qualities) as observed. -/",
           "namespace Cutadapt.Generated", "",
           "def actionProbes : List (Bool × List UInt8 × List UInt8 × Nat × Nat) := [" +
           ", ".join(f"({'true' if fl == '-g' else 'false'}, {by(r)}, {by(''.join(chr(40 + i) for i in range(len(r))))}, {s}, {e})" for fl, r, s, e in PROBES) + "]", "",
           "def actionRows : List (Nat × String × Nat × List UInt8 × List UInt8) := [",
           ",\n".join(f'  ({k}, "{a}", {ok}, {by(sq)}, {by(q)})' for k, a, ok, sq, q in rows), "]", "", "end Cutadapt.Generated", ""]
    return "Actions.lean", "\n".join(out)
