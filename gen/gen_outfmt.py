"""Translator: the record format the real command-line program writes into a file of a given name -> Cutadapt/Generated/OutFormat.lean.

For a menu of output file names (every format extension, further dots in the base name, upper case, every compression suffix that can be
written here, names without a known extension) x {1 core, 2 cores} x {FASTQ input, FASTA input} the real `cutadapt.cli.main` is run and the
format is read off the (decompressed) output: '>' = FASTA, '@' = FASTQ. C19 proves that the whole table is the documented rule
(format by the last extension below the compression suffix, otherwise the input's format), which is the model's `outputFormat`."""
import bz2
import gzip
import importlib
import io
import logging
import lzma
import os
import shutil
import sys

NAMES = ["o.fasta", "o.fa", "o.fastq", "o.fq", "o.txt", "o", "s.trimmed.fasta", "x.R1.fa.gz", "a.fasta.bak", "b.fastq.fasta", "c.fa.fastq.gz",
         "O.FASTA", "o.Fa.GZ", "o.fasta.bz2", "o.fq.xz", "o.fastq.gz", "o.out.gz", "v1.2.fasta.xz", "d.fastq.fa.bz2", "e.fasta.gz.txt"]
FASTQ = "".join(f"@r{i}\nACGTACGTAC\n+\nIIIIIIIIII\n" for i in range(4))
FASTA = "".join(f">r{i}\nACGTACGTAC\n" for i in range(4))


OUTPUT = "OutFormat.lean"      # the generated file (harness/core.py: a failure of this translator concerns the properties that import it)

def _read(path):
    raw = open(path, "rb").read()
    # by content, not by name: whether a name makes the writer compress is the library's business (xopen), the format is cutadapt's
    if raw[:2] == b"\x1f\x8b":
        raw = gzip.decompress(raw)
    elif raw[:3] == b"BZh":
        raw = bz2.decompress(raw)
    elif raw[:6] == b"\xfd7zXZ\x00":
        raw = lzma.decompress(raw)
    return raw.decode()


def _run(cli, argv):
    old = sys.stdout, sys.stderr
    sys.stdout, sys.stderr = io.StringIO(), io.StringIO()
    handlers = logging.root.handlers[:]
    lg = logging.getLogger("cutadapt")
    lg_handlers = lg.handlers[:]
    try:
        cli.main(argv)
    finally:
        sys.stdout, sys.stderr = old
        for h in logging.root.handlers[:]:
            if h not in handlers:
                logging.root.removeHandler(h)
        for h in lg.handlers[:]:
            if h not in lg_handlers:
                lg.removeHandler(h)


def generate(build_dir):
    cli = importlib.import_module("cutadapt.cli")
    d = os.path.join(build_dir, "_outfmt")
    os.makedirs(d, exist_ok=True)
    rows = []
    try:
        with open(os.path.join(d, "in.fastq"), "w") as f:
            f.write(FASTQ)
        with open(os.path.join(d, "in.fasta"), "w") as f:
            f.write(FASTA)
        for name in NAMES:
            for cores in (1, 2):
                for qual in (True, False):
                    low = name.lower()
                    base = low
                    for c in (".gz", ".bz2", ".xz"):
                        if base.endswith(c):
                            base = base[: -len(c)]
                            break
                    if not qual and base.endswith((".fastq", ".fq")):
                        continue          # FASTQ cannot be written from FASTA input (no qualities): refused, not part of the table
                    out = os.path.join(d, name)
                    if os.path.exists(out):
                        os.remove(out)
                    try:
                        _run(cli, ["--quiet", "-j", str(cores), "-o", out, os.path.join(d, "in.fastq" if qual else "in.fasta")])
                        text = _read(out)
                        fmt = 1 if text.startswith(">") else 0 if text.startswith("@") else 2
                    except (Exception, SystemExit):
                        fmt = 2                # the run failed or wrote something else: recorded, so that the theorem names the row
                    rows.append((name, cores > 1, qual, fmt))
    finally:
        shutil.rmtree(d, ignore_errors=True)
    chars = lambda s: "[" + ", ".join("'" + c + "'" for c in s) + "]"
    b = lambda x: "true" if x else "false"
    out = ["/-! GENERATED from /repo's working tree by gen/gen_outfmt.py — do not edit.",
           "    Observed record format of output files of the real command-line program: (file name as characters, more than one core,",
           "    input has qualities (FASTQ input), format written: 1 = FASTA, 0 = FASTQ, 2 = the run failed or wrote neither) -/",
           "namespace Cutadapt.Generated", "",
           "def outputFormats : List (List Char × Bool × Bool × Nat) := [",
           ",\n".join(f"  ({chars(n)}, {b(p)}, {b(q)}, {f})" for n, p, q, f in rows), "]", "", "end Cutadapt.Generated", ""]
    return "OutFormat.lean", "\n".join(out)
