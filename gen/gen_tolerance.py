"""Translator: how many errors the real command-line program tolerates over a full-length adapter occurrence when the tolerance is given as an
absolute number `-e k` on an adapter of `n` bases -> Cutadapt/Generated/Tolerance.lean.

The stored rate is the double k/n, the tolerance over the whole adapter floor(fl(k/n) * n) - which is k-1 for a few (k, n) such as (1, 49). Every
component that recomputes the tolerance must arrive at the same number. Observed through three routes of the real `cutadapt.cli.main`:
  aligner   `--no-index -g ^ADAPTER --no-indels` (one anchored adapter: the comparer / aligner alone)
  index     `-g ^ADAPTER -g ^OTHER --no-indels` (two anchored adapters: the adapter index; only for k <= 2, the index of more errors is large)
  prefilter `-a ADAPTER` with the occurrence inside the read (aligner behind the real k-mer prefilter)
on reads that carry the adapter with j = 0 … k+1 substitutions spread over its length; emitted: the largest j that is still trimmed (99 if the
trimmed set is not downward closed, 98 if a run failed). C01/C07/C08 prove the three equal to the model's `thrOfRate (k/n) n`."""
import importlib
import io
import logging
import os
import random
import shutil
import sys

OUTPUT = "Tolerance.lean"

PAIRS = [(1, 49), (2, 49), (3, 47), (4, 49), (1, 48), (2, 50), (1, 10), (2, 20), (3, 30), (1, 47)]


def _run(cli, argv):
    old = sys.stdout, sys.stderr
    sys.stdout, sys.stderr = io.StringIO(), io.StringIO()
    handlers = logging.root.handlers[:]
    lg = logging.getLogger("cutadapt")
    lg_handlers = lg.handlers[:]
    try:
        cli.main(argv)
    finally:
        sys.stdout, sys.stderr = old
        for h in logging.root.handlers[:]:
            if h not in handlers:
                logging.root.removeHandler(h)
        for h in lg.handlers[:]:
            if h not in lg_handlers:
                lg.removeHandler(h)


def _subst(rng, seq, j):
    """j substitutions at evenly spread positions (so that every chunk of a k-mer heuristic is hit)"""
    s = list(seq)
    n = len(s)
    for t in range(j):
        p = (2 * t + 1) * n // (2 * j)
        s[p] = {"A": "C", "C": "G", "G": "T", "T": "A"}[s[p]]
    return "".join(s)


def _largest(trimmed):
    js = [j for j, t in enumerate(trimmed) if t]
    if not js:
        return 97
    if js != list(range(len(js))):
        return 99
    return js[-1]


def generate(build_dir):
    cli = importlib.import_module("cutadapt.cli")
    d = os.path.join(build_dir, "_tolerance")
    rng = random.Random(20240607)
    rows = []
    try:
        for k, n in PAIRS:
            ad = "".join(rng.choice("ACGT") for _ in range(n))
            other = "".join({"A": "T", "C": "A", "G": "C", "T": "G"}[c] for c in ad)       # differs everywhere: never the nearer one
            body = "".join(rng.choice("ACGT") for _ in range(30))
            obs = []
            for route in ("aligner", "index", "prefilter"):
                if route == "index" and k > 2:
                    obs.append(None)
                    continue
                shutil.rmtree(d, ignore_errors=True)
                os.makedirs(d)
                reads = []
                for j in range(k + 2):
                    occ = _subst(rng, ad, j)
                    s_ = body[:12] + occ + body[12:] if route == "prefilter" else occ + body
                    reads.append((f"j{j}", s_))
                with open(os.path.join(d, "in.fasta"), "w") as f:
                    f.write("".join(f">{nm}\n{s_}\n" for nm, s_ in reads))
                if route == "aligner":
                    argv = ["--no-index", "-g", "^" + ad, "--no-indels"]
                elif route == "index":
                    argv = ["-g", "^" + ad, "-g", "^" + other, "--no-indels"]
                else:
                    argv = ["-a", ad]
                argv = ["--quiet", "-e", str(k)] + argv + ["-o", os.path.join(d, "out.fasta"), os.path.join(d, "in.fasta")]
                try:
                    _run(cli, argv)
                    lines = open(os.path.join(d, "out.fasta")).read().split("\n")
                    out = {lines[i][1:].split()[0]: lines[i + 1] if i + 1 < len(lines) and not lines[i + 1].startswith(">") else ""
                           for i in range(len(lines)) if lines[i].startswith(">")}
                    # "trimmed" = exactly the occurrence (and what follows a 3' adapter) is gone; a chance overlap of three bases at the end of an
                    # untrimmed read does not count
                    want = body[:12] if route == "prefilter" else body
                    obs.append(_largest([out.get(nm) == want for nm, s_ in reads]))
                except (Exception, SystemExit):
                    obs.append(98)
            rows.append((k, n, obs))
    finally:
        shutil.rmtree(d, ignore_errors=True)
    opt = lambda x: "none" if x is None else f"some {x}"
    out = ["/-! GENERATED from /repo's working tree by gen/gen_tolerance.py — do not edit.",
           "    (k, n, largest number of substitutions in a full-length occurrence that is still trimmed with `-e k` on an adapter of n bases:",
           "    one anchored adapter without index, through the adapter index (`none`: not observed, the index would be large), regular 3' adapter behind",
           "    the k-mer prefilter); 97 = nothing trimmed, 98 = the run failed, 99 = not downward closed -/",
           "namespace Cutadapt.Generated", "",
           "def toleranceRows : List (Nat × Nat × Nat × Option Nat × Nat) := [",
           ",\n".join(f"  ({k}, {n}, {o[0]}, {opt(o[1])}, {o[2]})" for k, n, o in rows), "]", "", "end Cutadapt.Generated", ""]
    return "Tolerance.lean", "\n".join(out)
