"""Translator: `--poly-a`, `--trim-n` and `--max-n` of the real command-line program on probe reads, alone and next to options that have nothing to do
with them -> Cutadapt/Generated/C14Tables.lean.

Probes: tails of 0 … 6 A (exact and with one other base), all-N and single-base reads with N runs at the ends, mixed-case N's. Each option is run
alone and together with `-O 1`, `-O 10`, `-e 0.5`, `--action=none`, `--action=lowercase` (the adapter-search and action options: no adapter is
given). Emitted, as observed: for --poly-a and --trim-n the interval of the probe that is kept, for --max-n whether the read is discarded. C14
proves the tables equal to the model's `polyATrimIndex`, `nEndIndices`, `nCountBoth` for every option set — the definitions do not depend on them."""
import importlib
import io
import logging
import os
import shutil
import sys

OUTPUT = "C14Tables.lean"

BODY = "CGTCGTCTGC"
POLYA = [BODY + "A" * t for t in range(0, 7)] + [BODY + "AAAGAAAA", BODY + "AACAA", BODY + "AAAAAC", "AAAA", "AA", BODY + "aAAAA"]
TRIMN = ["NNACGTNNN", "A", "NA", "AN", "NAN", "NNNCNN", "NNNNNN", "N", "nACGTn", "NnACGTN", "ACGT", "NNACNNGTNN"]
MAXN = [("ACGTN", "0"), ("ACGTn", "0"), ("ACGT", "0"), ("NnACGT", "1"), ("NnNACGT", "2"), ("NnNACGT", "0.4"), ("NnNACGTACG", "0.3"), ("nnnn", "0.9"), ("NNnnACGTAC", "0.4")]
EXTRAS = [("plain", []), ("O1", ["-O", "1"]), ("O10", ["-O", "10"]), ("e05", ["-e", "0.5"]), ("none", ["--action", "none"]), ("lower", ["--action", "lowercase"])]


def _run(cli, argv):
    old = sys.stdout, sys.stderr
    sys.stdout, sys.stderr = io.StringIO(), io.StringIO()
    handlers = logging.root.handlers[:]
    lg = logging.getLogger("cutadapt")
    lg_handlers = lg.handlers[:]
    try:
        cli.main(argv)
    finally:
        sys.stdout, sys.stderr = old
        for h in logging.root.handlers[:]:
            if h not in handlers:
                logging.root.removeHandler(h)
        for h in lg.handlers[:]:
            if h not in lg_handlers:
                lg.removeHandler(h)


def _observe(cli, d, opts, probes):
    """{probe index: output sequence or None (not written)}"""
    shutil.rmtree(d, ignore_errors=True)
    os.makedirs(d)
    with open(os.path.join(d, "in.fasta"), "w") as f:
        f.write("".join(f">p{i}\n{s}\n" for i, s in enumerate(probes)))
    _run(cli, ["--quiet"] + opts + ["-o", os.path.join(d, "out.fasta"), os.path.join(d, "in.fasta")])
    lines = open(os.path.join(d, "out.fasta")).read().split("\n")
    out = {}
    for i, l in enumerate(lines):
        if l.startswith(">"):
            out[int(l[2:].split()[0])] = lines[i + 1] if i + 1 < len(lines) and not lines[i + 1].startswith(">") else ""
    return out


def generate(build_dir):
    cli = importlib.import_module("cutadapt.cli")
    d = os.path.join(build_dir, "_c14tables")
    polya, trimn, maxn = [], [], []
    try:
        for tag, extra in EXTRAS:
            try:
                out = _observe(cli, d, extra + ["--poly-a"], POLYA)
                for i, s in enumerate(POLYA):
                    o = out.get(i)
                    polya.append((tag, i, len(o) if o is not None and s.upper().startswith(o.upper()) else 999))
            except (Exception, SystemExit):
                polya += [(tag, i, 998) for i in range(len(POLYA))]
            try:
                out = _observe(cli, d, extra + ["--trim-n"], TRIMN)
                for i, s in enumerate(TRIMN):
                    o = out.get(i)
                    if o is None:
                        trimn.append((tag, i, 999, 999))
                    elif o == "":
                        trimn.append((tag, i, 0, 0))
                    else:
                        a = s.upper().find(o.upper())
                        trimn.append((tag, i, a, a + len(o)) if a >= 0 else (tag, i, 999, 999))
            except (Exception, SystemExit):
                trimn += [(tag, i, 998, 998) for i in range(len(TRIMN))]
            for j, (s, cut) in enumerate(MAXN):
                try:
                    out = _observe(cli, d, extra + ["--max-n", cut], [s])
                    maxn.append((tag, j, 0 in out))
                except (Exception, SystemExit):
                    maxn.append((tag, j, None))
    finally:
        shutil.rmtree(d, ignore_errors=True)
    by = lambda s: "[" + ", ".join(str(ord(c)) for c in s) + "]"
    out = ["/-! GENERATED from /repo's working tree by gen/gen_c14tables.py — do not edit.",
           "    Option sets: plain, `-O 1`, `-O 10`, `-e 0.5`, `--action=none`, `--action=lowercase` next to `--poly-a` / `--trim-n` / `--max-n`.",
           "    polyA: (option set, probe, kept length; 999 = output is not a prefix of the probe, 998 = run failed);",
           "    trimN: (option set, probe, start, stop of the kept part; an empty result is (0, 0));",
           "    maxN: (option set, probe number in maxNProbes, 1 = kept, 0 = discarded, 2 = run failed). -/",
           "namespace Cutadapt.Generated", "",
           "def polyAProbes : List (List UInt8) := [" + ", ".join(by(s) for s in POLYA) + "]",
           "def trimNProbes : List (List UInt8) := [" + ", ".join(by(s) for s in TRIMN) + "]",
           "/-- (read, cutoff numerator, cutoff denominator): a cutoff below 1 is a fraction of the read length -/",
           "def maxNProbes : List (List UInt8 × Nat × Nat) := [" + ", ".join(
               f"({by(s)}, {int(round(float(c) * 10))}, 10)" for s, c in MAXN) + "]", "",
           "def polyAKept : List (String × Nat × Nat) := [" + ", ".join(f'("{t}", {i}, {k})' for t, i, k in polya) + "]", "",
           "def trimNKept : List (String × Nat × Nat × Nat) := [" + ", ".join(f'("{t}", {i}, {a}, {b})' for t, i, a, b in trimn) + "]", "",
           "def maxNKept : List (String × Nat × Nat) := [" + ", ".join(f'("{t}", {j}, {2 if k is None else int(k)})' for t, j, k in maxn) + "]", "",
           "end Cutadapt.Generated", ""]
    return "C14Tables.lean", "\n".join(out)
