"""Translator: which pairs the real command-line program trims with `--pair-adapters` when adapter sequences are given more than once
-> Cutadapt/Generated/PairRanks.lean.

The rank of an adapter is its position among the `-a` (`-A`) options of the command line; combinatorial dual indices repeat sequences on either
side (ranks (X,P), (Y,P), (X,Q)). For several pairs of lists — unnamed specifications, some of them verbatim repetitions — the real
`cutadapt.cli.main` is run with `-e 0 --no-indels -O 12 --pair-adapters` on the sixteen probe pairs that carry none or an exact copy of one of three
sequences in R1 and in R2. Emitted, as observed: 0 = neither mate changed, 1 = both mates cut exactly at their copy, 2 = anything else,
3 = the run failed. C05 proves the table equal to the documented rule: a pair is trimmed iff some rank has its R1 adapter in R1 and its R2 adapter
in R2."""
import importlib
import io
import logging
import os
import shutil
import sys

OUTPUT = "PairRanks.lean"

SEQ1 = ["ACGTTGCAAGCT", "GGATCCTTAGGA", "CGGTGAGCTGCA"]
SEQ2 = ["TTGACCAGTCAA", "CATGGTACCGTA", "GTCGAGGCTAGT"]
LISTS = [
    ([0, 1, 0], [0, 0, 1]),
    ([0, 1], [0, 1]),
    ([0, 0, 1], [0, 1, 1]),
    ([1, 0, 1, 2], [1, 1, 0, 0]),
    ([0, 0], [0, 1]),
    ([2, 1, 0, 2, 1], [0, 0, 1, 1, 2]),
]
BODY1, BODY2, TAIL = "CATCATTACCATTTACATTA", "TTACCATACATTCATTTCAA", "ATTCA"


def _run(cli, argv):
    old = sys.stdout, sys.stderr
    sys.stdout, sys.stderr = io.StringIO(), io.StringIO()
    handlers = logging.root.handlers[:]
    lg = logging.getLogger("cutadapt")
    lg_handlers = lg.handlers[:]
    try:
        cli.main(argv)
    finally:
        sys.stdout, sys.stderr = old
        for h in logging.root.handlers[:]:
            if h not in handlers:
                logging.root.removeHandler(h)
        for h in lg.handlers[:]:
            if h not in lg_handlers:
                lg.removeHandler(h)


def _fastq(reads):
    return "".join(f"@{n}\n{s}\n+\n{'I' * len(s)}\n" for n, s in reads)


def _read_out(path):
    lines = open(path).read().split("\n")
    return {lines[i][1:].split()[0]: lines[i + 1] for i in range(0, len(lines) - 3, 4) if lines[i].startswith("@")}


def generate(build_dir):
    cli = importlib.import_module("cutadapt.cli")
    d = os.path.join(build_dir, "_pairranks")
    probes = []
    for a in range(4):
        for b in range(4):
            s1 = BODY1 + (SEQ1[a - 1] + TAIL if a else TAIL)
            s2 = BODY2 + (SEQ2[b - 1] + TAIL if b else TAIL)
            probes.append((f"p{a}{b}", a, b, s1, s2))
    rows = []
    try:
        for k, (l1, l2) in enumerate(LISTS):
            shutil.rmtree(d, ignore_errors=True)
            os.makedirs(d)
            with open(os.path.join(d, "in1.fastq"), "w") as f:
                f.write(_fastq([(n, s1) for n, a, b, s1, s2 in probes]))
            with open(os.path.join(d, "in2.fastq"), "w") as f:
                f.write(_fastq([(n, s2) for n, a, b, s1, s2 in probes]))
            argv = ["--quiet", "-e", "0", "--no-indels", "-O", "12"]
            for i in l1:
                argv += ["-a", SEQ1[i]]
            for i in l2:
                argv += ["-A", SEQ2[i]]
            argv += ["--pair-adapters", "-o", os.path.join(d, "o1.fastq"), "-p", os.path.join(d, "o2.fastq"),
                     os.path.join(d, "in1.fastq"), os.path.join(d, "in2.fastq")]
            try:
                _run(cli, argv)
                o1, o2 = _read_out(os.path.join(d, "o1.fastq")), _read_out(os.path.join(d, "o2.fastq"))
                for n, a, b, s1, s2 in probes:
                    t1, t2 = o1.get(n), o2.get(n)
                    if t1 == s1 and t2 == s2:
                        rows.append((k, a, b, 0))
                    elif a and b and t1 == BODY1 and t2 == BODY2:
                        rows.append((k, a, b, 1))
                    else:
                        rows.append((k, a, b, 2))
            except (Exception, SystemExit):
                rows += [(k, a, b, 3) for n, a, b, s1, s2 in probes]
    finally:
        shutil.rmtree(d, ignore_errors=True)
    nl = lambda xs: "[" + ", ".join(str(x) for x in xs) + "]"
    out = ["/-! GENERATED from /repo's working tree by gen/gen_pairranks.py — do not edit.",
           "    `pairRankLists`: (sequence numbers given with `-a`, sequence numbers given with `-A`), in command-line order, unnamed, next to `--pair-adapters`;",
           "    `pairRankObserved`: (list number, content of R1: 0 = no adapter, k+1 = an exact copy of R1 sequence k, content of R2 likewise,",
           "    outcome: 0 = neither mate changed, 1 = both mates cut at their copy, 2 = anything else, 3 = the run failed) as observed. -/",
           "namespace Cutadapt.Generated", "",
           "def pairRankLists : List (List Nat × List Nat) := [" + ", ".join(f"({nl(a)}, {nl(b)})" for a, b in LISTS) + "]", "",
           "def pairRankObserved : List (Nat × Nat × Nat × Nat) := [",
           ",\n".join("  " + ", ".join(f"({k}, {a}, {b}, {o})" for k, a, b, o in rows[i:i + 8]) for i in range(0, len(rows), 8)), "]", "",
           "end Cutadapt.Generated", ""]
    return "PairRanks.lean", "\n".join(out)
