"""Translator: which filter consumes a read to which several filters apply -> Cutadapt/Generated/FilterOrder.lean.

A probe read that meets the criterion of *every* filter at once (shorter than -m, longer than -M, N's, bad qualities, ':Y:' CASAVA flag; with
the adapter for --discard-trimmed, without it for --discard-untrimmed) is sent through the real `cutadapt.cli.main` with every pair of filter
options, in both command-line orders, with redirect files where a filter has one. Emitted, as observed: the category the report counts the
read under and the files that received it. C11 proves that this is always the first of the two filters in the documented order, in that
filter's redirect file only."""
import importlib
import io
import json
import logging
import os
import shutil
import sys

ADAPTER = "GATTACAGATTACAGG"
FILTERS = [
    ("too_short", ["-m", "100", "--too-short-output", "@too_short"]),
    ("too_long", ["-M", "1", "--too-long-output", "@too_long"]),
    ("too_many_n", ["--max-n", "0"]),
    ("too_many_expected_errors", ["--max-ee", "1"]),
    ("too_high_average_error_rate", ["--max-aer", "0.1"]),
    ("casava_filtered", ["--discard-casava"]),
    ("discard_trimmed", ["--discard-trimmed"]),
    ("discard_untrimmed", ["--discard-untrimmed"]),
    ("untrimmed_output", ["--untrimmed-output", "@untrimmed_output"]),
]
EXCLUSIVE = {"discard_trimmed", "discard_untrimmed", "untrimmed_output"}


OUTPUT = "FilterOrder.lean"      # the generated file (harness/core.py: a failure of this translator concerns the properties that import it)

def _run(cli, argv):
    old = sys.stdout, sys.stderr
    sys.stdout, sys.stderr = io.StringIO(), io.StringIO()
    handlers = logging.root.handlers[:]
    lg = logging.getLogger("cutadapt")
    lg_handlers = lg.handlers[:]
    try:
        cli.main(argv)
    finally:
        sys.stdout, sys.stderr = old
        for h in logging.root.handlers[:]:
            if h not in handlers:
                logging.root.removeHandler(h)
        for h in lg.handlers[:]:
            if h not in lg_handlers:
                lg.removeHandler(h)


def generate(build_dir):
    cli = importlib.import_module("cutadapt.cli")
    d = os.path.join(build_dir, "_filterorder")
    rows = []
    try:
        for a, (fa, oa) in enumerate(FILTERS):
            for b, (fb, ob) in enumerate(FILTERS):
                if a == b or (fa in EXCLUSIVE and fb in EXCLUSIVE):
                    continue
                shutil.rmtree(d, ignore_errors=True)
                os.makedirs(d)
                with_adapter = "discard_trimmed" in (fa, fb)
                seq = "ACNTNAC" + (ADAPTER if with_adapter else "")
                with open(os.path.join(d, "in.fastq"), "w") as f:
                    f.write(f"@probe 1:Y:0:1\n{seq}\n+\n{'!' * len(seq)}\n")
                opts = [os.path.join(d, t[1:] + ".fastq") if t.startswith("@") else t for t in oa + ob]
                argv = ["--quiet", "--json", os.path.join(d, "report.json"), "-a", ADAPTER, "--action", "none"] + opts + \
                       ["-o", os.path.join(d, "main.fastq"), os.path.join(d, "in.fastq")]
                try:
                    _run(cli, argv)
                    rep = json.load(open(os.path.join(d, "report.json")))
                    cats = sorted(k for k, v in rep["read_counts"]["filtered"].items() if v)
                    files = sorted(fn[:-6] for fn in os.listdir(d) if fn.endswith(".fastq") and fn != "in.fastq"
                                   and os.path.getsize(os.path.join(d, fn)) > 0)
                except (Exception, SystemExit) as e:
                    cats, files = ["run-failed"], []
                rows.append((fa, fb, cats, files))
    finally:
        shutil.rmtree(d, ignore_errors=True)
    lst = lambda xs: "[" + ", ".join('"%s"' % x for x in xs) + "]"
    out = ["/-! GENERATED from /repo's working tree by gen/gen_filterorder.py — do not edit.",
           "    A probe read to which both filters apply: (filter option given first, filter option given second, categories under which the report",
           "    counts the read, files that received the read) -/",
           "namespace Cutadapt.Generated", "",
           "def filterPairs : List (String × String × List String × List String) := [",
           ",\n".join(f'  ("{fa}", "{fb}", {lst(c)}, {lst(fl)})' for fa, fb, c, fl in rows), "]", "", "end Cutadapt.Generated", ""]
    return "FilterOrder.lean", "\n".join(out)
