"""Translator: what the quality-trimming options of the real command-line program keep of probe reads, with both quality encodings
-> Cutadapt/Generated/QualWiring.lean.

For `-q`, `-q 5',3'`, `--nextseq-trim` (and `-Q` on R2 of a pair) the real `cutadapt.cli.main` is run on probe reads whose qualities are given as
phred values, once encoded with base 33 and once with base 64 (`--quality-base 64`). Emitted, as observed: the interval of the read that is
kept. C13 proves that the interval is the same for both encodings ("the quality base only shifts the scale") and equal to what the model's
`qualityTrimIndex` / `nextseqTrimIndex` compute on the phred values."""
import importlib
import io
import logging
import os
import shutil
import sys

OUTPUT = "QualWiring.lean"

# (sequence, phred values); the sequences have pairwise distinct 4-mers so that the kept interval can be read off the output
PROBES = [
    ("ACGTTGCAAGGCTCAT", [2, 3, 20, 30, 30, 30, 30, 30, 30, 20, 5, 25, 3, 4, 2, 2]),
    ("TTGACCATGGCAGTCA", [30, 30, 30, 30, 9, 30, 30, 11, 30, 30, 12, 8, 30, 7, 9, 10]),
    ("GATCCGTAAGCTTGGG", [25, 25, 25, 25, 25, 25, 25, 25, 25, 25, 25, 25, 25, 30, 30, 30]),
    ("CAGTGGGGACTGAGGG", [12, 12, 2, 2, 30, 30, 30, 30, 30, 30, 14, 16, 15, 2, 40, 40]),
]
# option for R1 (single-end run) / for R2 (paired run: the probe is R2, R1 is a constant good read)
OPTIONS = [
    ("q10", ["-q", "10"], 1), ("q15_20", ["-q", "15,20"], 1), ("q0_12", ["-q", "0,12"], 1), ("q26", ["-q", "26"], 1),
    ("nextseq15", ["--nextseq-trim", "15"], 1), ("nextseq28", ["--nextseq-trim", "28"], 1),
    ("Q10", ["-Q", "10"], 2), ("Q20_5", ["-Q", "20,5"], 2), ("q15_as_R2", ["-q", "15"], 2), ("nextseq15_R2", ["--nextseq-trim", "15"], 2),
]


def _run(cli, argv):
    old = sys.stdout, sys.stderr
    sys.stdout, sys.stderr = io.StringIO(), io.StringIO()
    handlers = logging.root.handlers[:]
    lg = logging.getLogger("cutadapt")
    lg_handlers = lg.handlers[:]
    try:
        cli.main(argv)
    finally:
        sys.stdout, sys.stderr = old
        for h in logging.root.handlers[:]:
            if h not in handlers:
                logging.root.removeHandler(h)
        for h in lg.handlers[:]:
            if h not in lg_handlers:
                lg.removeHandler(h)


def _kept(cli, d, opts, side, base):
    with open(os.path.join(d, "p.fastq"), "w") as f:
        for i, (s, q) in enumerate(PROBES):
            f.write(f"@p{i}\n{s}\n+\n{''.join(chr(base + v) for v in q)}\n")
    with open(os.path.join(d, "g.fastq"), "w") as f:
        for i, (s, q) in enumerate(PROBES):
            f.write(f"@p{i}\nACGTACGTAC\n+\n{chr(base + 40) * 10}\n")
    out = os.path.join(d, "out.fastq")
    argv = ["--quiet", "--quality-base", str(base)] + opts
    if side == 1:
        argv += ["-o", out, os.path.join(d, "p.fastq")]
    else:
        argv += ["-o", os.path.join(d, "o1.fastq"), "-p", out, os.path.join(d, "g.fastq"), os.path.join(d, "p.fastq")]
    res = []
    try:
        _run(cli, argv)
        lines = open(out).read().split("\n")
        seqs = {lines[i][1:].split()[0]: lines[i + 1] for i in range(0, len(lines) - 1, 4)}
        for i, (s, q) in enumerate(PROBES):
            o = seqs[f"p{i}"]
            start = s.find(o) if o else 0
            if start < 0:
                res.append((99, 99))
            elif not o:
                res.append((0, 0))          # nothing kept (an empty read; position irrelevant)
            else:
                res.append((start, start + len(o)))
    except (Exception, SystemExit):
        res = [(99, 99)] * len(PROBES)       # the run failed: recorded, so that the theorem names the row
    return res


def generate(build_dir):
    cli = importlib.import_module("cutadapt.cli")
    d = os.path.join(build_dir, "_qualwiring")
    shutil.rmtree(d, ignore_errors=True)
    os.makedirs(d)
    rows = []
    try:
        for name, opts, side in OPTIONS:
            k33 = _kept(cli, d, opts, side, 33)
            k64 = _kept(cli, d, opts, side, 64)
            for i, (s, q) in enumerate(PROBES):
                rows.append((name, i, k33[i], k64[i]))
    finally:
        shutil.rmtree(d, ignore_errors=True)
    ints = lambda xs: "[" + ", ".join(str(x) for x in xs) + "]"
    out = ["/-! GENERATED from /repo's working tree by gen/gen_qualwiring.py — do not edit.",
           "    Probe reads (sequence bytes, phred values) and, per quality-trimming option, the interval [start, stop) of the probe that the real",
           "    command-line program keeps when the qualities are encoded with base 33 and with base 64 (`--quality-base 64`);",
           "    an empty result is (0, 0); 99 = the run failed or the output is not a part of the probe. -/",
           "namespace Cutadapt.Generated", "",
           "def qualProbes : List (List UInt8 × List Nat) := [" + ", ".join(f"({ints([ord(c) for c in s])}, {ints(q)})" for s, q in PROBES) + "]", "",
           "/-- (option, probe number, kept with base 33, kept with base 64) -/",
           "def qualKept : List (String × Nat × (Nat × Nat) × (Nat × Nat)) := [",
           ",\n".join(f'  ("{n}", {i}, ({a[0]}, {a[1]}), ({b[0]}, {b[1]}))' for n, i, a, b in rows), "]", "", "end Cutadapt.Generated", ""]
    return "QualWiring.lean", "\n".join(out)
