"""Translator: keys of report.FILTERS (in order) and the descriptive identifiers of every predicate class and of the demultiplexer steps
-> Cutadapt/Generated/Filters.lean."""
import importlib
import inspect


OUTPUT = "Filters.lean"      # the generated file (harness/core.py: a failure of this translator concerns the properties that import it)

def generate(build_dir):
    report = importlib.import_module("cutadapt.report")
    predicates = importlib.import_module("cutadapt.predicates")
    steps = importlib.import_module("cutadapt.steps")
    keys = list(report.FILTERS.keys())
    idents = []
    for name, cls in inspect.getmembers(predicates, inspect.isclass):
        if issubclass(cls, predicates.Predicate) and cls is not predicates.Predicate:
            idents.append((name, cls.descriptive_identifier()))
    step_idents = []
    for name in ("Demultiplexer", "PairedDemultiplexer", "CombinatorialDemultiplexer"):
        cls = getattr(steps, name)
        if hasattr(cls, "descriptive_identifier"):
            step_idents.append((name, cls.descriptive_identifier(None)))
    def lst(xs):
        return "[" + ", ".join('"%s"' % x for x in xs) + "]"
    out = ["/-! GENERATED from report.py / predicates.py / steps.py by gen/gen_filters.py — do not edit. -/",
           "namespace Cutadapt.Generated", "",
           "/-- keys of `report.FILTERS` (the categories that the text, minimal and JSON reports print) -/",
           f"def filtersKeys : List String := {lst(keys)}", "",
           "/-- `descriptive_identifier()` of every predicate class -/",
           "def predicateIdents : List (String × String) := [" + ", ".join('("%s", "%s")' % p for p in sorted(idents)) + "]", "",
           "/-- `descriptive_identifier()` of the demultiplexer steps that count discarded reads -/",
           "def stepIdents : List (String × String) := [" + ", ".join('("%s", "%s")' % p for p in step_idents) + "]", "",
           "end Cutadapt.Generated", ""]
    return "Filters.lean", "\n".join(out)
