"""Translator: order of the read modifiers and of the pipeline steps as the real `cli.make_pipeline_from_args` assembles
them -> Cutadapt/Generated/StageOrder.lean.

Synthetic command lines that enable EVERY read-modifying option (single-end / single-end with --rename / paired-end /
paired-end with --rename) resp. every filtering/writing step are parsed with the real argument parser and handed to the
real `adapters_from_args` + `make_pipeline_from_args`; the class names of `pipeline._modifiers` (for
`PairedEndModifierWrapper`: of `_modifier1`/`_modifier2`) and of `pipeline._steps` (for filters: `descriptive_identifier()`)
are emitted as Lean lists. C10 proves that these lists are the documented order and what the assembly model produces."""
import importlib
import os
import shutil

SINGLE = ["-u", "1", "-u", "-1", "--nextseq-trim", "10", "-q", "10,10", "-a", "A=ACGT", "--poly-a", "-l", "10", "--trim-n",
          "--length-tag", "length=", "--strip-suffix", "x", "-x", "P", "--zero-cap"]
SINGLE_RENAME = [t for t in SINGLE if t not in ("-x", "P")] + ["--rename", "{id} x"]
PAIRED_EXTRA = ["-U", "2", "-U", "-2", "-Q", "5,5", "-A", "B=TTTT", "-L", "8"]
STEPS = ["--info-file", "@info", "--rest-file", "@rest", "--wildcard-file", "@wild", "-m", "1", "-M", "100", "--max-n", "1",
         "--max-ee", "1", "--max-aer", "0.5", "--discard-casava", "--discard-untrimmed", "-a", "A=ACGT"]
STEPS_PAIRED_EXTRA = ["-A", "B=TTTT"]


def _cls(x):
    return "None" if x is None else type(x).__name__


def _modifier_names(pipeline, paired):
    out = []
    for m in pipeline._modifiers:
        if paired:
            if type(m).__name__ == "PairedEndModifierWrapper":
                out.append((_cls(m._modifier1), _cls(m._modifier2)))
            else:
                out.append((type(m).__name__, type(m).__name__))
        else:
            out.append(type(m).__name__)
    return out


def _step_name(s):
    inner = s
    if type(s).__name__ == "PairedSingleEndStep":
        inner = s._step
    if hasattr(inner, "descriptive_identifier") and "Filter" in type(inner).__name__:
        return inner.descriptive_identifier()
    return type(inner).__name__


def _assemble(cli, files, workdir, argv, paired, tag):
    d = os.path.join(workdir, tag)
    os.makedirs(d, exist_ok=True)
    argv = [os.path.join(d, t[1:] + ".txt") if t.startswith("@") else t for t in argv]
    if paired:
        argv = argv + ["-o", os.path.join(d, "out.1.fastq"), "-p", os.path.join(d, "out.2.fastq"), "in.1.fastq", "in.2.fastq"]
    else:
        argv = argv + ["-o", os.path.join(d, "out.fastq"), "in.fastq"]
    args = cli.get_argument_parser().parse_args(argv)
    assert cli.determine_paired(args) == paired, "paired-end mode not detected as expected"
    cli.check_arguments(args, paired)
    adapters, adapters2 = cli.adapters_from_args(args)
    outfiles = files.OutputFiles(proxied=False, qualities=True, file_opener=files.FileOpener(threads=0), interleaved=False)
    try:
        pipeline = cli.make_pipeline_from_args(args, files.FileFormat.FASTQ, outfiles, paired, adapters, adapters2)
        return _modifier_names(pipeline, paired), [_step_name(s) for s in pipeline._steps]
    finally:
        outfiles.close()


CUT_MENU = [[-3, 5], [5, -3], [4], [-2], [0, 4], [-2, 0], [0], [7, -1], [-1, 7]]
PROBE = "ABCDEFGHIJKLMNOPQRSTUVWXYZ"


def _cut_values(cli, files, workdir, cuts, paired, tag):
    """the signed lengths of the unconditional cuts in the order in which the assembled pipeline applies them, observed from what each
    cutter removes from a probe read (paired: the R1 cutters for `-u`, the R2 cutters for `-U`)"""
    import dnaio
    info = importlib.import_module("cutadapt.info")
    d = os.path.join(workdir, tag)
    os.makedirs(d, exist_ok=True)
    argv = [t for c in cuts for t in ("-u", str(c))]
    if paired:
        argv += [t for c in cuts for t in ("-U", str(c))]
        argv += ["-o", os.path.join(d, "out.1.fastq"), "-p", os.path.join(d, "out.2.fastq"), "in.1.fastq", "in.2.fastq"]
    else:
        argv += ["-o", os.path.join(d, "out.fastq"), "in.fastq"]
    args = cli.get_argument_parser().parse_args(argv)
    cli.check_arguments(args, paired)
    adapters, adapters2 = cli.adapters_from_args(args)
    outfiles = files.OutputFiles(proxied=False, qualities=True, file_opener=files.FileOpener(threads=0), interleaved=False)
    try:
        pipeline = cli.make_pipeline_from_args(args, files.FileFormat.FASTQ, outfiles, paired, adapters, adapters2)
        mods = []
        for m in pipeline._modifiers:
            if paired:
                assert type(m).__name__ == "PairedEndModifierWrapper", type(m).__name__
                mods.append((m._modifier1, m._modifier2))
            else:
                mods.append((m, None))
        seen = ([], [])
        for pair in mods:
            for side in (0, 1):
                m = pair[side]
                if m is None:
                    continue
                assert type(m).__name__ == "UnconditionalCutter", type(m).__name__
                rec = dnaio.SequenceRecord("probe", PROBE, "I" * len(PROBE))
                out = m(rec, info.ModificationInfo(rec)).sequence
                assert out and out in PROBE and out != PROBE, out
                seen[side].append(PROBE.index(out) if PROBE.index(out) > 0 else len(out) - len(PROBE))
        return seen
    finally:
        outfiles.close()


def _lean_ints(xs):
    return "[" + ", ".join(str(x) if x >= 0 else f"({x})" for x in xs) + "]"


def _lean_str(s):
    assert all(32 <= ord(c) < 127 and c not in '"\\' for c in s), s
    return '"' + s + '"'


def _lean_list(xs):
    return "[" + ", ".join(_lean_str(x) for x in xs) + "]"


def _lean_pairs(xs):
    return "[" + ", ".join("(" + _lean_str(a) + ", " + _lean_str(b) + ")" for a, b in xs) + "]"


def generate(build_dir):
    cli = importlib.import_module("cutadapt.cli")
    files = importlib.import_module("cutadapt.files")
    workdir = os.path.join(build_dir, "_stageorder")
    os.makedirs(workdir, exist_ok=True)
    try:
        single, _ = _assemble(cli, files, workdir, SINGLE, False, "s")
        single_rename, _ = _assemble(cli, files, workdir, SINGLE_RENAME, False, "sr")
        paired, _ = _assemble(cli, files, workdir, SINGLE + PAIRED_EXTRA, True, "p")
        paired_rename, _ = _assemble(cli, files, workdir, SINGLE_RENAME + PAIRED_EXTRA, True, "pr")
        _, steps_single = _assemble(cli, files, workdir, STEPS, False, "ss")
        _, steps_paired = _assemble(cli, files, workdir, STEPS + STEPS_PAIRED_EXTRA, True, "sp")
        cut_rows = []
        for k, cuts in enumerate(CUT_MENU):
            s1, _ = _cut_values(cli, files, workdir, cuts, False, f"c{k}")
            p1, p2 = _cut_values(cli, files, workdir, cuts, True, f"cp{k}")
            cut_rows.append((cuts, s1, p1, p2))
    finally:
        shutil.rmtree(workdir, ignore_errors=True)
    out = ["/-! GENERATED from /repo's working tree by gen/gen_stageorder.py — do not edit.",
           "    Class names of `pipeline._modifiers` / `pipeline._steps` as assembled by the real `make_pipeline_from_args` for",
           "    command lines enabling every read-modifying option resp. every filtering step. -/",
           "namespace Cutadapt.Generated", "",
           "/-- `" + " ".join(SINGLE) + "` -/",
           f"def stageOrderSingle : List String := {_lean_list(single)}", "",
           "/-- the same with `--rename '{id} x'` instead of `-x P` -/",
           f"def stageOrderSingleRename : List String := {_lean_list(single_rename)}", "",
           "/-- paired-end: additionally `" + " ".join(PAIRED_EXTRA) + " -p …`; (class of the R1 modifier, class of the R2 modifier) -/",
           f"def stageOrderPaired : List (String × String) := {_lean_pairs(paired)}", "",
           f"def stageOrderPairedRename : List (String × String) := {_lean_pairs(paired_rename)}", "",
           "/-- `" + " ".join(t.replace("@", "") for t in STEPS) + "` -/",
           f"def stepOrderSingle : List String := {_lean_list(steps_single)}", "",
           f"def stepOrderPaired : List String := {_lean_list(steps_paired)}", "",
           "/-- unconditional cuts: (`-u` values as given (paired: also given as `-U`), cuts applied single-end, paired-end to R1, to R2), each",
           "    observed from what the assembled modifiers remove from a probe read, in pipeline order -/",
           "def cutOrder : List (List Int × List Int × List Int × List Int) := [" +
           ", ".join(f"({_lean_ints(c)}, {_lean_ints(a)}, {_lean_ints(b)}, {_lean_ints(d)})" for c, a, b, d in cut_rows) + "]", "",
           "end Cutadapt.Generated", ""]
    return "StageOrder.lean", "\n".join(out)
