"""Translator: order of the read modifiers and of the pipeline steps as the real `cli.make_pipeline_from_args` assembles
them -> Cutadapt/Generated/StageOrder.lean.

Synthetic command lines that enable EVERY read-modifying option (single-end / single-end with --rename / paired-end /
paired-end with --rename) resp. every filtering/writing step are parsed with the real argument parser and handed to the
real `adapters_from_args` + `make_pipeline_from_args`; the class names of `pipeline._modifiers` (for
`PairedEndModifierWrapper`: of `_modifier1`/`_modifier2`) and of `pipeline._steps` (for filters: `descriptive_identifier()`)
are emitted as Lean lists. C10 proves that these lists are the documented order and what the assembly model produces."""
import importlib
import os
import shutil

SINGLE = ["-u", "1", "-u", "-1", "--nextseq-trim", "10", "-q", "10,10", "-a", "A=ACGT", "--poly-a", "-l", "10", "--trim-n",
          "--length-tag", "length=", "--strip-suffix", "x", "-x", "P", "--zero-cap"]
SINGLE_RENAME = [t for t in SINGLE if t not in ("-x", "P")] + ["--rename", "{id} x"]
PAIRED_EXTRA = ["-U", "2", "-U", "-2", "-Q", "5,5", "-A", "B=TTTT", "-L", "8"]
STEPS = ["--info-file", "@info", "--rest-file", "@rest", "--wildcard-file", "@wild", "-m", "1", "-M", "100", "--max-n", "1",
         "--max-ee", "1", "--max-aer", "0.5", "--discard-casava", "--discard-untrimmed", "-a", "A=ACGT"]
STEPS_PAIRED_EXTRA = ["-A", "B=TTTT"]


OUTPUT = "StageOrder.lean"      # the generated file (harness/core.py: a failure of this translator concerns the properties that import it)

def _cls(x):
    return "None" if x is None else type(x).__name__


def _modifier_names(pipeline, paired):
    out = []
    for m in pipeline._modifiers:
        if paired:
            if type(m).__name__ == "PairedEndModifierWrapper":
                out.append((_cls(m._modifier1), _cls(m._modifier2)))
            else:
                out.append((type(m).__name__, type(m).__name__))
        else:
            out.append(type(m).__name__)
    return out


def _step_name(s):
    inner = s
    if type(s).__name__ == "PairedSingleEndStep":
        inner = s._step
    if hasattr(inner, "descriptive_identifier") and "Filter" in type(inner).__name__:
        return inner.descriptive_identifier()
    return type(inner).__name__


def _assemble(cli, files, workdir, argv, paired, tag):
    d = os.path.join(workdir, tag)
    os.makedirs(d, exist_ok=True)
    argv = [os.path.join(d, t[1:] + ".txt") if t.startswith("@") else t for t in argv]
    if paired:
        argv = argv + ["-o", os.path.join(d, "out.1.fastq"), "-p", os.path.join(d, "out.2.fastq"), "in.1.fastq", "in.2.fastq"]
    else:
        argv = argv + ["-o", os.path.join(d, "out.fastq"), "in.fastq"]
    args = cli.get_argument_parser().parse_args(argv)
    assert cli.determine_paired(args) == paired, "paired-end mode not detected as expected"
    cli.check_arguments(args, paired)
    adapters, adapters2 = cli.adapters_from_args(args)
    outfiles = files.OutputFiles(proxied=False, qualities=True, file_opener=files.FileOpener(threads=0), interleaved=False)
    try:
        pipeline = cli.make_pipeline_from_args(args, files.FileFormat.FASTQ, outfiles, paired, adapters, adapters2)
        return _modifier_names(pipeline, paired), [_step_name(s) for s in pipeline._steps]
    finally:
        outfiles.close()


CUT_MENU = [[-3, 5], [5, -3], [4], [-2], [0, 4], [-2, 0], [0], [7, -1], [-1, 7], [2, -2], [-6, 6]]
PROBES = ["ABCDEF", "ABCDEFGHIJKL", "AB", "ABCDEFGH"]


def _cut_probes(cli, workdir, cuts, paired, tag):
    """what the real command-line program removes with the given `-u` (paired: `-U`, looking at R2) values from probe reads: observed through
    the output record and the `{cut_prefix}` / `{cut_suffix}` placeholders of `--rename` — (probe, prefix removed, suffix removed, rest)"""
    import io
    import logging
    import sys
    d = os.path.join(workdir, tag)
    os.makedirs(d, exist_ok=True)
    fa = "".join(f">p{i}\n{s}\n" for i, s in enumerate(PROBES))
    for fn in ("in1.fasta", "in2.fasta"):
        with open(os.path.join(d, fn), "w") as f:
            f.write(fa)
    if paired:
        argv = [t for c in cuts for t in ("-U", str(c))] + ["--rename", "{id} {r2.cut_prefix}|{r2.cut_suffix}", "-o", os.path.join(d, "o1.fasta"),
                "-p", os.path.join(d, "o2.fasta"), os.path.join(d, "in1.fasta"), os.path.join(d, "in2.fasta")]
    else:
        argv = [t for c in cuts for t in ("-u", str(c))] + ["--rename", "{id} {cut_prefix}|{cut_suffix}", "-o", os.path.join(d, "o2.fasta"),
                os.path.join(d, "in2.fasta")]
    old = sys.stdout, sys.stderr
    sys.stdout, sys.stderr = io.StringIO(), io.StringIO()
    handlers = logging.root.handlers[:]
    lg = logging.getLogger("cutadapt")
    lg_handlers = lg.handlers[:]
    try:
        cli.main(["--quiet"] + argv)
    finally:
        sys.stdout, sys.stderr = old
        for h in logging.root.handlers[:]:
            if h not in handlers:
                logging.root.removeHandler(h)
        for h in lg.handlers[:]:
            if h not in lg_handlers:
                lg.removeHandler(h)
    lines = open(os.path.join(d, "o2.fasta")).read().split("\n")
    rows, i = [], 0
    recs = {}
    while i < len(lines):
        if lines[i].startswith(">"):
            seq = ""
            j = i + 1
            while j < len(lines) and not lines[j].startswith(">"):
                seq += lines[j]
                j += 1
            recs[lines[i][1:].split(" ")[0]] = (lines[i][1:].partition(" ")[2], seq)
            i = j
        else:
            i += 1
    for k, probe in enumerate(PROBES):
        info, rest = recs[f"p{k}"]
        pre, _, suf = info.partition("|")
        rows.append((probe, pre, suf, rest))
    return rows


def _lean_bytes(s):
    return "[" + ", ".join(str(ord(c)) for c in s) + "]"


def _lean_ints(xs):
    return "[" + ", ".join(str(x) if x >= 0 else f"({x})" for x in xs) + "]"


def _lean_str(s):
    assert all(32 <= ord(c) < 127 and c not in '"\\' for c in s), s
    return '"' + s + '"'


def _lean_list(xs):
    return "[" + ", ".join(_lean_str(x) for x in xs) + "]"


def _lean_pairs(xs):
    return "[" + ", ".join("(" + _lean_str(a) + ", " + _lean_str(b) + ")" for a, b in xs) + "]"


def generate(build_dir):
    cli = importlib.import_module("cutadapt.cli")
    files = importlib.import_module("cutadapt.files")
    workdir = os.path.join(build_dir, "_stageorder")
    os.makedirs(workdir, exist_ok=True)
    try:
        single, _ = _assemble(cli, files, workdir, SINGLE, False, "s")
        single_rename, _ = _assemble(cli, files, workdir, SINGLE_RENAME, False, "sr")
        paired, _ = _assemble(cli, files, workdir, SINGLE + PAIRED_EXTRA, True, "p")
        paired_rename, _ = _assemble(cli, files, workdir, SINGLE_RENAME + PAIRED_EXTRA, True, "pr")
        _, steps_single = _assemble(cli, files, workdir, STEPS, False, "ss")
        _, steps_paired = _assemble(cli, files, workdir, STEPS + STEPS_PAIRED_EXTRA, True, "sp")
        cut_rows, cut_rows2 = [], []
        for k, cuts in enumerate(CUT_MENU):
            cut_rows += [(cuts,) + r for r in _cut_probes(cli, workdir, cuts, False, f"c{k}")]
            cut_rows2 += [(cuts,) + r for r in _cut_probes(cli, workdir, cuts, True, f"cp{k}")]
    finally:
        shutil.rmtree(workdir, ignore_errors=True)
    out = ["/-! GENERATED from /repo's working tree by gen/gen_stageorder.py — do not edit.",
           "    Class names of `pipeline._modifiers` / `pipeline._steps` as assembled by the real `make_pipeline_from_args` for",
           "    command lines enabling every read-modifying option resp. every filtering step. -/",
           "namespace Cutadapt.Generated", "",
           "/-- `" + " ".join(SINGLE) + "` -/",
           f"def stageOrderSingle : List String := {_lean_list(single)}", "",
           "/-- the same with `--rename '{id} x'` instead of `-x P` -/",
           f"def stageOrderSingleRename : List String := {_lean_list(single_rename)}", "",
           "/-- paired-end: additionally `" + " ".join(PAIRED_EXTRA) + " -p …`; (class of the R1 modifier, class of the R2 modifier) -/",
           f"def stageOrderPaired : List (String × String) := {_lean_pairs(paired)}", "",
           f"def stageOrderPairedRename : List (String × String) := {_lean_pairs(paired_rename)}", "",
           "/-- `" + " ".join(t.replace("@", "") for t in STEPS) + "` -/",
           f"def stepOrderSingle : List String := {_lean_list(steps_single)}", "",
           f"def stepOrderPaired : List String := {_lean_list(steps_paired)}", "",
           "/-- unconditional cuts observed on the real command-line program: (`-u` values as given, probe read, `{cut_prefix}`, `{cut_suffix}`,",
           "    sequence of the output record), bytes -/",
           "def cutProbes : List (List Int × List UInt8 × List UInt8 × List UInt8 × List UInt8) := [" +
           ", ".join(f"({_lean_ints(c)}, {_lean_bytes(p)}, {_lean_bytes(a_)}, {_lean_bytes(b_)}, {_lean_bytes(r)})" for c, p, a_, b_, r in cut_rows) + "]", "",
           "/-- the same for `-U` values, looking at R2 of a paired-end run (`{r2.cut_prefix}`, `{r2.cut_suffix}`) -/",
           "def cutProbesR2 : List (List Int × List UInt8 × List UInt8 × List UInt8 × List UInt8) := [" +
           ", ".join(f"({_lean_ints(c)}, {_lean_bytes(p)}, {_lean_bytes(a_)}, {_lean_bytes(b_)}, {_lean_bytes(r)})" for c, p, a_, b_, r in cut_rows2) + "]", "",
           "end Cutadapt.Generated", ""]
    return "StageOrder.lean", "\n".join(out)
