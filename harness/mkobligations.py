"""Regenerate lean/obligations.json = every theorem declared in lean/Cutadapt/Properties/Cxx.lean.
Run by hand after editing a property file; the committed list is what the checks demand."""
import json, os, sys
sys.path.insert(0, os.path.dirname(__file__))
import core
out = {}
d = os.path.join(core.LEAN, "Cutadapt", "Properties")
for fn in sorted(os.listdir(d)):
    if fn.endswith(".lean"):
        out[fn[:-5]] = core.theorems_in(os.path.join(d, fn))
json.dump(out, open(os.path.join(core.LEAN, "obligations.json"), "w"), indent=1)
print({k: len(v) for k, v in out.items()})
