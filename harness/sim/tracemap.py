"""Map the event log of a simulated multi-core run (fakemp.run_sim) to the action tokens of the Lean model
`Cutadapt/Runner.lean` (driver op `runnertrace`) and compute, from the *real* execution, the line the model must print.

Linearisation points (one model action each; every other event belongs to the action before it):
  worker w  queue.put(id)                                   -> q<w>   workerRequest
  reader    first send(index >= 0) of a chunk on in<w>      -> s      readerSend
  reader    send(-1) on in<w>                               -> p      readerPill
  reader    first send(-2) on any in<w>                     -> f      readerFault
  worker w  recv() of an int header on in<w>                -> w<w>   workerStep (receive)
  worker w  send(index >= 0) header on out<w>               -> w<w>   workerStep (processing ended normally)
  worker w  send(-2) on out<w> while processing chunk i     -> w<w>   workerStep (processing raised; faultSpec c<i>)
  main      recv() of an int header on out<w>               -> m<w>   mainRecv
  main      join(reader) completed (run() returns)          -> e      mainFinish
The list is cut after the main process's m<w> that received -2 (it terminates all children at that point).
The handshake on the `fmt` connection is outside the model."""
import io
import os
import shutil
import tempfile

import clirun

COMPRESSED = (".gz", ".bz2", ".xz", ".zst")


def count_chunks(inputs, names, buffer_size):
    """Independent of the run: what dnaio's chunker makes of the input file(s) with this buffer size.
    Returns (number of chunks yielded, the iteration raised?, the exception text)."""
    import dnaio
    from xopen import xopen
    d = tempfile.mkdtemp(prefix="cv-chunks-", dir="/var/tmp")
    files = []
    n = 0
    try:
        for nm in names:
            content = inputs[nm]
            p = os.path.join(d, nm)
            with open(p, "wb" if isinstance(content, bytes) else "w") as f:
                f.write(content)
        try:
            for nm in names:
                files.append(xopen(os.path.join(d, nm), "rb", threads=0))
            it = dnaio.read_chunks(files[0], buffer_size) if len(files) == 1 else dnaio.read_paired_chunks(files[0], files[1], buffer_size)
            for _ in it:
                n += 1
        except Exception as e:
            return n, True, f"{type(e).__name__}: {e}"
        return n, False, None
    finally:
        for f in files:
            try:
                f.close()
            except Exception:
                pass
        shutil.rmtree(d, ignore_errors=True)


class Mapped:
    def __init__(self):
        self.tokens = []
        self.faults = []            # chunk indices whose processing raised in a worker (observed)
        self.reader_fault = False   # the reader went through its except-branch (observed)
        self.handshake_fault = False
        self.cut = False            # main received a -2 from a worker
        self.finished = False       # run() returned normally
        self.sent = {}              # worker -> chunk indices whose result header it sent
        self.payload = {}           # chunk index -> [bytes per output file position]
        self.main_chunks = []       # chunk indices whose result header main received, in order
        self.main_done = []         # workers whose -1 main received
        self.reader_sent = 0        # chunks the reader sent
        self.problems = []          # events that do not fit the protocol grammar

    def stats(self):
        return sum(2 ** i for w in self.main_done for i in self.sent.get(w, []))

    def k_events(self):
        """length of the longest prefix 0..k-1 of chunk indices main received (disambiguates k when chunks are empty)"""
        got = set(self.main_chunks)
        k = 0
        while k in got:
            k += 1
        return k

    def workers_active(self):
        return sum(1 for w, c in self.sent.items() if c)


def map_events(events):
    m = Mapped()
    expect_n_w = {}      # worker: the next int it sends on out<w> is n_reads
    processing = {}      # worker -> chunk index being processed (header received, no result header sent)
    cur_chunk = {}       # worker -> chunk whose payload is being sent
    expect_n_m = {}      # main, per worker connection: next recv is n_reads
    f_seen = False
    for ev in events:
        proc, prim, conn, v = ev
        if m.cut:
            break
        isint = isinstance(v, int) and not isinstance(v, bool)
        if proc.startswith("worker"):
            w = int(proc[6:].split("#")[0])
            if prim == "put" and conn == "queue":
                m.tokens.append(f"q{w}")
            elif prim == "recv" and conn == f"in{w}" and isint:
                m.tokens.append(f"w{w}")
                processing[w] = v if v >= 0 else None
            elif prim == "send" and conn == f"out{w}":
                if expect_n_w.get(w):
                    expect_n_w[w] = False
                elif isint and v >= 0:
                    m.tokens.append(f"w{w}")
                    if processing.get(w) != v:
                        m.problems.append(f"worker{w} sends result {v} while processing {processing.get(w)}")
                    processing[w] = None
                    expect_n_w[w] = True
                    m.sent.setdefault(w, []).append(v)
                    cur_chunk[w] = v
                    m.payload[v] = []
                elif isint and v == -2:
                    if processing.get(w) is not None:
                        m.tokens.append(f"w{w}")
                        m.faults.append(processing[w])
                        processing[w] = None
            elif prim == "send_bytes" and conn == f"out{w}":
                m.payload[cur_chunk[w]].append(v)
        elif proc == "reader":
            if prim == "send" and conn and conn.startswith("in") and isint:
                if v >= 0:
                    m.tokens.append("s")
                    m.reader_sent += 1
                elif v == -1:
                    m.tokens.append("p")
                elif v == -2 and not f_seen:
                    f_seen = True
                    m.reader_fault = True
                    m.tokens.append("f")
        elif proc == "main":
            if prim == "recv" and conn == "fmt" and isint and v == -2:
                m.handshake_fault = True
            elif prim == "recv" and conn and conn.startswith("out"):
                w = int(conn[3:])
                if expect_n_m.get(w):
                    expect_n_m[w] = False
                elif isint:
                    m.tokens.append(f"m{w}")
                    if v >= 0:
                        expect_n_m[w] = True
                        m.main_chunks.append(v)
                    elif v == -1:
                        m.main_done.append(w)
                    elif v == -2:
                        m.cut = True
            elif prim == "join" and v == "reader":
                m.finished = True
                m.tokens.append("e")
    return m


def plain(name, data):
    if name.endswith(COMPRESSED) and data:
        return clirun.text_of(data).encode("latin-1")
    return data


def prefix_counts(m, files, opened):
    """For every proxied output file (position j in `opened`): the set of k such that the file's final content equals the
    concatenation of the payloads of chunks 0..k-1 at position j. Returns (dict name -> set of k, kmax)."""
    kmax = 0
    while kmax in m.payload:
        kmax += 1
    out = {}
    for j, name in enumerate(opened):
        if name not in files:
            out[name] = set()
            continue
        content = plain(name, files[name])
        ks = set()
        acc = b""
        for k in range(kmax + 1):
            if acc == content:
                ks.add(k)
            if k < kmax:
                pl = m.payload[k]
                acc += pl[j] if j < len(pl) else b""
                if len(acc) > len(content):
                    break
        out[name] = ks
    return out, kmax


def pick_k(m, cands):
    """one k for all files: the main process's own count if the files allow it, else the largest common candidate;
    None if there is no common k (some file is not a chunk prefix)"""
    if not cands:
        return m.k_events()
    common = set.intersection(*cands.values())
    if not common:
        return None
    ke = m.k_events()
    return ke if ke in common else max(common)


def idx(k):
    return ".".join(str(i) for i in range(k)) if k else "-"


def driver_line(n_workers, n_chunks, reader_fault, m):
    spec = [f"c{i}" for i in sorted(set(m.faults))] + (["r"] if reader_fault else [])
    return f"runnertrace {n_workers} {n_chunks} {','.join(spec) or '-'} " + " ".join(m.tokens)


def impl_line(k, ok, m):
    return f"ok terminal written={idx(k)}/{idx(k)} outcome={'ok' if ok else 'failed'} stats={m.stats()}"


class Evaluated:
    pass


def evaluate(r, n_workers, n_chunks, reader_fault):
    """Everything the checks need from one simulated run `r` (fakemp.SimResult):
    .m (Mapped), .handshake, .line (driver input), .impl (what the model must print), .k, .cands, .not_prefix (file names
    whose content is not a concatenation of the first k per-chunk payloads)."""
    ev = Evaluated()
    ev.m = m = map_events(r.events)
    ev.handshake = m.handshake_fault
    ev.cands, ev.kmax = prefix_counts(m, r.files, r.opened)
    ev.not_prefix = []
    k = pick_k(m, ev.cands)
    if k is None:
        first = next(iter(ev.cands.values()))
        k = max(first) if first else m.k_events()
        ev.not_prefix = [n for n, ks in ev.cands.items() if k not in ks]
    ev.k = k
    ev.line = driver_line(n_workers, n_chunks, reader_fault, m)
    ev.impl = impl_line(k, r.status == 0 and r.exc is None, m)
    return ev
