import sys, random, io, os
sys.path.insert(0, "/root/scratch/sim")
import fakemp
seed=int(sys.argv[1]); rng=random.Random(seed)
sched=fakemp.install(lambda names: rng.choice(names))
class NoFd(io.StringIO):
    def fileno(self): raise io.UnsupportedOperation()
sys.stdin=NoFd()
from cutadapt.cli import main
import tempfile, pathlib, logging
d=pathlib.Path(tempfile.mkdtemp(prefix="simrun"))
r2=random.Random(5); recs=[]
for i in range(12):
    s="".join(r2.choice("ACGT") for _ in range(30)); recs.append(f"@r{i}\n{s}\n+\n{'I'*len(s)}\n")
data="".join(recs)
cut=int(sys.argv[4]); corrupt=sys.argv[5] if len(sys.argv)>5 else ""
if corrupt=="qual":
    recs[cut]=recs[cut].replace("IIIII\n","IIII\n"); data="".join(recs)   # quality shorter than sequence
else:
    data=data[:cut]
open(d/"in.fastq","w").write(data)
cores=int(sys.argv[2]); buf=int(sys.argv[3])
try:
    main(["-j",str(cores),"--buffer-size",str(buf),"-a","AAAGGGCCC","-o",str(d/"out.fastq"),str(d/"in.fastq")])
    status="ok"
except SystemExit as e: status=f"exit{e.code}"
except fakemp.Deadlock as e: status=f"DEADLOCK {e}"
out=open(d/"out.fastq").read()
print(status, "out records", out.count("\n")//4, "complete", out.count("\n")%4==0)
