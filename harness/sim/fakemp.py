"""Deterministic cooperative 'multiprocessing' for running cutadapt.runners in one OS process.
Each fake process is a thread; exactly one thread runs at a time; every blocking primitive is a scheduling point."""
import threading, pickle, io, random, sys, collections

class Deadlock(Exception): pass
class Killed(BaseException): pass

class Scheduler:
    def __init__(self, chooser):
        self.chooser = chooser            # function(list of runnable task names) -> name
        self.tasks = {}                   # name -> Task
        self.current = None
        self.trace = []
        self.lock = threading.Lock()
    def log(self, *ev): self.trace.append(ev)

class Task:
    def __init__(self, sched, name, fn):
        self.sched=sched; self.name=name; self.fn=fn
        self.go=threading.Event(); self.done=False; self.blocked_on=None  # predicate or None
        self.killed=False; self.exc=None
        self.thread=threading.Thread(target=self._run, daemon=True)
    def _run(self):
        self.go.wait(); self.go.clear()
        try:
            if not self.killed: self.fn()
        except Killed: pass
        except BaseException as e: self.exc=e
        self.done=True
        SCHED._yield_from(self, finished=True)

SCHED=None
MAIN=None

class Sched(Scheduler):
    def runnable(self):
        return [t for t in self.tasks.values() if not t.done and (t.blocked_on is None or t.blocked_on())]
    def _switch(self, me):
        # pick next task; called by `me` (which is about to wait)
        r=self.runnable()
        if not r:
            alive=[t.name for t in self.tasks.values() if not t.done]
            self.deadlock=alive
            # wake main with deadlock error
            m=self.tasks["main"]; m.deadlocked=True; nxt=m
        else:
            name=self.chooser(sorted(t.name for t in r)); nxt=self.tasks[name]
        self.log("run", nxt.name)
        if nxt is me: return
        nxt.go.set()
        me.go.wait(); me.go.clear()
        if me.killed: raise Killed()
        if getattr(me,"deadlocked",False): me.deadlocked=False; raise Deadlock(self.deadlock)
    def block(self, pred):
        me=self.cur()
        me.blocked_on=pred
        self._switch(me)
        me.blocked_on=None
    def yield_(self):
        self.block(None)
    def _yield_from(self, me, finished):
        r=self.runnable()
        if not r:
            m=self.tasks["main"]
            if not m.done: m.deadlocked=True; self.deadlock=[t.name for t in self.tasks.values() if not t.done]; m.go.set()
            return
        name=self.chooser(sorted(t.name for t in r)); self.log("run",name); self.tasks[name].go.set()
    def cur(self):
        th=threading.current_thread()
        for t in self.tasks.values():
            if t.thread is th: return t
        return self.tasks["main"]

_REG={}
class Conn:
    """one end of a simplex pipe"""
    def __init__(self, q, cid): self.q=q; self.cid=cid
    def send(self, obj): SCHED.log("send", self.cid, repr(obj)[:40]); self.q.append(("obj", pickle.dumps(obj))); SCHED.yield_()
    def send_bytes(self, b): SCHED.log("send_bytes", self.cid, len(b)); self.q.append(("bytes", bytes(b))); SCHED.yield_()
    def _get(self):
        if not self.q: SCHED.block(lambda: bool(self.q))
        return self.q.popleft()
    def recv(self):
        k,v=self._get(); assert k=="obj"; o=pickle.loads(v); SCHED.log("recv", self.cid, repr(o)[:40]); return o
    def recv_bytes(self):
        k,v=self._get(); assert k=="bytes"; SCHED.log("recv_bytes", self.cid, len(v)); return v
    def ready(self): return bool(self.q)
    def __reduce__(self): return (_lookup, (self.cid,))
def _lookup(cid): return _REG[cid]

class Queue:
    def __init__(self):
        self.q=collections.deque(); self.cid="Q%d"%len(_REG); _REG[self.cid]=self
    def put(self, x): SCHED.log("put", x); self.q.append(x); SCHED.yield_()
    def get(self):
        if not self.q: SCHED.block(lambda: bool(self.q))
        x=self.q.popleft(); SCHED.log("get", x); return x
    def __reduce__(self): return (_lookup,(self.cid,))

class Process:
    _count=0
    def __init__(self): self.daemon=False; self._task=None
    def start(self):
        Process._count+=1
        clone=pickle.loads(pickle.dumps(self))      # spawn semantics: own copy of pipeline / proxy files
        name=f"{type(self).__name__}{Process._count}"
        t=Task(SCHED, name, clone.run); SCHED.tasks[name]=t; self._task=t; t.thread.start()
        SCHED.log("start", name)
    def join(self):
        t=self._task
        if not t.done: SCHED.block(lambda: t.done)
    def terminate(self):
        t=self._task
        if not t.done: t.killed=True; t.done=True; t.go.set(); SCHED.log("terminate", t.name)
    def __getstate__(self):
        d=self.__dict__.copy(); d["_task"]=None; return d

class Context:
    Process=Process
    def Pipe(self, duplex=False):
        q=collections.deque(); cid="P%d"%len(_REG); c=Conn(q,cid); _REG[cid]=c
        return c, c
    def Queue(self): return Queue()

def wait(conns):
    r=[c for c in conns if c.ready()]
    if not r:
        SCHED.block(lambda: any(c.ready() for c in conns)); r=[c for c in conns if c.ready()]
    r=SCHED.order(r) if hasattr(SCHED,"order") else r
    SCHED.log("wait", [c.cid for c in r]); return r

def active_children():
    class P:
        def __init__(s,t): s.t=t
        def terminate(s):
            if not s.t.done: s.t.killed=True; s.t.done=True; s.t.go.set()
    return [P(t) for n,t in SCHED.tasks.items() if n!="main" and not t.done]

def install(chooser):
    global SCHED
    import multiprocessing, multiprocessing.connection
    _REG.clear(); Process._count=0
    SCHED=Sched(chooser)
    main=Task(SCHED,"main",None); main.thread=threading.current_thread(); SCHED.tasks["main"]=main
    multiprocessing.get_context=lambda *a,**k: Context()
    multiprocessing.connection.wait=wait
    multiprocessing.active_children=active_children
    return SCHED
