"""Deterministic cooperative fake `multiprocessing` for running the *unmodified* `cutadapt.runners` inside one OS process.

Every fake process is a thread, exactly one of them runs at a time.  Every primitive that is visible to another process
(`Connection.send/send_bytes/recv/recv_bytes`, `Queue.put/get`, `connection.wait`, `Process.start/join`, the first
instruction of a started process) is a *scheduling point*: the process announces the operation it is about to perform
together with its enabledness condition (a `recv` is enabled when the pipe is non-empty, a `join` when the target has
exited, ...), then the scheduler asks the `chooser` which of the processes whose announced operation is enabled performs
its operation next; that process performs it atomically and runs on until its next scheduling point.  Deadlock is exact:
no process has an enabled operation while the main process has not finished => `Deadlock` is raised in the main process.
`connection.wait` returns an ordered non-empty subset of the ready connections picked by the chooser.
`Process.start()` pickles and unpickles the process object (spawn semantics: a worker gets its own pipeline and buffers);
connections and queues unpickle to the same shared object.  `terminate()` / `active_children()` kill fake processes.

All non-determinism goes through one `Chooser` (`choose(n, kind, labels) -> index`), so a run is reproduced by its list of
choices (`ScriptChooser`), random schedules use `RandomChooser`, and `dfs()` walks the tree of choices systematically.

Import-time binding: `cutadapt.runners` evaluates `multiprocessing.get_context()` and `mpctx.Process` at import.  A second
copy of that file is loaded under the module name `cutadapt_simrunners` while `get_context` returns the fake context; the
regular `cutadapt.runners` (real processes) stays untouched.  `run_sim` temporarily points `cutadapt.cli.make_runner` to
the copy, patches `multiprocessing.connection.wait` / `multiprocessing.active_children` (looked up at call time), replaces
`sys.stdin` by an object without file descriptor and restores everything afterwards.

Granularity (`fine` parameter):
  True    every primitive is a scheduling point and every scheduling point with >= 2 enabled processes is a choice;
  False   (coarse) operations that never block (send, send_bytes, put, start) are performed without giving up control;
  "por"   partial-order reduction for systematic exploration: an enabled operation that commutes with everything the other
          processes can do before it is performed at once, without a choice: the first instruction of a process, `join`,
          `recv`/`recv_bytes`/`get` (single consumer; producers only append), and `send`/`send_bytes` unless the pipe is
          empty and read by the main process (which uses `wait`: the send races with it).  Choices remain between
          `Queue.put`s, sends that make a connection of the main process ready while it is not blocked receiving from
          that connection, and `wait` (which returns all ready connections or any single one),
          i.e. one representative per class of equivalent interleavings (plus some redundancy: no sleep sets).
          Assumption checked at run time (`por_violations`): only the main process calls `wait`.
"""
import collections
import importlib.util
import io
import itertools
import os
import pickle
import random
import sys
import threading
import time

_HERE = os.path.dirname(os.path.abspath(__file__))
if os.path.dirname(_HERE) not in sys.path:
    sys.path.insert(0, os.path.dirname(_HERE))

SIM_MODULE = "cutadapt_simrunners"


class Deadlock(BaseException):
    """no fake process can move and the main process has not finished (BaseException: nothing in cutadapt may swallow it)"""


class StepLimit(BaseException):
    """more scheduling steps than any terminating run needs: livelock"""


class Pruned(BaseException):
    """systematic exploration: the rest of this schedule is equivalent to one explored before (sleep set); run abandoned"""


class Killed(BaseException):
    """raised inside a fake process that was terminated"""


class ProtocolError(Exception):
    """the code under test used a primitive in a way real multiprocessing would not allow / would garble"""


Event = collections.namedtuple("Event", "proc prim conn value")

_CUR = None  # the Sim of the run in progress


def _sim():
    if _CUR is None:
        raise RuntimeError("fake multiprocessing primitive used outside run_sim")
    return _CUR


# ------------------------------------------------------------------------------------------------
# choosers

class Chooser:
    """`choose(n, kind, labels)` -> index < n, n >= 2.  `log` = [(choice, n, kind)] of the run."""

    def __init__(self):
        self.log = []

    def choose(self, n, kind, labels):
        c = self.pick(n, kind, labels)
        if not 0 <= c < n:
            raise ValueError(f"choice {c} out of range {n}")
        self.log.append((c, n, kind))
        return c

    def pick(self, n, kind, labels):
        raise NotImplementedError

    def choices(self):
        return [c for c, _, _ in self.log]


class RandomChooser(Chooser):
    def __init__(self, seed):
        super().__init__()
        self.rng = seed if isinstance(seed, random.Random) else random.Random(seed)

    def pick(self, n, kind, labels):
        return self.rng.randrange(n)


class ScriptChooser(Chooser):
    """forced prefix of choices, then `tail`: "first" (index 0) or a seed / Random for random continuation"""

    def __init__(self, prefix, tail="first"):
        super().__init__()
        self.prefix = list(prefix)
        self.rng = None if tail == "first" else (tail if isinstance(tail, random.Random) else random.Random(tail))
        self.mismatch = False

    def pick(self, n, kind, labels):
        i = len(self.log)
        if i < len(self.prefix):
            c = self.prefix[i]
            if c >= n:  # the tree changed under us (non-deterministic code under test)
                self.mismatch = True
                return n - 1
            return c
        return self.rng.randrange(n) if self.rng else 0


def dfs(run_one, budget_s=60.0, max_runs=None):
    """Systematic depth-first walk over the tree of choices (stateless model checking): `run_one(chooser)` performs a
    complete run; the next run forces the longest prefix of the previous run's choices that still has an untried
    alternative, takes that alternative and continues with first alternatives.
    Yields (chooser, result of run_one).  `dfs.exhausted` is set on the generator's `state` dict.
    Returns when the tree is exhausted, the time budget is used up or max_runs is reached."""
    state = dfs.state = dict(runs=0, exhausted=False, mismatch=0)
    t0 = time.time()
    prefix = []
    while True:
        ch = ScriptChooser(prefix)
        res = run_one(ch)
        state["runs"] += 1
        if ch.mismatch:
            state["mismatch"] += 1
        yield ch, res
        log = ch.log
        i = len(log) - 1
        while i >= 0 and log[i][0] + 1 >= log[i][1]:
            i -= 1
        if i < 0:
            state["exhausted"] = True
            return
        prefix = [c for c, _, _ in log[:i]] + [log[i][0] + 1]
        if time.time() - t0 > budget_s or (max_runs and state["runs"] >= max_runs):
            return


def ordered_subsets(n):
    """all ordered non-empty subsets of range(n): full set in natural order first (what real `wait` typically returns)"""
    out = []
    for k in range(n, 0, -1):
        out.extend(itertools.permutations(range(n), k))
    return out


# ------------------------------------------------------------------------------------------------
# scheduler

def dependent(z, x):
    """may executing operation x change the effect or the enabledness of the (pending, not yet executed) operation z?
    Only operations that can be a *choice* are ever pending in a sleep set: put, send to the main process, wait."""
    (zk, zo), (xk, xo) = z, x
    if zk == "put":
        return xk in ("put", "get") and xo is zo
    if zk == "send":
        return (xk in ("send", "recv") and xo is zo) or (xk == "wait" and zo in xo)
    if zk == "wait":
        return xk == "wait" or (xk in ("send", "recv") and xo in zo)
    return True


class Task:
    def __init__(self, sim, name, fn):
        self.sim = sim
        self.name = name
        self.fn = fn
        self.wake = threading.Lock()   # binary semaphore: acquired = nothing pending
        self.wake.acquire()
        self.done = False
        self.killed = False
        self.deadlocked = False
        self.pred = None          # enabledness of the announced operation (None = always enabled)
        self.op = ("begin", None)  # (kind, object) of the announced operation, for the dependence relation
        self.eager = True         # "por": the announced operation commutes with everything others can do (bool or callable)
        self.what = "begin"
        self.exc = None
        self.thread = None

    def enabled(self):
        return not self.done and (self.pred is None or self.pred())

    def _run(self):
        self.wake.acquire()
        try:
            if not self.killed:
                self.sim.log("begin", None, None)
                self.fn()
        except Killed:
            return
        except BaseException as e:  # a real process would die with a traceback
            self.exc = e
            self.sim.task_errors.append((self.name, f"{type(e).__name__}: {e}"))
        if self.killed:
            return
        self.done = True
        self.sim.log("exit", None, None)
        self.sim._dispatch(None)


class Sim:
    def __init__(self, chooser, fine=True, max_steps=200000):
        self.chooser = chooser
        self.fine = fine
        self.mode = "fine" if fine is True else "coarse" if fine is False else str(fine)
        self.por_violations = []
        self.sleep = set()        # "por": sleep set (tasks)
        self.pruned = False
        self.max_steps = max_steps
        self.tasks = []
        self.by_thread = {}
        self.events = []
        self.objects = []         # pipes' connection ends and queues, by registry index (for unpickling)
        self.task_errors = []
        self.protocol_errors = []
        self.deadlock = None
        self.steps = 0
        self.opened = []          # output paths opened by FileOpener.xopen(…, "wb") in order (= OutputFiles.binary_files())
        main = Task(self, "main", None)
        main.thread = threading.current_thread()
        self.main = main
        self.tasks.append(main)
        self.by_thread[main.thread] = main

    # -- bookkeeping
    def cur(self):
        return self.by_thread.get(threading.current_thread())

    def log(self, prim, conn, value):
        t = self.cur()
        self.events.append((t.name if t else "?", prim, conn, value))

    def register(self, obj):
        self.objects.append(obj)
        return len(self.objects) - 1

    # -- scheduling
    def sync(self, pred=None, what="op", force=False, eager=False, op=("other", None)):
        """Scheduling point of the current task: returns when this task has been chosen to perform the announced operation."""
        me = self.cur()
        if me is None:
            raise RuntimeError("fake multiprocessing primitive used from a foreign thread")
        if me.killed:
            raise Killed()
        if self.mode == "coarse" and pred is None and not force:
            return
        me.pred = pred
        me.what = what
        me.eager = eager
        me.op = op
        self._dispatch(me)
        me.pred = None

    def _dispatch(self, me):
        self.steps += 1
        en = [t for t in self.tasks if t.enabled()]
        if self.steps > self.max_steps:
            en = []
            self.deadlock = ["step limit"]
        if not en:
            if self.deadlock is None:
                self.deadlock = [f"{t.name}:{t.what}" for t in self.tasks if not t.done]
            nxt = self.main
            nxt.deadlocked = True
        elif self.mode in ("por", "por-nosleep"):
            nxt = self._por_next(en, me)
        elif len(en) == 1:
            nxt = en[0]
        else:
            nxt = en[self.chooser.choose(len(en), "sched", [f"{t.name}:{t.what}" for t in en])]
        if nxt is not me:
            nxt.wake.release()
            if me is None:
                return
            me.wake.acquire()
        if me.killed:
            raise Killed()
        if me.deadlocked:
            me.deadlocked = False
            if self.pruned:
                raise Pruned()
            raise (StepLimit if self.deadlock == ["step limit"] else Deadlock)(self.deadlock)

    def _por_next(self, en, me):
        """persistent singletons (eager operations) + sleep sets (Godefroid): `sleep` holds processes whose announced
        operation was already explored from an equivalent state; they stay asleep until a dependent operation runs"""
        awake = [t for t in en if t not in self.sleep]
        if not awake:
            self.pruned = True      # every continuation from here is a re-ordering of an explored one
            self.main.deadlocked = True
            return self.main
        nxt = self._eager(awake, me)
        if nxt is None:
            if len(awake) == 1:
                nxt = awake[0]
            else:
                c = self.chooser.choose(len(awake), "sched", [f"{t.name}:{t.what}" for t in awake])
                nxt = awake[c]
                if self.mode == "por":
                    self.sleep.update(awake[:c])
        if self.sleep:
            self.sleep = {z for z in self.sleep if not z.done and not dependent(z.op, nxt.op)}
        return nxt

    @staticmethod
    def _eager(en, me):
        for t in ([me] if me in en else []) + en:
            if t.eager is True or (t.eager is not False and t.eager()):
                return t
        return None

    def spawn(self, name, fn):
        t = Task(self, name, fn)
        t.thread = threading.Thread(target=t._run, name="fakemp-" + name, daemon=True)
        self.tasks.append(t)
        self.by_thread[t.thread] = t
        t.thread.start()
        return t

    def kill(self, t):
        """terminate a sleeping fake process: it unwinds (finally / with blocks run) while the caller waits"""
        if t.done or t is self.main:
            return
        t.killed = True
        t.done = True
        try:
            t.wake.release()
        except RuntimeError:
            pass
        if t.thread is not threading.current_thread():
            t.thread.join(10)

    def shutdown(self):
        """kill every leftover fake process and join all threads"""
        for t in self.tasks[1:]:
            self.kill(t)
        leaked = []
        for t in self.tasks[1:]:
            t.thread.join(10)
            if t.thread.is_alive():
                leaked.append(t.name)
        return leaked


# ------------------------------------------------------------------------------------------------
# the fake primitives

def _lookup(ix):
    return _sim().objects[ix]


def _describe(obj):
    if isinstance(obj, bool) or not isinstance(obj, int):
        if isinstance(obj, tuple) and len(obj) == 2 and isinstance(obj[0], BaseException):
            return f"<exc {type(obj[0]).__name__}: {str(obj[0])[:120]}>"
        return f"<{type(obj).__name__}>"
    return obj


class _Pipe:
    def __init__(self, sim):
        self.buf = collections.deque()
        self.child_reader = False   # the read end was handed to a child process (children only recv, never wait)
        self.recv_blocked = 0       # a process is blocked in recv/recv_bytes on this pipe
        self.label = f"pipe{sum(1 for o in sim.objects if isinstance(o, Conn)) // 2}"


class Conn:
    """one end of a simplex pipe (`multiprocessing.connection.Connection`)"""

    def __init__(self, pipe, readable, writable, sim):
        self._pipe = pipe
        self.readable = readable
        self.writable = writable
        self._ix = sim.register(self)

    def __reduce__(self):
        return (_lookup, (self._ix,))

    @property
    def label(self):
        return self._pipe.label

    def send(self, obj):
        sim = _sim()
        if not self.writable:
            raise OSError("connection is read-only")
        data = pickle.dumps(obj)   # like the real thing: pickled by the sender, at send time
        sim.sync(None, f"send {self.label}", eager=self._send_commutes, op=("send", self._pipe))
        self._pipe.buf.append(("obj", data))
        sim.log("send", self._pipe, _describe(obj))

    def send_bytes(self, buf, offset=0, size=None):
        sim = _sim()
        if not self.writable:
            raise OSError("connection is read-only")
        b = bytes(memoryview(buf))[offset:(None if size is None else offset + size)]
        sim.sync(None, f"send_bytes {self.label}", eager=self._send_commutes, op=("send", self._pipe))
        self._pipe.buf.append(("bytes", b))
        sim.log("send_bytes", self._pipe, b)

    def _send_commutes(self):
        # non-empty: readiness does not change; reader is a child: no `wait`; reader blocked in recv on this very pipe:
        # it cannot reach a `wait` before this send
        return bool(self._pipe.buf) or self._pipe.child_reader or self._pipe.recv_blocked > 0

    def _take(self, kind, prim):
        sim = _sim()
        if not self.readable:
            raise OSError("connection is write-only")
        self._pipe.recv_blocked += 1
        try:
            sim.sync(lambda: bool(self._pipe.buf), f"{prim} {self.label}", force=True, eager=True, op=("recv", self._pipe))
        finally:
            self._pipe.recv_blocked -= 1
        k, v = self._pipe.buf.popleft()
        if k != kind:
            sim.protocol_errors.append(f"{prim} on {self.label} but the next message was sent with {'send' if k == 'obj' else 'send_bytes'}")
            if kind == "obj":
                raise ProtocolError(sim.protocol_errors[-1])
        return v

    def recv(self):
        obj = pickle.loads(self._take("obj", "recv"))
        _sim().log("recv", self._pipe, _describe(obj))
        return obj

    def recv_bytes(self, maxlength=None):
        v = self._take("bytes", "recv_bytes")
        _sim().log("recv_bytes", self._pipe, v)
        return v

    def poll(self, timeout=0.0):
        return bool(self._pipe.buf)

    def ready(self):
        return bool(self._pipe.buf)

    def close(self):
        pass

    def fileno(self):
        raise io.UnsupportedOperation("fake connection")


class Queue:
    """`multiprocessing.Queue`: FIFO, unbounded; `put` is the linearisation point"""

    def __init__(self, sim):
        self.q = collections.deque()
        self.label = "queue"
        self._ix = sim.register(self)

    def __reduce__(self):
        return (_lookup, (self._ix,))

    def put(self, x, block=True, timeout=None):
        sim = _sim()
        data = pickle.dumps(x)
        sim.sync(None, "put", op=("put", self))
        self.q.append(data)
        sim.log("put", self, _describe(x))

    def get(self, block=True, timeout=None):
        sim = _sim()
        sim.sync(lambda: bool(self.q), "get", force=True, eager=True, op=("get", self))
        x = pickle.loads(self.q.popleft())
        sim.log("get", self, _describe(x))
        return x

    def empty(self):
        return not self.q

    def close(self):
        pass

    def join_thread(self):
        pass

    def cancel_join_thread(self):
        pass


class Process:
    """`multiprocessing.Process` with spawn semantics; subclassed by ReaderProcess / WorkerProcess of the loaded copy"""

    def __init__(self, group=None, target=None, name=None, args=(), kwargs=None, daemon=None):
        self._target, self._args, self._kwargs = target, tuple(args), dict(kwargs or {})
        self.daemon = bool(daemon)
        self._task = None
        self.name = name or type(self).__name__

    def run(self):
        if self._target:
            self._target(*self._args, **self._kwargs)

    def __getstate__(self):
        d = self.__dict__.copy()
        d["_task"] = None
        return d

    def start(self):
        sim = _sim()
        if self._task is not None:
            raise AssertionError("cannot start a process twice")
        clone = pickle.loads(pickle.dumps(self))
        d = clone.__dict__
        if "_id" in d and "_read_pipe" in d:          # WorkerProcess
            name = f"worker{d['_id']}"
            _label(d.get("_read_pipe"), f"in{d['_id']}")
            _label(d.get("_write_pipe"), f"out{d['_id']}")
        elif "_file_format_connection" in d:           # ReaderProcess
            name = "reader"
            _label(d["_file_format_connection"], "fmt")
            for i, c in enumerate(d.get("connections", ())):
                _label(c, f"in{i}")
        else:
            name = f"proc{len(sim.tasks)}"
        for v in d.values():
            for c in (v if isinstance(v, (list, tuple)) else [v]):
                if isinstance(c, Conn) and c.readable:
                    c._pipe.child_reader = True
        if any(t.name == name for t in sim.tasks):
            name += f"#{len(sim.tasks)}"
        self._task = sim.spawn(name, clone.run)
        sim.log("start", None, name)
        sim.sync(None, "started", eager=True)

    def join(self, timeout=None):
        sim = _sim()
        t = self._task
        if t is None:
            raise AssertionError("can only join a started process")
        sim.sync(lambda: t.done, f"join {t.name}", force=True, eager=True)
        sim.log("join", None, t.name)

    def terminate(self):
        sim = _sim()
        if self._task is not None and not self._task.done:
            sim.log("terminate", None, self._task.name)
            sim.kill(self._task)

    kill = terminate

    def is_alive(self):
        return self._task is not None and not self._task.done

    @property
    def exitcode(self):
        t = self._task
        if t is None or not t.done:
            return None
        return -15 if t.killed else (1 if t.exc else 0)

    @property
    def pid(self):
        return None if self._task is None else 100000 + _sim().tasks.index(self._task)


def _label(conn, label):
    if isinstance(conn, Conn):
        conn._pipe.label = label


class Context:
    """what `multiprocessing.get_context()` returns while the copy of runners.py is loaded"""
    Process = Process

    def Pipe(self, duplex=True):
        if duplex:
            raise NotImplementedError("duplex pipes are not used by cutadapt.runners")
        sim = _sim()
        p = _Pipe(sim)
        return Conn(p, True, False, sim), Conn(p, False, True, sim)

    def Queue(self, maxsize=0):
        return Queue(_sim())

    def get_start_method(self, allow_none=False):
        return "spawn"


def wait(object_list, timeout=None):
    """`multiprocessing.connection.wait`: any non-empty subset of the ready connections, in any order"""
    sim = _sim()
    conns = list(object_list)
    if sim.cur() is not sim.main or any(c._pipe.child_reader for c in conns):
        sim.por_violations.append(f"wait called by {sim.cur().name} on {[c.label for c in conns]}")
    sim.sync(lambda: any(c.ready() for c in conns), "wait", force=True, op=("wait", frozenset(c._pipe for c in conns)))
    ready = [c for c in conns if c.ready()]
    if len(ready) > 1:
        # "por": the full list or one connection (what a longer list does is a sequence of these)
        subsets = ordered_subsets(len(ready)) if not sim.mode.startswith("por") else [tuple(range(len(ready)))] + [(i,) for i in range(len(ready))]
        pick = subsets[sim.chooser.choose(len(subsets), "wait", [c.label for c in ready])]
        ready = [ready[i] for i in pick]
    sim.log("wait", None, tuple(c.label for c in ready))
    return ready


class _Child:
    def __init__(self, task):
        self._task = task
        self.name = task.name

    def terminate(self):
        sim = _sim()
        if not self._task.done:
            sim.log("terminate", None, self._task.name)
            sim.kill(self._task)

    kill = terminate

    def is_alive(self):
        return not self._task.done

    def join(self, timeout=None):
        pass


def active_children():
    sim = _sim()
    return [_Child(t) for t in sim.tasks[1:] if not t.done]


# ------------------------------------------------------------------------------------------------
# loading the copy of runners.py and running the CLI under the simulation

_simrunners_for = {}


def load_simrunners():
    """second copy of the *current* `cutadapt.runners` source bound to the fake context (re-loaded when `cutadapt` was
    re-activated from another directory)"""
    import multiprocessing
    import cutadapt.runners as real
    path = real.__file__
    mod = _simrunners_for.get(path)
    if mod is not None and sys.modules.get(SIM_MODULE) is mod:
        return mod
    old = multiprocessing.get_context
    multiprocessing.get_context = lambda *a, **k: Context()
    try:
        spec = importlib.util.spec_from_file_location(SIM_MODULE, path)
        mod = importlib.util.module_from_spec(spec)
        sys.modules[SIM_MODULE] = mod
        spec.loader.exec_module(mod)
    finally:
        multiprocessing.get_context = old
    assert isinstance(mod.mpctx, Context) and mod.mpctx_Process is Process
    _simrunners_for.clear()
    _simrunners_for[path] = mod
    return mod


class _NoFdStdin(io.StringIO):
    def fileno(self):
        raise io.UnsupportedOperation("no file descriptor")


class SimResult:
    """status / exc / stderr / stdout / files / stats / json as clirun.CliResult, plus
    events: list of Event(proc, prim, conn, value) — proc: main | reader | worker<id>; conn: in<w> (reader -> worker w),
            out<w> (worker w -> main), fmt (file-format handshake), queue; value: the int header, the payload bytes of
            send_bytes/recv_bytes, or a short description of another object;
    deadlock: None or the list `process:operation` every live process was blocked in;
    choices: the schedule [(choice, n, kind)]; opened: basenames of the proxied output files in `binary_files()` order."""

    def __init__(self):
        self.status = 0
        self.exc = None
        self.stderr = self.stdout = ""
        self.files = {}
        self.stats = None
        self.json = None
        self.events = []
        self.deadlock = None
        self.choices = []
        self.opened = []
        self.task_errors = []
        self.protocol_errors = []
        self.leaked_threads = []
        self.por_violations = []
        self.pruned = False
        self.steps = 0


def run_sim(argv, inputs, cores, chooser, fine=True, want_json=False, max_steps=200000):
    """Run `cutadapt.cli.main(["-j", cores] + argv)` (placeholders as in clirun.run_cli) with the multi-core runner on fake
    processes scheduled by `chooser`."""
    global _CUR
    import multiprocessing
    import multiprocessing.connection
    import clirun
    import cutadapt.cli as cli
    import cutadapt.files as cfiles
    if cores < 2:
        raise ValueError("cores >= 2: one core uses the serial runner")
    if _CUR is not None:
        raise RuntimeError("run_sim is not re-entrant")
    simrunners = load_simrunners()
    sim = Sim(chooser, fine=fine, max_steps=max_steps)
    saved = (cli.make_runner, multiprocessing.connection.wait, multiprocessing.active_children, sys.stdin, cfiles.FileOpener.xopen)
    orig_xopen = cfiles.FileOpener.xopen

    def xopen_logged(self, path, mode):
        if "w" in mode and threading.current_thread() is sim.main.thread:
            sim.opened.append(os.path.basename(str(path)))
        return orig_xopen(self, path, mode)

    out = SimResult()
    _CUR = sim
    cli.make_runner = simrunners.make_runner
    multiprocessing.connection.wait = wait
    multiprocessing.active_children = active_children
    sys.stdin = _NoFdStdin()
    cfiles.FileOpener.xopen = xopen_logged
    try:
        res = clirun.run_cli(argv, inputs, cores=cores, want_json=want_json)
    finally:
        try:
            out.leaked_threads = sim.shutdown()
        finally:
            (cli.make_runner, multiprocessing.connection.wait, multiprocessing.active_children, sys.stdin, cfiles.FileOpener.xopen) = saved
            _CUR = None
    for k in ("status", "exc", "stderr", "stdout", "files", "stats", "json"):
        setattr(out, k, getattr(res, k))
    out.events = [Event(p, prim, (c.label if c is not None else None), v) for p, prim, c, v in sim.events]
    out.deadlock = sim.deadlock
    out.choices = list(chooser.log)
    out.opened = sim.opened
    out.task_errors = sim.task_errors
    out.protocol_errors = sim.protocol_errors
    out.por_violations = sim.por_violations
    out.pruned = sim.pruned
    out.steps = sim.steps
    return out


# ------------------------------------------------------------------------------------------------
# self-test:  python fakemp.py [build-dir]

def _selftest():
    import hashlib
    here = os.path.dirname(_HERE)
    sys.path.insert(0, here)
    import build as buildmod
    d = sys.argv[1] if len(sys.argv) > 1 else f"/var/tmp/cutadapt-verif-fakemp-{os.getpid()}"
    if not os.path.exists(os.path.join(d, "cutadapt")):
        buildmod.build(d)
    buildmod.activate(d)
    import clirun
    rng = random.Random(5)
    recs = []
    for i in range(12):
        s = "".join(rng.choice("ACGT") for _ in range(30))
        if i % 3 == 0:
            s = s[:12] + "AAAGGGCCC" + s[12:]
        recs.append((f"r{i}", s, "I" * len(s)))
    inputs = {"in.fastq": clirun.fastq(recs)}
    argv = ["--buffer-size", "200", "-a", "a0=AAAGGGCCC", "-o", "{dir}/out.fastq", "--info-file", "{dir}/info.txt", "{dir}/in.fastq"]
    base = clirun.run_cli(argv, inputs, cores=1, want_json=False)
    t0 = time.time()
    seen = set()
    for seed in range(200):
        r = run_sim(argv, inputs, 2 + seed % 3, RandomChooser(seed))
        assert r.status == 0 and r.deadlock is None, (seed, r.status, r.exc, r.deadlock, r.stderr[-300:])
        assert r.files == base.files, seed
        seen.add(hashlib.sha1(repr(r.events).encode()).hexdigest())
    print(f"200 random schedules: outputs equal the single-core run; {len(seen)} distinct event logs; {time.time() - t0:.1f}s; "
          f"threads alive: {threading.active_count()}")
    n = 0
    for ch, r in dfs(lambda ch: run_sim(argv, inputs, 2, ch, fine="por"), budget_s=5):
        if r.pruned:
            continue
        assert r.files == base.files and r.status == 0 and not r.por_violations
        n += 1
    print(f"dfs (partial-order reduction, 5 s): {n} schedules, exhausted={dfs.state['exhausted']}")
    bad = {"in.fastq": inputs["in.fastq"][:-20]}
    r = run_sim(argv, bad, 2, RandomChooser(1))
    print("truncated input: status", r.status, "deadlock", r.deadlock, "| stderr:", r.stderr.strip().splitlines()[-1][:100])


if __name__ == "__main__":
    _selftest()
