import sys, random, io, os, json, hashlib
sys.path.insert(0, "/root/scratch/sim")
import fakemp
seed=int(sys.argv[1]); rng=random.Random(seed)
sched=fakemp.install(lambda names: rng.choice(names))
class NoFd(io.StringIO):
    def fileno(self): raise io.UnsupportedOperation()
sys.stdin=NoFd()
import cutadapt.runners as R
from cutadapt.cli import main
import tempfile, pathlib
d=pathlib.Path(tempfile.mkdtemp(prefix="simrun"))
# input: 12 reads
r2=random.Random(5)
with open(d/"in.fastq","w") as f:
    for i in range(12):
        s="".join(r2.choice("ACGT") for _ in range(30))
        if i%3==0: s=s[:12]+"AAAGGGCCC"+s[12:]
        f.write(f"@r{i}\n{s}\n+\n{'I'*len(s)}\n")
cores=int(sys.argv[2]); buf=int(sys.argv[3])
try:
    main(["-j",str(cores),"--buffer-size",str(buf),"-a","AAAGGGCCC","-o",str(d/"out.fastq"),"--info-file",str(d/"info.tsv"),"--json",str(d/"r.json"),str(d/"in.fastq")])
    status="ok"
except SystemExit as e: status=f"exit{e.code}"
except fakemp.Deadlock as e: status=f"DEADLOCK {e}"
h=hashlib.sha1(open(d/"out.fastq","rb").read()+open(d/"info.tsv","rb").read()).hexdigest()[:10]
recv=[ev for ev in sched.trace if ev[0]=="wait"]
chunks=sorted(set(ev[2] for ev in sched.trace if ev[0]=="send" and ev[2].isdigit()))
print("chunks",chunks)
print(status, h, "trace events", len(sched.trace), "tasks", list(sched.tasks))
