#!/bin/bash
# run all 20 quick checks against another tree (e.g. a scratch worktree with a harmless refactoring) in a private copy of /verif,
# so that several trees can be evaluated in parallel:   harness/alltree.sh <tree> <label> [props…]
tree=$1; label=$2; shift 2
props=${@:-C01 C02 C03 C04 C05 C06 C07 C08 C09 C10 C11 C12 C13 C14 C15 C16 C17 C18 C19 C20}
copy=/var/tmp/vcopy-$label
rm -rf $copy; mkdir -p $copy
rsync -a --exclude replays --exclude .git /verif/ $copy/
cd $copy
for p in $props; do
  VERIF_REPO=$tree ./check $p quick > out.$p 2>&1
  rc=$?
  echo "$label $p rc=$rc $(grep -h '^VIOLATION' out.$p | head -1 | cut -c1-160)"
done
