"""Run the real `cutadapt.cli.main` in-process on inline inputs; collect every output file, the JSON report and the
exit status. The implementation imported is the scratch build of /repo's working tree (core.build_tree)."""
import io
import json
import logging
import os
import shutil
import sys
import tempfile


class CliResult:
    def __init__(self):
        self.status = 0          # exit status (0 = returned normally)
        self.exc = None          # repr of an unexpected exception (crash)
        self.files = {}          # name -> text
        self.json = None
        self.stderr = ""
        self.stdout = ""
        self.stats = None


def fastq(records):
    return "".join(f"@{n}\n{s}\n+\n{q}\n" for n, s, q in records)


def fasta(records):
    return "".join(f">{r[0]}\n{r[1]}\n" for r in records)


def parse_fastx(text):
    """Return list of (name, seq, qual|None); format detected from the first character."""
    recs = []
    lines = text.split("\n")
    if lines and lines[-1] == "":
        lines.pop()
    i = 0
    while i < len(lines):
        if lines[i].startswith("@") and i + 3 < len(lines) + 0 and (i + 2 < len(lines) and lines[i + 2].startswith("+")):
            recs.append((lines[i][1:], lines[i + 1], lines[i + 3] if i + 3 < len(lines) else ""))
            i += 4
        elif lines[i].startswith(">"):
            name = lines[i][1:]
            i += 1
            seq = []
            while i < len(lines) and not lines[i].startswith(">"):
                seq.append(lines[i])
                i += 1
            recs.append((name, "".join(seq), None))
        else:
            raise ValueError(f"cannot parse output at line {i}: {lines[i][:50]!r}")
    return recs


def run_cli(argv, inputs, outputs=(), want_json=True, workdir=None, cores=None, keep=False):
    """argv: list with placeholders `{in:NAME}` / `{out:NAME}` replaced by paths in a fresh temp dir.
    inputs: dict NAME -> text (or bytes). outputs: names to read back (also any file created in the dir)."""
    import cutadapt.cli as cli
    res = CliResult()
    d = workdir or tempfile.mkdtemp(prefix="cv-cli-", dir="/var/tmp")
    try:
        for name, content in inputs.items():
            mode = "wb" if isinstance(content, bytes) else "w"
            with open(os.path.join(d, name), mode) as f:
                f.write(content)
        real = []
        for a in argv:
            a = a.replace("{dir}", d)
            for tag in ("{in:", "{out:"):
                while tag in a:
                    s = a.index(tag)
                    e = a.index("}", s)
                    a = a[:s] + os.path.join(d, a[s + len(tag):e]) + a[e + 1:]
            real.append(a)
        if want_json:
            real = ["--json", os.path.join(d, "__report.json")] + real
        if cores is not None:
            real = ["-j", str(cores)] + real
        old_out, old_err = sys.stdout, sys.stderr
        sys.stdout, sys.stderr = io.StringIO(), io.StringIO()
        # remove handlers so that cutadapt sets up logging afresh into our stderr/stdout
        root_handlers = logging.root.handlers[:]
        for h in root_handlers:
            logging.root.removeHandler(h)
        lg = logging.getLogger("cutadapt")
        old_handlers = lg.handlers[:]
        try:
            try:
                res.stats = cli.main(real)
            except SystemExit as e:
                res.status = e.code if isinstance(e.code, int) else (0 if e.code is None else 1)
            except BaseException as e:  # crash
                res.status = -1
                res.exc = f"{type(e).__name__}: {e}"
        finally:
            res.stdout, res.stderr = sys.stdout.getvalue(), sys.stderr.getvalue()
            sys.stdout, sys.stderr = old_out, old_err
            for h in logging.root.handlers[:]:
                logging.root.removeHandler(h)
            for h in lg.handlers[:]:
                if h not in old_handlers:
                    lg.removeHandler(h)
            for h in root_handlers:
                logging.root.addHandler(h)
        for fn in sorted(os.listdir(d)):
            if fn in inputs:
                continue
            p = os.path.join(d, fn)
            if fn == "__report.json":
                try:
                    res.json = json.load(open(p))
                except Exception:
                    res.json = None
                continue
            if os.path.isfile(p):
                with open(p, "rb") as f:
                    data = f.read()
                res.files[fn] = data
        return res
    finally:
        if not keep and workdir is None:
            shutil.rmtree(d, ignore_errors=True)


def text_of(data):
    """Decompress by magic number, return str."""
    import bz2
    import gzip
    import lzma
    if data[:2] == b"\x1f\x8b":
        return gzip.decompress(data).decode("latin-1")
    if data[:3] == b"BZh":
        return bz2.decompress(data).decode("latin-1")
    if data[:6] == b"\xfd7zXZ\x00":
        return lzma.decompress(data).decode("latin-1")
    if data[:4] == b"\x28\xb5\x2f\xfd":
        try:
            from backports import zstd
        except ImportError:
            import compression.zstd as zstd
        return zstd.decompress(data).decode("latin-1")
    return data.decode("latin-1")
