"""Independent executable statement of C01/C02 (written from the property text and the user guide, not from the
implementation): documented character equality, weighted edit distance by brute force, placement rules, admissible
occurrences."""
from fractions import Fraction

_SETS = dict(A="A", C="C", G="G", T="T", U="T", R="AG", Y="CT", S="GC", W="AT", K="GT", M="AC", B="CGT", D="AGT",
             H="ACT", V="ACG", X="")
OTHER = "?"


def _wild_set(c):
    """nucleotide set of an IUPAC character when wildcards are enabled for that sequence"""
    c = c.upper()
    if c == "N":
        return set("ACGT" + OTHER)
    return set(_SETS.get(c, ""))     # non-IUPAC characters match nothing


def _plain_set(c):
    """a sequence whose wildcards are disabled: A/C/G/T(U) are themselves, anything else is just 'some other character'"""
    c = c.upper()
    if c in "ACGTU" and c:
        return set(_SETS[c])
    return {OTHER}


def doc_match(a, r, aw, rw):
    """Does adapter character `a` match read character `r`?  aw/rw = wildcards enabled in adapter/read."""
    if not aw and not rw:
        return a.upper() == r.upper()
    sa = _wild_set(a) if aw else _plain_set(a)
    sr = _wild_set(r) if rw else _plain_set(r)
    return bool(sa & sr)


def dist(x, y, eq, c):
    m, n = len(x), len(y)
    prev = [j * c for j in range(n + 1)]
    for i in range(1, m + 1):
        cur = [i * c] + [0] * n
        xi = x[i - 1]
        for j in range(1, n + 1):
            cur[j] = min(prev[j - 1] + (0 if eq(xi, y[j - 1]) else 1), prev[j] + c, cur[j - 1] + c)
        prev = cur
    return prev[n]


def placement_ok(ty, m, n, as_, ae, rs, re):
    full = as_ == 0 and ae == m
    return dict(
        back=as_ == 0 and (ae == m or re == n),
        front=ae == m and (as_ == 0 or rs == 0),
        rightmost=ae == m and (as_ == 0 or rs == 0),
        prefix=full and rs == 0,
        suffix=full and re == n,
        nifront=ae == m and rs == 0,
        niback=as_ == 0 and re == n,
        anywhere=(as_ == 0 or rs == 0) and (ae == m or re == n),
    )[ty]


def doc_min_overlap(cfg, seq_len):
    """the minimum overlap as documented, from the *requested* parameters (not from the adapter object, which a defect may have left
    un-normalised): the whole adapter for anchored types, otherwise the requested value but never more than the adapter is long"""
    if cfg["ty"] in ("prefix", "suffix"):
        return seq_len
    return min(cfg["min_overlap"], seq_len)


def check_match(ty, adapter, read, mt, before, min_overlap=None):
    """C01 for one reported match. `adapter` is the real adapter object (for its normalised parameters).
    Returns list of problem strings."""
    seq = adapter.sequence
    m, n = len(seq), len(read)
    aw, rw, indels = adapter.adapter_wildcards, adapter.read_wildcards, adapter.indels
    probs = []
    if not (0 <= mt.astart <= mt.astop <= m and 0 <= mt.rstart <= mt.rstop <= n):
        return ["bounds"]
    if not placement_ok(ty, m, n, mt.astart, mt.astop, mt.rstart, mt.rstop):
        probs.append("placement")
    if mt.astop - mt.astart < (adapter.min_overlap if min_overlap is None else min_overlap):
        probs.append("overlap")
    A, R = seq[mt.astart:mt.astop], read[mt.rstart:mt.rstop]
    eq = lambda a, r: doc_match(a, r, aw, rw)  # noqa
    if indels:
        d = dist(A, R, eq, 1)
    else:
        if len(A) != len(R):
            probs.append("noindel-length")
            d = None
        else:
            d = sum(1 for a, r in zip(A, R) if not eq(a, r))
    if d is not None and d != mt.errors:
        probs.append(f"errors {mt.errors} != distance {d}")
    non_n = len(A) - (A.count("N") if aw else 0)
    # "maximum error rate times the number of aligned non-N adapter bases", the product taken in IEEE double
    # arithmetic as the rate itself is a double (DESIGN.md §5: a product that rounds up across an integer, e.g.
    # 3 * 0.3333333333333333 -> 1.0, is a float artefact, not a violation)
    if mt.errors > adapter.max_error_rate * non_n:
        probs.append(f"errors {mt.errors} > rate*{non_n}")
    return probs


def placements(ty, m, n):
    for as_ in range(m + 1):
        for ae in range(as_, m + 1):
            for rs in range(n + 1):
                for re in range(rs, n + 1):
                    if placement_ok(ty, m, n, as_, ae, rs, re):
                        yield as_, ae, rs, re


def admissible_occurrence(ty, adapter, read, exact_only, min_overlap=None):
    """first admissible occurrence (as, ae, rs, re, d) or None; brute force over all placements"""
    seq = adapter.sequence
    m, n = len(seq), len(read)
    aw, rw, indels = adapter.adapter_wildcards, adapter.read_wildcards, adapter.indels
    eq = lambda a, r: doc_match(a, r, aw, rw)  # noqa
    for as_, ae, rs, re in placements(ty, m, n):
        if ae - as_ < (adapter.min_overlap if min_overlap is None else min_overlap):
            continue
        A, R = seq[as_:ae], read[rs:re]
        if not indels:
            if len(A) != len(R):
                continue
            d = sum(1 for a, r in zip(A, R) if not eq(a, r))
        else:
            if exact_only and len(A) != len(R):
                continue
            d = dist(A, R, eq, 1)
        non_n = len(A) - (A.count("N") if aw else 0)
        if exact_only:
            if d == 0:
                return as_, ae, rs, re, d
        elif Fraction(d) <= Fraction(adapter.max_error_rate) * non_n and d <= int(adapter.max_error_rate * non_n):
            # within tolerance both exactly and in double arithmetic (under-acceptance such as int(0.57*100) = 56 is a
            # float artefact outside C02)
            return as_, ae, rs, re, d
    return None
