"""Pipeline-level correspondence: a command line + inline reads -> (a) the real `cutadapt.cli.main` in-process,
(b) the Lean pipeline model (`pipeline <json>` op). Shared by C03 C04 C05 C09 C10 C11 C15 C16 C17 C20.

The real run uses `--no-index` (the index is C08's subject) and an always-true k-mer finder (the prefilter is C07's
subject); everything else is the unmodified working tree."""
import json
import os

import clirun
from core import bits

ADAPTER_SEQS = ["AAAGGGCCC", "TTTGGGAAC", "GATTACAGA", "ACGTACGTAC", "CCNNGGA", "TTAGGC"]


def rs(rng, n, alpha="ACGT"):
    return "".join(rng.choice(alpha) for _ in range(n))


def patch_prefilter():
    import cutadapt.adapters as A
    if not getattr(A.SingleAdapter, "_verif_patched", False):
        A.SingleAdapter._make_kmer_finder = lambda self, *a, **k: A.MockKmerFinder()
        A.SingleAdapter._verif_patched = True


# ------------------------------------------------------------------------------------------------
# case generation

def gen_adapter_spec(rng, name, allow_linked=True, seqs=ADAPTER_SEQS):
    """returns (flag, spec) with an explicit name"""
    seq = rng.choice(seqs)
    if rng.random() < 0.3:
        seq = seq[: rng.randint(4, len(seq))]
    params = ""
    if rng.random() < 0.3:
        params += ";e=" + rng.choice(["0", "0.1", "0.2", "0.34", "1", "2"])
    if rng.random() < 0.3:
        params += ";o=" + str(rng.randint(1, 6))
    if rng.random() < 0.2:
        params += ";noindels"
    kind = rng.random()
    if allow_linked and kind < 0.15:
        seq2 = rng.choice([s for s in seqs if s != seq] or seqs)
        flag = rng.choice(["-a", "-g"])
        f = rng.choice(["^", ""]) + seq + rng.choice(["", ";optional", ";required"] if rng.random() < 0.5 else [""])
        b = seq2 + rng.choice(["$", ""]) + rng.choice(["", ";optional", ";required"] if rng.random() < 0.5 else [""])
        return flag, f"{name}={f}...{b}"
    if kind < 0.5:
        flag = "-a"
        body = rng.choice([seq, seq, seq + "$", seq + "X"])
    elif kind < 0.85:
        flag = "-g"
        body = rng.choice([seq, seq, "^" + seq, "X" + seq])
        if body == seq and rng.random() < 0.2:
            params += ";rightmost"
    else:
        flag = "-b"
        body = seq
    return flag, f"{name}={body}{params}"


def dup_adapter_spec(rng, name, prev):
    """an adapter with the sequence and type of `prev` = (flag, spec) under another name, usually with other search parameters
    (two adapters may differ in nothing but their name or their parameters: per-adapter state must not be keyed on the sequence)"""
    flag, spec = prev
    body = spec.split("=", 1)[1]
    if "..." in body:
        return None
    core = body.split(";")[0]
    params = ";rightmost" if ";rightmost" in body else ""
    x = rng.random()
    if x < 0.7:
        params += ";e=" + rng.choice(["0", "0.1", "0.2", "0.34", "1", "2"])
    if x > 0.5:
        params += ";o=" + str(rng.randint(1, 6))
    if rng.random() < 0.2:
        params += ";noindels"
    return flag, f"{name}={core}{params}"


def embed(rng, s, adapters_plain):
    if adapters_plain and rng.random() < 0.7:
        a = rng.choice(adapters_plain)
        a = a.replace("N", rng.choice("ACGT"))
        if rng.random() < 0.3 and len(a) > 3:
            i = rng.randrange(len(a))
            a = a[:i] + rng.choice("ACGT") + a[i + 1:]
        if rng.random() < 0.15 and len(a) > 3:
            i = rng.randrange(len(a))
            a = a[:i] + a[i + 1:]
        where = rng.random()
        if where < 0.3:
            s = a + s
        elif where < 0.6:
            s = s + a[: rng.randint(3, len(a))] if rng.random() < 0.5 else s + a
        else:
            p = rng.randint(0, len(s))
            s = s[:p] + a + s[p:]
    return s


def gen_reads(rng, n, plain1, plain2, paired, with_qual=True, revcomp=False):
    comp = str.maketrans("ACGTacgtN", "TGCAtgcaN")
    r1, r2 = [], []
    for i in range(n):
        def one(plain):
            ln = rng.randint(0, 4) if rng.random() < 0.08 else rng.randint(5, 40)
            s = rs(rng, ln, "ACGTN" if rng.random() < 0.25 else "ACGT")
            s = embed(rng, s, plain)
            if rng.random() < 0.15:
                s = s + "A" * rng.randint(3, 12)
            if rng.random() < 0.1:
                s = "N" * rng.randint(1, 3) + s + "N" * rng.randint(1, 3)
            if rng.random() < 0.08:
                s = s.lower() if rng.random() < 0.5 else s[: len(s) // 2] + s[len(s) // 2:].lower()
            if revcomp and rng.random() < 0.5:
                s = s.translate(comp)[::-1]
            q = "".join(chr(33 + rng.choice([0, 2, 2, 10, 20, 30, 40, 40])) for _ in s) if with_qual else None
            return s, q
        s, q = one(plain1)
        if r1 and rng.random() < 0.12:
            _n, s, q = rng.choice(r1)        # the same bases and qualities once more, later in the file
        casava = rng.choice("YN")
        tag = f" length={rng.randint(0, 50)}" if rng.random() < 0.3 else ""
        r1.append((f"r{i} 1:{casava}:0:1{tag}", s, q))
        s, q = one(plain2 if plain2 else plain1)
        r2.append((f"r{i} 2:{rng.choice('YN')}:0:1{tag}", s, q))
    return r1, (r2 if paired else None)


def gen_case(rng, focus=()):
    """A random valid command line. `focus`: set of feature names whose probability is raised."""
    def p(feature, base):
        return rng.random() < (0.75 if feature in focus else base)
    paired = p("paired", 0.35)
    # half of the command lines leave cutadapt's default on: indexable anchored adapters are collected into an adapter index
    argv = ["--no-index"] if rng.random() < 0.5 else []
    n1 = rng.randint(0, 3) if not p("adapters", 0.0) else rng.randint(1, 3)
    n2 = rng.randint(0, 2) if paired else 0
    pair_adapters = paired and p("pair_adapters", 0.1)
    if pair_adapters:
        n1 = n2 = rng.randint(1, 4)
    plain1, plain2 = [], []
    allow_linked = not pair_adapters and "nolinked" not in focus
    anchored_mode = "--no-index" not in argv and rng.random() < 0.6 and None or None
    if "--no-index" not in argv and rng.random() < 0.6:
        anchored_mode = rng.choice(["g", "a"])      # mostly anchored adapters of one kind, so that an index is built
    for n, letter, up in ((n1, "a", False), (n2, "b", True)):
        made = []
        for i in range(n):
            d = dup_adapter_spec(rng, f"{letter}{i}", rng.choice(made)) if made and rng.random() < 0.3 else None
            fl, spec = d or gen_adapter_spec(rng, f"{letter}{i}", allow_linked)
            if anchored_mode and "..." not in spec and rng.random() < 0.85:
                nm, body = spec.split("=", 1)
                core = body.split(";")[0].strip("^$X")
                params = "".join(";" + p_ for p_ in body.split(";")[1:] if p_ != "rightmost")
                fl, spec = ("-g", f"{nm}=^{core}{params}") if anchored_mode == "g" else ("-a", f"{nm}={core}${params}")
            made.append((fl, spec))
            argv += [fl.upper() if up else fl, spec]
    if pair_adapters:
        argv.append("--pair-adapters")
    if rng.random() < 0.15:
        argv += ["-e", rng.choice(["0", "0.2", "0.3"])]
    if rng.random() < 0.15:
        argv += ["-O", str(rng.randint(1, 5))]
    if rng.random() < 0.1:
        argv.append("--no-indels")
    if rng.random() < 0.08:
        argv.append("--match-read-wildcards")
    if rng.random() < 0.08:
        argv.append("-N")
    has_ad = n1 + n2 > 0
    times = 1
    action = "trim"
    if has_ad:
        if p("action", 0.4):
            action = rng.choice(["trim", "mask", "lowercase", "retain", "crop", "none"])
            argv += ["--action", action]
        if not pair_adapters and action not in ("retain", "crop") and p("times", 0.25):
            times = rng.randint(2, 3)
            argv += ["--times", str(times)]
    revcomp = has_ad and not pair_adapters and p("revcomp", 0.15)
    if revcomp:
        argv.append("--revcomp")
    with_qual = not p("fasta", 0.12)
    ext = "fastq" if with_qual else "fasta"
    if p("cut", 0.25):
        argv += ["-u", str(rng.choice([-6, -3, -1, 1, 2, 5, 9, 0]))]
        if rng.random() < 0.3:
            argv += ["-u", str(-rng.randint(1, 4) if int(argv[-1]) > 0 else rng.randint(0, 4))]
    if paired and p("cut", 0.2):
        argv += ["-U", str(rng.choice([-4, -1, 1, 3, 0]))]
    if with_qual and p("quality", 0.25):
        argv += ["-q", rng.choice(["10", "20", "15,10", "5,25", "0"])]
        if paired and rng.random() < 0.4:
            argv += ["-Q", rng.choice(["10", "0", "20,5"])]
    if with_qual and p("nextseq", 0.1):
        argv += ["--nextseq-trim", str(rng.choice([10, 20, 20, 0]))]
    if p("polya", 0.12):
        argv.append("--poly-a")
    if p("length", 0.15):
        argv += ["-l", str(rng.choice([-12, -5, 5, 10, 25, 0]))]
        if paired and rng.random() < 0.4:
            argv += ["-L", str(rng.choice([-8, 6, 15, 0, 0]))]
    elif paired and p("length", 0.05):
        argv += ["-L", str(rng.choice([-8, 6, 15, 0, 0]))]       # -L alone: R2 only
    if p("trimn", 0.15):
        argv.append("--trim-n")
    if p("names", 0.1):
        argv += ["--length-tag", "length="]
    if p("names", 0.1):
        argv += ["--strip-suffix", rng.choice([":1", "0:1", "x"])]
    rename = False
    if p("names", 0.12):
        if rng.random() < 0.5 and not paired:
            argv += ["--rename", rng.choice(["{id} {adapter_name} {rc}", "{id}_{cut_prefix} {comment}", "{header} m={match_sequence}", "{id} s={cut_suffix}",
                                             "{comment}", "x {comment} {adapter_name}", "{id} {rn}", "{header}", "{id} {r1.comment}"])]
            rename = True
        elif rng.random() < 0.6 and paired:
            # PairedEndRenamer: own fields, {rn}, fields of the other mate ({r1.x}/{r2.x}); some templates make the ids differ
            argv += ["--rename", rng.choice(["{id} {adapter_name}", "{id}/{rn} {comment}", "{id} {r1.adapter_name}+{r2.adapter_name}",
                                             "{id} {r1.cut_prefix}{r2.cut_suffix} {rn}", "{header} m={match_sequence}", "{id}_{r2.match_sequence} {r1.comment}",
                                             "{rn}{id}", "{id}{comment}", "{id} {rc}", "{comment}", "{id} {r1.id}", "{header}"])]
            rename = True
        else:
            argv += rng.choice([["-x", "p_{name}_"], ["-y", "_s"], ["-x", "P", "-y", "_{name}"]])
    if with_qual and p("zerocap", 0.1):
        argv.append("--zero-cap")
    # filters
    if p("filters", 0.3):
        m = str(rng.randint(0, 25))
        if paired and rng.random() < 0.4:
            m = rng.choice([m + ":", ":" + m, m + ":" + str(rng.randint(0, 20))])
        argv += ["-m", m]
        if p("redirect", 0.4):
            argv += ["--too-short-output", "{dir}/ts1." + ext]
            if paired and rng.random() < 0.8:
                argv += ["--too-short-paired-output", "{dir}/ts2." + ext]
    if p("filters", 0.2):
        M = str(rng.randint(5, 45))
        if paired and rng.random() < 0.3:
            M = rng.choice([M + ":", ":" + M])
        argv += ["-M", M]
        if p("redirect", 0.4):
            argv += ["--too-long-output", "{dir}/tl1." + ext]
            if paired and rng.random() < 0.8:
                argv += ["--too-long-paired-output", "{dir}/tl2." + ext]
    if p("filters", 0.15):
        argv += ["--max-n", rng.choice(["0", "1", "2", "0.1", "0.25", "0.5"])]
    if with_qual and p("filters", 0.15):
        argv += ["--max-ee", rng.choice(["0.5", "1", "2", "5"])]
    if with_qual and p("maxaer", 0.08):
        argv += ["--max-aer", rng.choice(["0.01", "0.1", "0.3"])]
    if p("filters", 0.1):
        argv.append("--discard-casava")
    if paired and p("pairfilter", 0.3):
        argv += ["--pair-filter", rng.choice(["any", "both", "first"])]
    demux = has_ad and n1 > 0 and p("demux", 0.12)
    comb = demux and paired and n2 > 0 and not pair_adapters and rng.random() < 0.4
    x = rng.random()
    if has_ad:
        if x < 0.1 and not demux:
            argv.append("--discard-trimmed")
        elif x < 0.25:
            argv.append("--discard-untrimmed")
        elif x < 0.4 and not comb:
            argv += ["--untrimmed-output", "{dir}/ut1." + ext]
            if paired and rng.random() < 0.8:
                argv += ["--untrimmed-paired-output", "{dir}/ut2." + ext]
    if comb:
        argv += ["-o", "{dir}/dm-{name1}-{name2}.1." + ext, "-p", "{dir}/dm-{name1}-{name2}.2." + ext]
    elif demux:
        argv += ["-o", "{dir}/dm-{name}.1." + ext]
        if paired:
            argv += ["-p", "{dir}/dm-{name}.2." + ext]
    else:
        argv += ["-o", "{dir}/o1." + ext]
        if paired:
            if rng.random() < 0.85:
                argv += ["-p", "{dir}/o2." + ext]
            else:
                argv.append("--interleaved")
    if p("info", 0.15):
        argv += ["--info-file", "{dir}/info.txt"]
    if has_ad and p("rest", 0.06):
        argv += ["--rest-file", "{dir}/rest.txt"]
    if has_ad and p("rest", 0.06):
        argv += ["--wildcard-file", "{dir}/wild.txt"]
    # plain adapter sequences for embedding
    for tok in argv:
        if "=" in tok and tok[0] in "ab" and tok[1:2].isdigit():
            body = tok.split("=", 1)[1]
            for part in body.split("..."):
                s = part.split(";")[0].strip("^$X")
                (plain1 if tok[0] == "a" else plain2).append(s)
    interleaved_in = paired and rng.random() < 0.15 and "--interleaved" in argv
    nreads = rng.randint(1, 8)
    r1, r2 = gen_reads(rng, nreads, plain1, plain2, paired, with_qual, revcomp)
    return dict(argv=argv, paired=paired, reads1=r1, reads2=r2, with_qual=with_qual, interleaved_in=interleaved_in)


# ------------------------------------------------------------------------------------------------
# real side

def inputs_of(case):
    fmt = clirun.fastq if case["with_qual"] else clirun.fasta
    ext = "fastq" if case["with_qual"] else "fasta"
    if case["paired"]:
        if case.get("interleaved_in"):
            inter = [r for pair in zip(case["reads1"], case["reads2"]) for r in pair]
            return {f"in.{ext}": fmt(inter)}, [f"{{dir}}/in.{ext}"]
        return {f"in1.{ext}": fmt(case["reads1"]), f"in2.{ext}": fmt(case["reads2"])}, [f"{{dir}}/in1.{ext}", f"{{dir}}/in2.{ext}"]
    return {f"in.{ext}": fmt(case["reads1"])}, [f"{{dir}}/in.{ext}"]


EXC_MAP = {"AttributeError": "attribute", "AssertionError": "assertion", "KeyError": "key", "ValueError": "value",
           "InvalidTemplate": "template",
           "TypeError": "type", "IndexError": "index"}


def end_stats_json(es):
    if es is None:
        return {"errors": [], "adjacent": []}
    errs = sorted([ln, e, c] for ln, d in es.errors.items() for e, c in d.items() if c)
    adj = sorted([k, v] for k, v in es.adjacent_bases.items() if v)
    return {"errors": errs, "adjacent": adj}


def canon_real(res, case):
    """canonical dict of what the real run produced"""
    if res.status == 2:
        return {"error": "cmdline", "stage": "setup"}
    if res.status == -1:
        kind = res.exc.split(":")[0]
        return {"error": EXC_MAP.get(kind, kind), "stage": "run"}
    if res.status != 0:
        return {"error": f"exit{res.status}", "stage": "run", "stderr": res.stderr[-300:]}
    out = {"files": {}, "texts": {}}
    for fn, data in res.files.items():
        txt = clirun.text_of(data)
        if fn.endswith(".txt"):
            out["texts"][fn] = txt.split("\n")[:-1] if txt else []
        else:
            out["files"][fn] = [list(r) for r in clirun.parse_fastx(txt)]
    st = res.stats
    out.update(n=st.n, bp1=st.total_bp[0], bp2=st.total_bp[1], written=st.read_length_statistics.written_reads(),
               written_bp1=st.read_length_statistics.written_bp()[0], written_bp2=st.read_length_statistics.written_bp()[1],
               filtered=dict(st.filtered), quality_trimmed1=st.quality_trimmed_bp[0] or 0, quality_trimmed2=st.quality_trimmed_bp[1] or 0,
               poly_a1=sorted([k, v] for k, v in (st.poly_a_trimmed_lengths[0] or {}).items()),
               poly_a2=sorted([k, v] for k, v in (st.poly_a_trimmed_lengths[1] or {}).items()),
               with_adapters1=st.with_adapters[0] or 0, with_adapters2=st.with_adapters[1] or 0,
               reverse_complemented=st.reverse_complemented or 0)
    for side in (0, 1):
        lst = []
        for a in st.adapter_stats[side]:
            f, b = a.end_statistics()
            lst.append({"front": end_stats_json(f), "back": end_stats_json(b), "rc": a.reverse_complemented})
        out[f"adapter_stats{side + 1}"] = lst
    return out


def run_real(case, want_json=False):
    patch_prefilter()
    inputs, in_args = inputs_of(case)
    argv = list(case["argv"]) + in_args
    # a case may ask for real worker processes: case["cores"] = N (and case["buffer_size"] to split the input into several chunks)
    if case.get("buffer_size"):
        argv = ["--buffer-size", str(case["buffer_size"])] + argv
    res = clirun.run_cli(argv, inputs, want_json=want_json, cores=case.get("cores"))
    return res, canon_real(res, case)


# ------------------------------------------------------------------------------------------------
# model side

def adapter_json(a):
    import cutadapt.adapters as A
    tymap = {A.FrontAdapter: "front", A.RightmostFrontAdapter: "rightmost", A.BackAdapter: "back", A.AnywhereAdapter: "anywhere",
             A.NonInternalFrontAdapter: "nifront", A.NonInternalBackAdapter: "niback", A.PrefixAdapter: "prefix", A.SuffixAdapter: "suffix"}
    if isinstance(a, A.LinkedAdapter):
        return dict(kind="linked", front=adapter_json(a.front_adapter), back=adapter_json(a.back_adapter),
                    front_required=a.front_required, back_required=a.back_required, name=a.name)
    return dict(kind="single", type=tymap[type(a)], seq=a.sequence, rate=str(bits(a.max_error_rate)), min_overlap=a.min_overlap,
                rw=bool(a.read_wildcards), aw=bool(a.adapter_wildcards), indels=bool(a.indels),
                force_anywhere=bool(getattr(a, "_force_anywhere", False)), name=a.name)


def strip_dir(p):
    return None if p is None else p.replace("{dir}/", "")


def tokens_json(template):
    from cutadapt.tokenizer import tokenize_braces, BraceToken
    out = []
    for t in tokenize_braces(template.replace(r"\t", "\t")):
        out.append({"var": t.value} if isinstance(t, BraceToken) else {"lit": t.value})
    return out


def model_json(case):
    """option record for the model, derived from what argparse makes of the command line (argparse itself is a library)"""
    import logging
    import cutadapt.cli as cli
    patch_prefilter()
    parser = cli.get_argument_parser()
    _, in_args = inputs_of(case)
    args = parser.parse_args(list(case["argv"]) + in_args)
    # adapters: the model receives the specifications as written on the command line (and the global search options) and builds the adapter list
    # itself through the parser model (C18); only a `file:` specification - whose records the model cannot read - falls back on a description of
    # the objects that the real parser built
    given = list(args.adapters) + list(args.adapters2)
    specs_ok = all("file:" not in sp and "file$:" not in sp and all(ord(c) < 128 for c in sp) for _, sp in given) and not os.environ.get("VERIF_MODEL_ADAPTERS_FROM_OBJECTS")
    logging.disable(logging.CRITICAL)
    try:
        ads, ads2 = cli.adapters_from_args(args)
    except cli.CommandLineError:
        if not specs_ok:
            return None
        ads = ads2 = None
    finally:
        logging.disable(logging.NOTSET)
    paired = cli.determine_paired(args)

    def cutoff(s):
        if s is None:
            return None
        if s == "0":
            return "0"
        return list(cli.parse_cutoffs(s))

    def lens(s):
        if s is None:
            return None
        v = list(cli.parse_lengths(s))
        if not paired:
            if len(v) == 2:
                return "cmdline"
            return [v[0], None]
        if len(v) == 1:
            v = [v[0], v[0]]
        return v
    o = dict(no_index=not args.index, paired=paired, cut=args.cut, cut2=args.cut2, nextseq_trim=args.nextseq_trim, quality_base=args.quality_base,
             quality_cutoff=cutoff(args.quality_cutoff), quality_cutoff2=cutoff(args.quality_cutoff2), pair_adapters=args.pair_adapters,
             action=args.action, times=args.times, revcomp=args.reverse_complement,
             rename=(tokens_json(args.rename) if args.rename and args.rename != "{header}" else None), rename_given=bool(args.rename),
             poly_a=args.poly_a, length=args.length, length2=args.length2, trim_n=args.trim_n, length_tag=args.length_tag,
             strip_suffix=args.strip_suffix, prefix=args.prefix, suffix=args.suffix, zero_cap=bool(args.zero_cap),
             min_len=lens(args.minimum_length), max_len=lens(args.maximum_length),
             too_short_output=strip_dir(args.too_short_output), too_short_paired_output=strip_dir(args.too_short_paired_output),
             too_long_output=strip_dir(args.too_long_output), too_long_paired_output=strip_dir(args.too_long_paired_output),
             max_n=None if args.max_n is None else str(bits(args.max_n)),
             max_ee=None if args.max_expected_errors is None else str(bits(args.max_expected_errors)),
             max_aer=None if args.max_average_error_rate is None else str(bits(args.max_average_error_rate)),
             discard_casava=args.discard_casava, discard_trimmed=args.discard_trimmed, discard_untrimmed=args.discard_untrimmed,
             untrimmed_output=strip_dir(args.untrimmed_output), untrimmed_paired_output=strip_dir(args.untrimmed_paired_output),
             pair_filter=args.pair_filter, output=strip_dir(args.output), paired_output=strip_dir(args.paired_output),
             rest_file=strip_dir(args.rest_file), info_file=strip_dir(args.info_file), wildcard_file=strip_dir(args.wildcard_file),
             input_has_qualities=case["with_qual"], interleaved=bool(args.interleaved))
    d = dict(opts=o, reads=[list(r) for r in case["reads1"]], reads2=[list(r) for r in (case["reads2"] or [])])
    if specs_ok:
        flag = {"back": "a", "front": "g", "anywhere": "b"}
        def sp(lst, objs):
            # auto_name: the real program numbers unnamed adapters with a process-wide counter; the model uses it only for a specification without a name
            return [dict(flag=flag[t], spec=x, auto_name=(objs[i].name if objs is not None and len(objs) == len(lst) else "")) for i, (t, x) in enumerate(lst)]
        e_lit = "0.1"
        argv = list(case["argv"])
        for i, t in enumerate(argv[:-1]):
            if t in ("-e", "--error-rate", "--errors"):
                e_lit = argv[i + 1]
        d.update(specs=sp(args.adapters, ads), specs2=sp(args.adapters2, ads2),
                 globals=dict(e=e_lit, O=str(args.overlap), rw=bool(args.match_read_wildcards), aw=bool(args.match_adapter_wildcards), indels=bool(args.indels)))
    else:
        d.update(adapters=[adapter_json(a) for a in ads], adapters2=[adapter_json(a) for a in ads2])
    return d


def canon_model(out):
    try:
        d = json.loads(out)
    except Exception:
        return {"error": "model-output-unparsable", "raw": out[:200]}
    if "error" in d:
        return d
    for k in ("adapter_stats1", "adapter_stats2"):
        for a in d.get(k, []):
            for end in ("front", "back"):
                a[end]["errors"] = sorted(a[end]["errors"])
                a[end]["adjacent"] = sorted(x for x in a[end]["adjacent"])
    d["poly_a1"] = sorted(d["poly_a1"])
    d["poly_a2"] = sorted(d["poly_a2"])
    return d


def compare(real, model):
    """list of keys on which the canonical results differ"""
    if "error" in real or "error" in model:
        if real.get("error") == model.get("error"):
            return []
        return ["error"]
    diffs = []
    for k in sorted(set(real) | set(model)):
        if real.get(k) != model.get(k):
            diffs.append(k)
    return diffs


def run_cases(ctx, cases, opname="pipeline"):
    """Run real + model on all cases; record diffs in ctx; return list of (case, res, real, model)."""
    from core import run_driver, Diff
    lines, keep = [], []
    for c in cases:
        mj = model_json(c)
        res, real = run_real(c)
        if mj is None:
            # adapters rejected while parsing: only the exit status matters
            keep.append((c, res, real, {"error": "cmdline", "stage": "setup"}, None))
            continue
        if isinstance(mj["opts"].get("min_len"), str) or isinstance(mj["opts"].get("max_len"), str):
            keep.append((c, res, real, {"error": "cmdline", "stage": "setup"}, None))
            continue
        lines.append("pipeline " + json.dumps(mj))
        keep.append((c, res, real, None, len(lines) - 1))
    outs = run_driver(lines)
    result = []
    for c, res, real, model, ix in keep:
        if model is None:
            model = canon_model(outs[ix])
        d = compare(real, model)
        ctx.evaluations += 1
        ctx.corr_ops[opname] = ctx.corr_ops.get(opname, 0) + 1
        if d:
            ctx.diffs.append(Diff(opname, json.dumps(dict(argv=c["argv"], reads1=c["reads1"], reads2=c["reads2"])),
                                  json.dumps({k: real.get(k) for k in d})[:1500], json.dumps({k: model.get(k) for k in d})[:1500]))
        result.append((c, res, real, model))
    return result
