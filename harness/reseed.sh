#!/bin/bash
# re-evaluate a stored seeded change on a fresh worktree of /repo's HEAD:  harness/reseed.sh <seed-id> <prop> [props…]
set -e
id=$1; shift
wt=/tmp/reseed-$$
git -C /repo worktree add -q --detach $wt HEAD
git -C $wt apply /verif/seeded/$id/patch.diff
mkdir -p $wt/seed_out
cp /verif/seeded/$id/demo.* $wt/seed_out/
[ -f /verif/seeded/$id/notes.txt ] && cp /verif/seeded/$id/notes.txt $wt/seed_out/
/venv/bin/python /verif/harness/seedtest.py $wt $id "$@" 2>&1 | tail -$(( $# + 1 ))
git -C /repo worktree remove --force $wt
