"""Out-of-tree build of /repo's *working tree* (sources as they are now, not the installed .so files).

build(dest) copies /repo/src/cutadapt (without *.so, *.c, __pycache__) to dest/cutadapt, runs cython + gcc on
the four .pyx files in parallel and returns dest.  Importing with sys.path[0] = dest shadows the editable install.
Exit status 2 (infrastructure) if the tree does not compile.
"""
import hashlib
import os
import shutil
import subprocess
import sys
import sysconfig
from concurrent.futures import ThreadPoolExecutor

REPO = os.environ.get("VERIF_REPO", "/repo")
PYX = ["_align", "qualtrim", "info", "_kmer_finder"]


class BuildError(Exception):
    pass


def tree_hash(repo=REPO):
    h = hashlib.sha256()
    src = os.path.join(repo, "src", "cutadapt")
    for fn in sorted(os.listdir(src)):
        if fn.endswith((".py", ".pyx", ".h", ".pyi")):
            h.update(fn.encode())
            with open(os.path.join(src, fn), "rb") as f:
                h.update(f.read())
    return h.hexdigest()[:16]


def _compile(dest, mod):
    pyx = os.path.join(dest, "cutadapt", mod + ".pyx")
    c = os.path.join(dest, "cutadapt", mod + ".c")
    so = os.path.join(dest, "cutadapt", mod + sysconfig.get_config_var("EXT_SUFFIX"))
    cy = os.path.join(os.path.dirname(sys.executable), "cython")
    r = subprocess.run([cy, "-3", pyx, "-o", c], capture_output=True, text=True)
    if r.returncode != 0:
        raise BuildError(f"cython {mod}: {r.stderr[-2000:]}")
    inc = sysconfig.get_paths()["include"]
    r = subprocess.run(
        ["gcc", "-O1", "-fPIC", "-shared", "-fwrapv", "-w", "-I", inc, "-I", os.path.join(dest, "cutadapt"), c, "-o", so],
        capture_output=True, text=True)
    if r.returncode != 0:
        raise BuildError(f"gcc {mod}: {r.stderr[-2000:]}")
    os.unlink(c)


def build(dest, repo=REPO):
    src = os.path.join(repo, "src", "cutadapt")
    pkg = os.path.join(dest, "cutadapt")
    if os.path.exists(pkg):
        shutil.rmtree(pkg)
    os.makedirs(dest, exist_ok=True)
    shutil.copytree(src, pkg, ignore=shutil.ignore_patterns("*.so", "*.c", "__pycache__"))
    with ThreadPoolExecutor(4) as ex:
        list(ex.map(lambda m: _compile(dest, m), PYX))
    with open(os.path.join(dest, "TREE_HASH"), "w") as f:
        f.write(tree_hash(repo))
    return dest


def activate(dest):
    """Make `import cutadapt` resolve to the scratch build (call before any cutadapt import)."""
    for k in [k for k in sys.modules if k == "cutadapt" or k.startswith("cutadapt.")]:
        del sys.modules[k]
    sys.path.insert(0, dest)
    os.environ["CUTADAPT_VERIF"] = "1"
    os.environ["PYTHONPATH"] = dest + os.pathsep + os.environ.get("PYTHONPATH", "")
    import cutadapt  # noqa
    assert os.path.realpath(os.path.dirname(cutadapt.__file__)) == os.path.realpath(os.path.join(dest, "cutadapt")), cutadapt.__file__


if __name__ == "__main__":
    d = sys.argv[1]
    try:
        build(d)
    except BuildError as e:
        print("BUILD-ERROR", e)
        sys.exit(2)
    print(d)
