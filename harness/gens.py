"""Generators shared by the alignment-related properties (C01, C02, C07, C08, C09)."""

TYPES = ["back", "front", "anywhere", "prefix", "suffix", "nifront", "niback", "rightmost"]
RATES = [0.0, 0.1, 0.1, 0.2, 0.25, 0.3, 1 / 3, 0.34, 0.15, 0.5, 0.57, 0.9]
IUPAC_EXP = dict(R="AG", Y="CT", S="GC", W="AT", K="GT", M="AC", B="CGT", D="AGT", H="ACT", V="ACG", N="ACGT", X="A", U="T", I="ACGT")


def adapter_class(ty):
    import cutadapt.adapters as A
    return dict(back=A.BackAdapter, front=A.FrontAdapter, anywhere=A.AnywhereAdapter, prefix=A.PrefixAdapter,
                suffix=A.SuffixAdapter, nifront=A.NonInternalFrontAdapter, niback=A.NonInternalBackAdapter,
                rightmost=A.RightmostFrontAdapter)[ty]


def rand_seq(rng, n, alpha="ACGT"):
    return "".join(rng.choice(alpha) for _ in range(n))


def gen_adapter_seq(rng, maxlen=14):
    r = rng.random()
    m = rng.randint(1, 4) if r < 0.15 else rng.randint(1, maxlen) if r < 0.9 else rng.randint(maxlen, 40)
    mode = rng.random()
    if mode < 0.5:
        alpha = "ACGT"
    elif mode < 0.65:
        alpha = "AC"
    elif mode < 0.85:
        alpha = "ACGTNN"
    else:
        alpha = "ACGTNNRYSWKMBDHVX"
    return rand_seq(rng, m, alpha)


def concretize(rng, seq):
    return "".join(rng.choice(IUPAC_EXP[c]) if c in IUPAC_EXP else c for c in seq)


def mutate(rng, s, nedits):
    cp = list(s)
    for _ in range(nedits):
        if not cp:
            break
        pos = rng.randrange(len(cp))
        op = rng.random()
        if op < 0.5:
            cp[pos] = rng.choice("ACGT")
        elif op < 0.75:
            del cp[pos]
        else:
            cp.insert(pos, rng.choice("ACGT"))
    return "".join(cp)


def gen_read(rng, seq, maxlen=30):
    """random read, often with a (mutated) copy of the adapter at any placement incl. overhangs"""
    r = rng.random()
    n = rng.randint(0, 4) if r < 0.1 else rng.randint(0, maxlen) if r < 0.9 else rng.randint(maxlen, 150)
    amode = rng.random()
    alpha = "ACGT" if amode < 0.7 else "ACGTNacgtn" if amode < 0.88 else "ACGTNacgtnRYXM" if amode < 0.95 else "ACGTN.-*0acg"
    rd = rand_seq(rng, n, alpha)
    if rng.random() < 0.75:
        cp = mutate(rng, concretize(rng, seq), rng.choice([0, 0, 0, 1, 1, 2, 3, 4]))
        if rng.random() < 0.1:
            cp = cp.lower()
        if "N" in seq and rng.random() < 0.15:
            # characters that are not letters (gap and padding symbols occur in sequence files) at the wildcard positions of the adapter
            ref = concretize(rng, seq)
            if len(ref) == len(seq):
                cp = "".join(rng.choice(".-*0") if a == "N" and rng.random() < 0.7 else b for a, b in zip(seq, ref))
        if cp:
            p = rng.randint(-len(cp) + 1, max(0, n))
            rd = (cp[-p:] + rd) if p < 0 else rd[:p] + cp + rd[p:]
            if rng.random() < 0.5:
                rd = rd[:n]
    return rd


# absolute error counts k on adapters of n informative bases for which the double k/n times n falls just below k: the tolerance over the full
# adapter is k-1 there (the stored rate is what the documentation's product is taken with) - wherever a second component (index, prefilter)
# recomputes the tolerance, it has to arrive at the same number
FLOAT_CORNERS = [(3, 47), (1, 49), (2, 49), (4, 49), (5, 77)]


def gen_adapter_cfg(rng, types=TYPES, maxlen=14):
    ty = rng.choice(types)
    if rng.random() < 0.06:
        k, n = rng.choice(FLOAT_CORNERS)
        return dict(ty=ty, seq=rand_seq(rng, n, "ACGT"), max_errors=float(k), min_overlap=rng.randint(1, 6), read_wildcards=False,
                    adapter_wildcards=rng.random() < 0.8, indels=rng.random() < 0.6, force_anywhere=False)
    seq = gen_adapter_seq(rng, maxlen)
    rate = rng.choice(RATES)
    if rng.random() < 0.1:
        rate = float(rng.choice([1, 2, 3]))   # absolute number of errors
    mo = rng.randint(1, 6) if rng.random() < 0.85 else len(seq) + rng.randint(0, 7)     # also beyond the adapter length (clamped by cutadapt)
    return dict(ty=ty, seq=seq, max_errors=rate, min_overlap=mo, read_wildcards=rng.random() < 0.25,
                adapter_wildcards=rng.random() < 0.8, indels=rng.random() < 0.6, force_anywhere=False)


def make_adapter(cfg, mock_kmer=True):
    """Construct the real adapter object; returns (adapter, None) or (None, error-token)."""
    import cutadapt.adapters as A
    cls = adapter_class(cfg["ty"])
    kw = dict(max_errors=cfg["max_errors"], min_overlap=cfg["min_overlap"], read_wildcards=cfg["read_wildcards"],
              adapter_wildcards=cfg["adapter_wildcards"], indels=cfg["indels"])
    if cfg.get("force_anywhere"):
        kw["force_anywhere"] = True
    try:
        a = cls(cfg["seq"], **kw)
    except A.InvalidCharacter:
        return None, "error:invalid-character"
    except ValueError as e:
        msg = str(e)
        if "empty" in msg:
            return None, "error:empty"
        if "only N" in msg:
            return None, "error:only-n"
        if "between 0 and 1" in msg:
            return None, "error:bad-rate"
        return None, "error:value:" + msg
    if mock_kmer:
        a.kmer_finder = A.MockKmerFinder()
    return a, None


def matchto_line(cfg, read):
    from core import hx, bits
    return (f"matchto {cfg['ty']} {hx(cfg['seq'])} {bits(cfg['max_errors'])} {cfg['min_overlap']} "
            f"{int(cfg['read_wildcards'])} {int(cfg['adapter_wildcards'])} {int(cfg['indels'])} {int(bool(cfg.get('force_anywhere')))} {hx(read)}")


def show_match(mt):
    import cutadapt.adapters as A
    if mt is None:
        return "None"
    kind = "Before" if isinstance(mt, A.RemoveBeforeMatch) else "After"
    return f"{kind} {mt.astart} {mt.astop} {mt.rstart} {mt.rstop} {mt.score} {mt.errors}"
