"""Write /verif/MANIFEST.json from the table below (run by hand after adding a property check)."""
import json, os
VERIF = os.path.dirname(os.path.dirname(os.path.abspath(__file__)))
PROPS = [f"C{i:02d}" for i in range(1, 21)]
NOTE = ("Trusted: Lean 4.33 kernel (axioms propext/Classical.choice/Quot.sound only, audited each run), the translators in gen/, "
        "the correspondence harness (sampling + small-scope enumeration ties the hand-written model to the code), the compiled Lean driver; "
        "dnaio/xopen/CPython/Cython/OS are modelled, not verified (DESIGN.md §8).")
CLAIMED = {
 "C01": dict(text="Lean theorems over the model of Aligner.locate / PrefixComparer / SuffixComparer and the eight adapter classes: locate_sound (column invariant of the banded DP incl. stale cells, early exit and last-column search) and matchTo_sound: every reported match lies inside read and adapter, obeys the documented placement rule of its type, covers the minimum overlap, is witnessed by an alignment of cost <= errors under the documented wildcard relation (tables_match_documentation re-checks the regenerated match tables against the documented IUPAC sets by kernel computation), and errors <= thr(non-N aligned adapter bases); noindel_is_hamming. The half 'errors is minimal' is stated (errors_minimal_statement) and decided by the brute-force oracle only until dp_exact is finished (partial). Model tied to the code by differential runs of locate/comparers/match_to.",
             ref="§7 C01", technique="Lean 4 proof (DP column invariant by induction over columns/rows) + correspondence + brute-force oracle for the minimality half"),
 "C13": dict(text="Lean theorems (trim3_spec, trim5_spec, combine, all_good_unchanged, all_bad_empty, base_shift_invariant, nextseq_spec, "
                  "trimmed_bases_count) prove the BWA specification for every quality string, cutoff and base over the model of qualtrim.pyx; "
                  "the model is tied to the code by a differential run of quality_trim_index/nextseq_trim_index/QualityTrimmer against the compiled model, "
                  "and a brute-force specification oracle runs against the implementation (function and CLI level).",
             ref="§7 C13", technique="Lean 4 proof (scan invariant by induction) + model/implementation correspondence"),
 "C14": dict(text="Lean theorems prove, for every sequence / quality string: the poly-A/poly-T index is the shortest tail/head with maximal positive score among those with <= 20% other bases and at least 3 characters (polyA_removed/kept, polyT_removed/kept); --trim-n removes exactly the maximal N runs (trimN_spec, trimN_end_maximal); the N count counts n and N (nCount_spec); the unrolled expected-error accumulation equals the plain sum in any commutative associative arithmetic (accumulate_eq_sum, ee_exact), phred validity (phredOf_spec), and the generated table equals 10^(-q/10) to 1e-13 (table_accurate, table_bits_exact, kernel computation). Bit-exact Float correspondence ties the model to the C code; IEEE rounding of the running sums is outside the theorem.",
             ref="§7 C14", technique="Lean 4 proof (scan invariants, decide +kernel on the regenerated phred table) + bit-exact model/implementation correspondence"),
}
checks = []
for p in PROPS:
    if p in CLAIMED:
        c = CLAIMED[p]
        checks.append(dict(property_id=p, quick_cmd=f"./check {p} quick", thorough_cmd=f"./check {p} thorough",
                           evidence_file=f"evidence/{p}.json", replay_cmd_template=f"./check {p} --replay {{path}}",
                           engine="lean-model", level_claimed=dict(category=c.get("category", "proof"), text=c["text"], design_ref=c["ref"]),
                           level_note=c.get("note", NOTE), technique=c["technique"]))
man = dict(
    version=1,
    setup_cmd="cd lean && lake build Cutadapt driver",
    hooks=dict(guard="CUTADAPT_VERIF", enable="checks build /repo's working tree out of tree (harness/build.py) and run it with CUTADAPT_VERIF=1",
               baseline_off_cmd="cd /repo && /venv/bin/python -m pytest -ra -q -p no:cacheprovider --timeout=900 --continue-on-collection-errors",
               source_commits=[], add_only=True),
    engines=[dict(name="lean-model", path="lean/", serves_properties=sorted(CLAIMED),
                  kind_free_text="Lean 4 library: executable model of cutadapt + property theorems; compiled line-protocol driver; Python correspondence harness and oracles in harness/")],
    checks=checks,
    notes="See DESIGN.md. ./check <id> quick|thorough; exit 0 held, 1 violation, 2 infrastructure failure.",
    not_applicable=[dict(property_id=p, reason="no check registered in this revision yet (model/theorems under construction; see DESIGN.md §13)") for p in PROPS if p not in CLAIMED],
)
json.dump(man, open(os.path.join(VERIF, "MANIFEST.json"), "w"), indent=1)
print("claimed", sorted(CLAIMED))
