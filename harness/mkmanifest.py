"""Write /verif/MANIFEST.json from the table below (run by hand after adding a property check)."""
import json, os
VERIF = os.path.dirname(os.path.dirname(os.path.abspath(__file__)))
PROPS = [f"C{i:02d}" for i in range(1, 21)]
NOTE = ("Trusted: Lean 4.33 kernel (axioms propext/Classical.choice/Quot.sound only, audited each run), the translators in gen/, "
        "the correspondence harness (sampling + small-scope enumeration ties the hand-written model to the code), the compiled Lean driver; "
        "dnaio/xopen/CPython/Cython/OS are modelled, not verified (DESIGN.md §8).")
PIPE = ("Model of the whole read-processing pipeline (Records/Modifiers/Pipeline/Assembly/Stats.lean) tied to the code by running the real cutadapt.cli.main and the compiled "
        "model on the same random command lines and reads (files, info/rest/wildcard rows, statistics compared; 0 differences required). ")
CLAIMED = {
 "C01": dict(text="Lean theorems over the model of Aligner.locate / PrefixComparer / SuffixComparer and the eight adapter classes: locate_sound (column invariant of the banded DP incl. stale cells, early exit, last-column search), dp exactness (errors_minimal), matchTo_sound and matchTo_errors_is_distance: every reported match lies inside read and adapter, obeys the documented placement rule, covers the minimum overlap, errors is the exact weighted edit distance under the documented wildcard relation (tables_match_documentation re-checks the regenerated match tables by kernel computation) and errors <= thr(non-N aligned bases); noindel_is_hamming. Model tied to the code by differential runs of locate/comparers/match_to.",
             ref="§7 C01", technique="Lean 4 proof (DP column invariant, Ukkonen band exactness) + correspondence + brute-force oracle"),
 "C02": dict(text="Lean theorems over the same model: exact_occurrence_found, noindel_complete, indel_complete (types that cannot skip the adapter start), anchored5/3_exact_removed_exactly, back_cut_before_leftmost_copy, front_cut_before_end_of_leftmost_copy, rightmost_cut_after_rightmost_copy, occ_of_match - all unbounded, via exactness of the banded DP and completeness of the last-row/last-column search. Brute-force enumeration of admissible occurrences as oracle.",
             ref="§7 C02", technique="Lean 4 proof (dp_exact + search completeness) + correspondence + brute-force oracle"),
 "C03": dict(text=PIPE + "Theorems: trimming modifiers return the same segment of sequence and qualities, action semantics (trim/retain/crop/none/mask/lowercase), remainder, rounds, pipeline output is a slice (see Properties/C03.lean for the list proved). Oracle: every output record located in its input record.",
             ref="§7 C03", technique="Lean 4 proof (segment algebra, case analysis per modifier, induction over rounds) + pipeline-level correspondence"),
 "C04": dict(text=PIPE + "Theorems: each read has exactly one fate event (written by the last step or counted by exactly one filter), counts add up (summarize is a monoid homomorphism over the event log), report categories complete. Oracle: record counts of the produced files against the JSON report.",
             ref="§7 C04", technique="Lean 4 proof (invariant over the step fold / read fold) + pipeline-level correspondence"),
 "C05": dict(text=PIPE + "Theorems: paired writes carry both mates in input order, pair decision table (any/both/first, one-sided bounds), forced 'both' for untrimmed filters, --pair-adapters both-or-neither with argmax rule. Oracle: id agreement of every file pair, recomputed pair decisions.",
             ref="§7 C05", technique="Lean 4 proof + pipeline-level correspondence (paired)"),
 "C06": dict(text="Labelled transition system of runners.py (reader, need-work queue, per-worker inbox/outbox, main with one OrderedChunkWriter per file), generic in the per-chunk processing function and a commutative statistics monoid; theorems for every number of workers, every chunk list and every action sequence: ordered_writer(_prefix), each_chunk_once, received_nodup, parallel_equals_serial, no_deadlock, terminates, executions_finite, maximal_execution_ends. The tie to the code is a deterministic simulation: the unmodified ReaderProcess/WorkerProcess/ParallelPipelineRunner run under a cooperative fake multiprocessing with random and systematically enumerated schedules; every logged trace is replayed through the model (runnertrace op), outputs and statistics are compared with the one-core run; plus real -j 2/3/4 runs and Statistics.__iadd__ merge-order checks. Real process scheduling, pipes and signals are outside the theorem (validated, not proved).",
             ref="§7 C06", technique="Lean 4 proof (inductive invariants over traces) + deterministic simulation of the real runner validated against the model; partial: OS/process behaviour"),
 "C12": dict(text="Same transition system with fault actions (chunker raises in the reader, parser raises in a worker): fault_reaches_main, fault_executions_finite, exit0_only_if_wellformed, failed_only_if_fault, written_prefix_is_serial_prefix (every reachable state), maximal_execution_verdict, and the serial-runner counterparts; no fairness assumption. Correspondence: simulation with the fault injected at every chunk position x worker x schedules (deadlock detected exactly), real-process fault enumeration (truncation offsets, corrupted quality line, missing mate, mismatching names; plain and gzip; -j 1/2/3) with a wall-clock bound. Which byte strings dnaio rejects is the library's contract; wall-clock termination of real processes is testing, not proof.",
             ref="§7 C12", technique="Lean 4 proof (fault-extended LTS, termination measure) + fault-injection simulation and real-process fault enumeration; partial: library/OS behaviour"),
 "C07": dict(text="Model of kmer_heuristic.py and _kmer_finder.pyx; theorems shift_and_correct(_entry), kmers_present_spec, kmer_chunks_spec, pigeonhole_script, prefilter_only_removes, prefilter_safe_partial (explicit side condition) and proved counterexamples for the two recorded findings (anywhere adapter with the read inside the adapter; NUL byte vs N wildcard). The full statement prefilter_safe_statement is false on the current tree (prefilter_not_safe). Oracle: real finder vs always-true finder on the same adapter.",
             ref="§7 C07", technique="Lean 4 proof (bit-parallel invariant, pigeonhole over edit scripts) + correspondence; partial: full safety is refuted, two known findings"),
 "C08": dict(text="Model of hamming_sphere, edit_environment, AdapterIndex; theorems hamming_sphere_spec, edit_environment_sound/upper, index fold invariant and lookup soundness (see Properties/C08.lean). Oracle: soundness, uniqueness and agreement with one-by-one search incl. permutations.",
             ref="§7 C08", technique="Lean 4 proof + correspondence (hsphere/editenv/indexlookup ops)"),
 "C09": dict(text=PIPE + "Theorems: best_is_argmax, best_none_iff, rounds_spec, nontrim_actions_once, linked adapter semantics (linked_none_iff, back searched in remainder, not counted unless matched), with_adapters_iff_match. Oracle: rules recomputed from single-adapter matches.",
             ref="§7 C09", technique="Lean 4 proof (fold invariants) + pipeline-level correspondence"),
 "C10": dict(text=PIPE + "Theorems: stage_order_single/paired for every option record, makeMods_is_documented_composition, Kleisli composition of runMods, rename_zeroCap_commute, routing; the real modifier/step class sequence is regenerated from cli.py on every run (gen_stageorder.py) and proved equal to the documented order and to the model's assembly by decide. Oracle: option permutation invariance, reference composition, routing.",
             ref="§7 C10", technique="Lean 4 proof + regenerated stage order (translator) + pipeline-level correspondence"),
 "C11": dict(text=PIPE + "Theorems: filter order of makeSteps, first applicable filter consumes, criteria of every predicate (see Properties/C11.lean). Oracle: destination of each read recomputed from the documented criteria in order with thresholds at the reads' own values.",
             ref="§7 C11", technique="Lean 4 proof + pipeline-level correspondence (bit-exact floats)"),
 "C15": dict(text=PIPE + "Theorems: demultiplexer routing (single, paired, combinatorial), writers opened per name, partition of the plain output (List.Perm) (see Properties/C15.lean). Oracle: created files, expected file per read, multiset equality with the non-demultiplexed run.",
             ref="§7 C15", technique="Lean 4 proof + pipeline-level correspondence"),
 "C16": dict(text=PIPE + "Theorems: revcomp stage is total, keeps the forward result unless the reverse complement has a match and a strictly higher score, tie keeps forward, uses trimmed reverse complement with suffix/isRc/counter otherwise; paired variants (see Properties/C16.lean). Oracle: stage recomputed with real AdapterCutter objects.",
             ref="§7 C16", technique="Lean 4 proof (case analysis) + pipeline-level correspondence"),
 "C17": dict(text=PIPE + "Theorems: one row per read, row shape, fields concatenate, middle field = current[rstart:rstop]; the clause 'middle field is the aligned stretch' is false on the current tree in two recorded input classes (counterexample proved, partial theorem under the explicit side condition). Oracle: rows replayed against the input reads.",
             ref="§7 C17", technique="Lean 4 proof + pipeline-level correspondence; partial: two known findings"),
 "C18": dict(text="Model of parser.py (specification grammar, search parameters, brace expansion, linked adapters, file variants, rejections) with round-trip / precedence / rejection theorems (see Properties/C18.lean); correspondence of parsespec/expandbraces/parseparams against the real parser on grammar-generated and malformed specs; independent reference written from the documentation.",
             ref="§7 C18", technique="Lean 4 proof (structural induction over the grammar) + correspondence"),
 "C19": dict(text="Model of the output-format decision and of interleaving; theorems format_by_name, format_independent_of_proxy, format_independent_of_compression_suffix, fasta/fastq_names, fasta_forced_on_stdout, format_fallback, deinterleave_interleave. Compression codecs and dnaio readers/writers are libraries: container transparency is validated by the command-line matrix (container x layout x name x cores), not proved. One known finding (interleaved FASTA input with several cores).",
             ref="§7 C19", technique="Lean 4 proof (format decision) + CLI matrix; partial: codecs are library parameters"),
 "C20": dict(text=PIPE + "Theorems: stats_are_tally (per-adapter histograms, adjacent bases, 5'/3' split, reverse-complement counter equal counts over applied matches), total_matches, error_ranges_spec/last/entry for monotone thr. Oracle: ErrorRanges vs int(L*rate); JSON report vs tally of info-file rows.",
             ref="§7 C20", technique="Lean 4 proof (fold induction) + correspondence (eranges op, pipeline statistics)"),
 "C13": dict(text="Lean theorems (trim3_spec, trim5_spec, combine, all_good_unchanged, all_bad_empty, base_shift_invariant, nextseq_spec, "
                  "trimmed_bases_count) prove the BWA specification for every quality string, cutoff and base over the model of qualtrim.pyx; "
                  "the model is tied to the code by a differential run of quality_trim_index/nextseq_trim_index/QualityTrimmer against the compiled model, "
                  "and a brute-force specification oracle runs against the implementation (function and CLI level).",
             ref="§7 C13", technique="Lean 4 proof (scan invariant by induction) + model/implementation correspondence"),
 "C14": dict(text="Lean theorems prove, for every sequence / quality string: the poly-A/poly-T index is the shortest tail/head with maximal positive score among those with <= 20% other bases and at least 3 characters (polyA_removed/kept, polyT_removed/kept); --trim-n removes exactly the maximal N runs (trimN_spec, trimN_end_maximal); the N count counts n and N (nCount_spec); the unrolled expected-error accumulation equals the plain sum in any commutative associative arithmetic (accumulate_eq_sum, ee_exact), phred validity (phredOf_spec), and the generated table equals 10^(-q/10) to 1e-13 (table_accurate, table_bits_exact, kernel computation). Bit-exact Float correspondence ties the model to the C code; IEEE rounding of the running sums is outside the theorem.",
             ref="§7 C14", technique="Lean 4 proof (scan invariants, decide +kernel on the regenerated phred table) + bit-exact model/implementation correspondence"),
}
EXTRA_TEXT = {
 "C01": " Added: generators with absolute error counts at the lengths where the double k/n times n falls below k; translator gen_tolerance with generated_full_tolerance; an exception escaping from the implementation is reported as a failure (implementation-raised).",
 "C13": " Added: translator gen_qualwiring (interval kept by -q/-Q/--nextseq-trim on probe reads under both quality encodings) with generated_quality_wiring; idempotence theorems trim3_idempotent, trim5_idempotent, nextseq_idempotent (trimming an already trimmed read removes nothing more), each also demanded of the implementation on every function-level case.",
 "C15": " Added: translator gen_demux (files created and routing of probe reads, {name} and {name1}/{name2}, duplicate names, one sequence under two names) with generated_demux_files_and_routing, generated_comb_files_and_routing.",
 "C09": " Added: default_pipeline_without_index (without two indexable anchored adapters of one kind the default assembly is the --no-index assembly); the rule oracle is applied in the default mode whenever no index can be built.",
 "C03": " Added: translator gen_actions (every --action on probe reads) with generated_actions_documented. Added: the adapter index is part of the pipeline model (Matchable.indexed, Regroup.lean); indexed_pipeline_marked_slice states the slice property for the default, index-using "
        "pipeline; half of the correspondence runs use the index.",
 "C08": " Added: _split_adapters / _regroup_into_indexed_adapters modelled (Regroup.lean): regroup_noop, regroup_entries, regroup_wf, split_positions_perm, regroup_origin_perm "
        "(regrouping refers to every given adapter exactly once); the index object is a constructor of the pipeline's Matchable, so pipeline-level correspondence runs in index mode. regroup_names / regroup_every_adapter_named: the name table after regrouping carries, row by row, the names of the given adapters; function-level correspondence of _regroup_into_indexed_adapters (driver op regroup); generated_index_tolerance (index and adapter agree on the tolerance for absolute error counts).",
 "C05": " Added: PairedEndRenamer keeps the ids of the mates matched (paired_rename_keeps_ids_matched); --pair-adapters ranks with repeated sequences; interleaved untrimmed stream. Translator gen_pairfilter observes the pair decision of the real program for every filter x --pair-filter x adapter sides on probe pairs; generated_pair_decisions_documented proves the table equal to the documented combination, filter_modes_documented proves the same of every filter step of the assembly model. Translator gen_pairranks observes --pair-adapters on lists with repeated sequences (rank = position on the command line); generated_pair_ranks_documented proves the table equal to 'trimmed iff one rank has both its adapters'; the correspondence runs unnamed repeated specifications with the clause recomputed from the command line.",
 "C06": " Added: Statistics.__iadd__ and the per-adapter __iadd__ methods are modelled concretely (StatsMerge.lean) and proved to add: merging the statistics of the chunks of any "
        "chunking, in any order, gives the figures of the whole run (merged_statistics_of_any_chunking, merged_statistics_order_independent, statistics_merge_comm_assoc, "
        "merged_adapter_statistics), which discharges the monoid hypothesis for cutadapt's counters; tied to the code by the driver ops statsmerge/adaptermerge against `a += b` on real Statistics objects.",
 "C07": " Added: translator gen_tolerance with generated_prefilter_tolerance (prefilter and aligner agree on the tolerance for absolute error counts). Since fix 6bb8dc0 (short reads of adapters that search both overlap directions bypass the finder) prefilter_safe_partial holds for every ASCII read without NUL; one known finding remains (NUL byte vs N wildcard).",
 "C10": " Added: PairedEndRenamer (rn, r1./r2. fields, id checks) and tokenize_braces are modelled; paired_rename_spec, paired_rename_placeholders, tokenize_sound; stepwise oracle "
        "(the run with all options equals a chain of one run per documented stage). Translator observes the order of -u/-U cuts on probe reads (generated_cuts_in_given_order, generated_cuts_are_model).",
 "C11": " Added: translator gen_filterorder (a probe read to which two filters apply, every pair, both option orders: category and redirect file) with generated_first_applicable_filter_wins; two-stage reference for 'filters see the fully modified read'.",
 "C14": " Added: translator gen_c14tables (--poly-a/--trim-n/--max-n on probe reads, alone and next to unrelated options) with generated_c14_tables. Added: the definitions are also checked through the command line (--poly-a, --trim-n, --max-n, --max-ee, --max-aer on mixed-case reads, every --action, 1 and 2 cores).",
 "C16": " Added: oracle for paired --revcomp (total score over both reads, as given vs swapped).",
 "C19": " Added: translator gen_outfmt observes the format written for a menu of file names x cores x input format; generated_output_formats proves the table equal to the model's rule (formatOfName = outputFormat).",
 "C20": " Added: R2 adapter statistics of paired runs with worker processes against a single-end tally of the R2 reads.",
}
TECH = {"C07": "Lean 4 proof (bit-parallel invariant, pigeonhole over edit scripts) + correspondence; partial: NUL bytes in reads are outside the theorem (one known finding)"}
for k, v in EXTRA_TEXT.items():
    CLAIMED[k]["text"] += v
EXTRA_TEXT2 = {
 "C04": " Added: runs as a process of its own with the main output on standard output next to a redirect/info/rest file (1-3 cores): the report's written reads and base pairs against what standard output holds.",
 "C06": " Added: main output on standard output next to other output files with worker processes; every sink's content recomputed from the reads and compared with the single-core run.",
 "C09": " Added: the rounds of --times on both mates of a paired-end run (same adapter list for R1 and R2) against the single-end run that the rule oracle judges; Proofs/PairedRounds.lean: paired_rounds_on_both_mates / paired_rounds_r2_only (both cutters of the paired assembly carry --times and --action).",
 "C11": " Added: a quarter of the filter cases on FASTA input (criteria that need no qualities hold whatever the format).",
 "C15": " Added: output templates that name the adapter more than once ({name}...{name}, {name1}-{name2}...{name1}-{name2}).",
 "C17": " Added: a linked match with both parts followed by a match in a later round (--times 2/3).",
}
for k, v in EXTRA_TEXT2.items():
    CLAIMED[k]["text"] += v
for k, v in TECH.items():
    CLAIMED[k]["technique"] = v
OBL = json.load(open(os.path.join(VERIF, "lean", "obligations.json")))
HOLD = set(os.environ.get("VERIF_HOLD", "").split(","))     # properties whose check is being reworked right now
CLAIMED = {k: v for k, v in CLAIMED.items() if len(OBL.get(k, [])) >= 1 and k not in HOLD}
checks = []
for p in PROPS:
    if p in CLAIMED:
        c = CLAIMED[p]
        checks.append(dict(property_id=p, quick_cmd=f"./check {p} quick", thorough_cmd=f"./check {p} thorough",
                           evidence_file=f"evidence/{p}.json", replay_cmd_template=f"./check {p} --replay {{path}}",
                           engine="lean-model", level_claimed=dict(category=c.get("category", "proof"), text=c["text"], design_ref=c["ref"]),
                           level_note=c.get("note", NOTE), technique=c["technique"]))
man = dict(
    version=1,
    setup_cmd="cd lean && lake build Cutadapt driver",
    hooks=dict(guard="CUTADAPT_VERIF", enable="checks build /repo's working tree out of tree (harness/build.py) and run it with CUTADAPT_VERIF=1",
               baseline_off_cmd="cd /repo && /venv/bin/python -m pytest -ra -q -p no:cacheprovider --timeout=900 --continue-on-collection-errors",
               source_commits=[], add_only=True),
    engines=[dict(name="lean-model", path="lean/", serves_properties=sorted(CLAIMED),
                  kind_free_text="Lean 4 library: executable model of cutadapt + property theorems; compiled line-protocol driver; Python correspondence harness and oracles in harness/")],
    checks=checks,
    notes="See DESIGN.md. ./check <id> quick|thorough; exit 0 held, 1 violation, 2 infrastructure failure.",
    not_applicable=[dict(property_id=p, reason="check under construction in this revision (model, theorems and deterministic simulation of runners.py are being built; see DESIGN.md §7); not claimed until it runs clean") for p in PROPS if p not in CLAIMED],
)
json.dump(man, open(os.path.join(VERIF, "MANIFEST.json"), "w"), indent=1)
print("claimed", sorted(CLAIMED))
