#!/bin/bash
# evaluate a freshly written seeded change on a fresh worktree of /repo's HEAD:
#   harness/newseed.sh <dir-with-seed_out (the author's scratch worktree)> <seed-id> <prop> [props…]
set -e
src=$1; id=$2; shift 2
wt=/tmp/newseed-$$
git -C /repo worktree add -q --detach $wt HEAD
( cd $src && git diff -- src ) > /tmp/newseed-$$.diff
git -C $wt apply /tmp/newseed-$$.diff
mkdir -p $wt/seed_out
cp $src/seed_out/demo.* $wt/seed_out/
[ -f $src/seed_out/notes.txt ] && cp $src/seed_out/notes.txt $wt/seed_out/
/venv/bin/python /verif/harness/seedtest.py $wt $id "$@" 2>&1 | tail -$(( $# + 1 )) | cut -c1-420
git -C /repo worktree remove --force $wt
rm -f /tmp/newseed-$$.diff
