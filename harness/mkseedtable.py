"""Write /verif/seeded/README.md: one row per seeded change (from seeded/*/meta.json)."""
import glob, json, os
V = os.path.dirname(os.path.dirname(os.path.abspath(__file__)))
rows = []
for m in sorted(glob.glob(os.path.join(V, "seeded", "*", "meta.json"))):
    d = json.load(open(m))
    res = d.get("check_results", {})
    caught = []
    for p, r in res.items():
        if r["exit"] == 1:
            rp = r.get("replay") or {}
            how = rp.get("signature") or rp.get("kind") or "violation"
            caught.append(f"{p}: {how}")
    missed = [p for p, r in res.items() if r["exit"] == 0]
    first = (d.get("needs_to_manifest") or "").strip().splitlines()
    what = " ".join(first[:2])[:220] if first else ""
    rows.append((d["id"], d["breaks"], "yes" if d.get("confirmed") else "NO", "; ".join(caught) or "-", ", ".join(missed) or "-", what))
out = ["# Seeded changes", "",
       "Each directory holds `patch.diff` (against /repo at the time it was written), the demonstration (`demo.py`/`demo.sh`: exits 1 with the change, 0 without), the",
       "author's `notes.txt` and `meta.json` (what was run). All changes were written by fresh sub-agents that saw only the property text and a scratch",
       "worktree, confirmed here (unedited test suite passes with the change; demonstration fails with it and passes without it) and then run against the",
       "checks with `harness/seedtest.py` / `harness/reseed.sh`. \"caught by\" names the check and the oracle signature (or `correspondence-differs` /",
       "`proof-broken` when only the tie to the code broke).", "",
       "| id | breaks | confirmed | caught by (quick tier) | not caught by | what it needs |", "|---|---|---|---|---|---|"]
for r in rows:
    out.append("| " + " | ".join(x.replace("|", "/") for x in r) + " |")
open(os.path.join(V, "seeded", "README.md"), "w").write("\n".join(out) + "\n")
print(len(rows), "seeds")
