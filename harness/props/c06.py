"""C06 — multi-core runs give the single-core result under every schedule.
Model: `Cutadapt/Runner.lean` (labelled transition system of runners.py). Correspondence: the unmodified ReaderProcess /
WorkerProcess / ParallelPipelineRunner run on a deterministic fake `multiprocessing` (harness/sim/fakemp.py); every logged
trace is mapped to model actions (harness/sim/tracemap.py) and replayed through `Runner.step` (driver op `runnertrace`).
Oracle: every output file byte-identical to the `-j 1` run and equal Statistics, for simulated schedules (random; systematic
in the thorough tier) and for real multi-process runs; `Statistics.__iadd__` merges compared over orders and groupings."""
import copy
import hashlib
import os
import itertools
import time

import clirun
import pipe
from core import Failure, correspond
from sim import fakemp
from sim import tracemap as T

LEVEL = "proof"

FOCI = [
    ("redirect", "filters", "adapters"),
    ("demux", "adapters", "nolinked"),
    ("info", "rest", "adapters"),
    ("paired", "redirect", "filters", "adapters"),
    ("paired", "demux", "adapters"),
    ("paired", "info", "pairfilter", "adapters"),
    ("quality", "polya", "trimn", "cut", "adapters"),
    ("revcomp", "adapters", "info", "times"),
    (),
]


# ------------------------------------------------------------------------------------------------
# inputs

def plain_adapters(argv):
    p1, p2 = [], []
    for tok in argv:
        if "=" in tok and tok[0] in "ab" and tok[1:2].isdigit():
            for part in tok.split("=", 1)[1].split("..."):
                (p1 if tok[0] == "a" else p2).append(part.split(";")[0].strip("^$X"))
    return p1, p2


def gen_c06_case(rng, focus=None, nreads=None):
    """random valid command line (pipe.gen_case), FASTQ, single-end or two-file paired input, 4..36 reads"""
    focus = rng.choice(FOCI) if focus is None else focus
    while True:
        case = pipe.gen_case(rng, focus=focus)
        if case["with_qual"]:
            break
    case["interleaved_in"] = False
    # adapter names need not be unique (`-a x=AAA -a x=CCC`): per-adapter statistics of the workers must be merged by position
    if rng.random() < 0.3:
        ix = [i for i, t in enumerate(case["argv"]) if t[:1] in "ab" and t[1:2].isdigit() and "=" in t]
        by_side = [[i for i in ix if case["argv"][i][0] == c] for c in "ab"]
        for group in by_side:
            if len(group) >= 2:
                i, j = rng.sample(group, 2)
                case["argv"][j] = case["argv"][i].split("=", 1)[0] + "=" + case["argv"][j].split("=", 1)[1]
    p1, p2 = plain_adapters(case["argv"])
    n = nreads or rng.randint(4, 36)
    case["reads1"], case["reads2"] = pipe.gen_reads(rng, n, p1, p2, case["paired"], True, "--revcomp" in case["argv"])
    case["focus"] = focus
    return case


def new_reads(rng, case, n):
    p1, p2 = plain_adapters(case["argv"])
    c = dict(case)
    c["reads1"], c["reads2"] = pipe.gen_reads(rng, n, p1, p2, case["paired"], True, "--revcomp" in case["argv"])
    return c


def choose_buffer(rng, inputs, names, target):
    """a --buffer-size that splits the input into about `target` chunks; returns (size, chunks) with a chunker that does not raise"""
    total = max(len(inputs[n]) for n in names)
    maxrec = max((len(rec) for n in names for rec in split_records(inputs[n])), default=1)
    buf = max(maxrec + 1, -(-total // target) + rng.randint(0, maxrec))
    for _ in range(6):
        n, rf, _why = T.count_chunks(inputs, names, buf)
        if not rf:
            return buf, n
        buf = buf * 2 + 16
    return None, None


def split_records(text):
    lines = text.split("\n")
    return ["\n".join(lines[i:i + 4]) + "\n" for i in range(0, len(lines) - 1, 4)]


def file_kinds(argv):
    kinds = []
    if any(a.startswith("--too-") or a.startswith("--untrimmed-") for a in argv):
        kinds.append("redirect")
    if any("{name" in a for a in argv):
        kinds.append("demux")
    for opt, k in (("--info-file", "info"), ("--rest-file", "rest"), ("--wildcard-file", "wildcard"), ("--interleaved", "interleaved-out")):
        if opt in argv:
            kinds.append(k)
    return kinds or ["main-only"]


# ------------------------------------------------------------------------------------------------
# canonical Statistics

def _end_stats(es):
    if es is None:
        return None
    return dict(errors=sorted([ln, e, c] for ln, d in es.errors.items() for e, c in d.items() if c),
                adjacent=sorted([k, v] for k, v in es.adjacent_bases.items() if v),
                seq=es.sequence, rate=es.max_error_rate, type=es.adapter_type)


def canon_stats(st):
    """canonical, order-independent form of a Statistics object (fields of pipe.canon_real + length histograms + as_json)"""
    if st is None:
        return None
    rl = st.read_length_statistics
    out = dict(n=st.n, paired=st.paired, bp=list(st.total_bp), written=rl.written_reads(), written_bp=list(rl.written_bp()),
               lengths=[sorted(c.items()) for c in rl.written_lengths()],
               filtered=sorted((k, v) for k, v in st.filtered.items() if v),
               quality_trimmed=[x or 0 for x in st.quality_trimmed_bp],
               poly_a=[sorted((k, v) for k, v in (d or {}).items() if v) for d in st.poly_a_trimmed_lengths],
               with_adapters=[x or 0 for x in st.with_adapters], reverse_complemented=st.reverse_complemented or 0, adapters=[])
    for side in (0, 1):
        lst = []
        for a in st.adapter_stats[side]:
            f, b = a.end_statistics()
            lst.append(dict(name=a.name, front=_end_stats(f), back=_end_stats(b), rc=a.reverse_complemented))
        out["adapters"].append(lst)
    try:
        import json as _json
        from cutadapt.json import dumps as _dumps
        out["json"] = _json.loads(_dumps(st.as_json()))
    except AssertionError:
        out["json"] = "AssertionError"
    return out


def stats_diff(a, b):
    if a is None or b is None:
        return [] if a == b else ["<missing>"]
    return [k for k in sorted(set(a) | set(b)) if a.get(k) != b.get(k)]


# ------------------------------------------------------------------------------------------------
# one command line: serial baseline + simulated schedules

GRAN = {True: "fine", False: "coarse", "por": "por"}
GRAN_TEXT = {True: "every primitive is a scheduling point", False: "blocking primitives are scheduling points",
             "por": "partial-order reduction: choices only between racing operations (Queue.put, sends that make a connection of main ready, wait and its result)"}


class Batch:
    """collects (driver line, impl) pairs of many traces and validates them in one driver call"""

    def __init__(self, ctx):
        self.ctx = ctx
        self.cases = []
        self.meta = []

    def add(self, line, impl, meta):
        self.cases.append((line, impl))
        self.meta.append(meta)

    def flush(self):
        if not self.cases:
            return []
        outs = correspond(self.ctx, "runnertrace", self.cases)
        self.ctx.traces_validated += len(self.cases)
        bad = [(c, o, m) for c, o, m in zip(self.cases, outs, self.meta) if c[1] != o]
        for (line, impl), o, meta in bad[:3]:
            self.ctx.notes.append(f"trace rejected/different: {line} | impl: {impl} | model: {o} | input: {str(meta)[:600]}")
        self.cases, self.meta = [], []
        return bad


def repro(argv, inputs, cores, bufsize, r, fine):
    return dict(kind="sim", argv=argv, inputs=inputs, cores=cores, buffer_size=bufsize, fine=fine,
                choices=[c for c, _, _ in r.choices])


def _decompressed(files):
    """compressed outputs are compared after decompression (the property's wording)"""
    return {n: (clirun.text_of(d).encode("latin-1") if n.endswith((".gz", ".bz2", ".xz", ".zst")) else d) for n, d in files.items()}


def compare_with_serial(ctx, base, base_stats, r, inp, prop="C06"):
    """byte comparison of every output file and of the statistics; returns True if equal"""
    ok = True
    if any(n.endswith((".gz", ".bz2", ".xz", ".zst")) for n in list(r.files) + list(base.files)) and base.status == 0 and r.status == 0:
        r.files, base.files = _decompressed(r.files), _decompressed(base.files)
    if (base.status == 0) != (r.status == 0):
        ctx.failures.append(Failure(f"{prop}/output-differs-from-single-core", "exit status differs from the single-core run", inp,
                                    dict(status=r.status, exc=r.exc, stderr=r.stderr[-300:]), dict(status=base.status, exc=base.exc)))
        return False
    if base.status != 0:
        return True
    if r.files != base.files:
        names = sorted(n for n in set(r.files) | set(base.files) if r.files.get(n) != base.files.get(n))
        n0 = names[0]
        ctx.failures.append(Failure(f"{prop}/output-differs-from-single-core", f"output file(s) {names} differ from the single-core run", inp,
                                    (r.files.get(n0) or b"<missing>")[:400].decode("latin-1"), (base.files.get(n0) or b"<missing>")[:400].decode("latin-1")))
        ok = False
    d = stats_diff(canon_stats(r.stats), base_stats)
    if d:
        cs = canon_stats(r.stats) or {}
        ctx.failures.append(Failure(f"{prop}/stats-differ", f"Statistics fields {d} differ from the single-core run", inp,
                                    {k: cs.get(k) for k in d[:4]}, {k: (base_stats or {}).get(k) for k in d[:4]}))
        ok = False
    return ok


def sim_one(ctx, batch, argv, inputs, names, cores, bufsize, nchunks, chooser, fine, base, base_stats, tags=()):
    r = fakemp.run_sim(argv, inputs, cores, chooser, fine=fine)
    if r.pruned:       # systematic exploration: equivalent to a schedule explored before
        return r, None
    inp = repro(argv, inputs, cores, bufsize, r, fine)
    if r.deadlock is not None:
        ctx.failures.append(Failure("C06/deadlock", "no process can move and the main process has not finished", inp, r.deadlock, None))
        return r, None
    if r.task_errors or r.protocol_errors or r.leaked_threads:
        ctx.notes.append(f"simulation anomaly: task_errors={r.task_errors} protocol={r.protocol_errors} leaked={r.leaked_threads} input={str(inp)[:400]}")
    ev = T.evaluate(r, cores, nchunks, False)
    if ev.handshake:
        ctx.count("handshake-fault")
        if r.status == 0:
            ctx.failures.append(Failure("C06/output-differs-from-single-core", "handshake failed but exit status 0", inp, 0, "non-zero"))
        return r, ev
    batch.add(ev.line, ev.impl, inp)
    compare_with_serial(ctx, base, base_stats, r, inp)
    if ev.not_prefix and base.status == 0:
        ctx.failures.append(Failure("C06/output-differs-from-single-core", f"files {ev.not_prefix} are not the concatenation of the chunks the workers sent",
                                    inp, None, None))
    m = ev.m
    ctx.count(f"workers:{cores}")
    ctx.count(f"chunks:{nchunks}")
    ctx.count("granularity:" + GRAN[fine])
    for t in tags:
        ctx.count(t)
    if nchunks >= 2 and m.workers_active() >= 2:
        ctx.nontriv(hashlib.sha1((f"{cores} " + " ".join(m.tokens)).encode()).hexdigest()[:16])
    return r, ev


def serial_base(argv, inputs):
    base = clirun.run_cli(argv, inputs, want_json=False, cores=1)
    return base, canon_stats(base.stats) if base.status == 0 else None


def random_schedules(ctx, n_traces, budget_s):
    rng = ctx.rng
    batch = Batch(ctx)
    t0 = time.time()
    done = 0
    while done < n_traces and time.time() - t0 < budget_s:
        case = gen_c06_case(rng)
        inputs, in_args = pipe.inputs_of(case)
        names = sorted(inputs)
        bufsize, nchunks = choose_buffer(rng, inputs, names, rng.randint(1, 6))
        if bufsize is None:
            ctx.count("skipped:no-buffer-size")
            continue
        argv = ["--buffer-size", str(bufsize)] + list(case["argv"]) + in_args
        base, base_stats = serial_base(argv, inputs)
        if base.status == 2:
            ctx.count("skipped:cmdline-error")
            continue
        if base.status != 0:
            ctx.count("serial-run-fails:" + (base.exc or f"exit{base.status}").split(":")[0])
        tags = ["input:" + ("paired" if case["paired"] else "single")] + ["files:" + k for k in file_kinds(case["argv"])]
        for _ in range(rng.randint(2, 5)):
            cores = rng.choice([2, 2, 3, 3, 4])
            fine = rng.random() < 0.8
            seed = rng.getrandbits(32)
            r, ev = sim_one(ctx, batch, argv, inputs, names, cores, bufsize, nchunks, fakemp.RandomChooser(seed), fine, base, base_stats, tags)
            done += 1
            if ev is not None and not ev.handshake and _ == 0:
                ctx.sample(dict(cores=cores, chunks=nchunks, argv=" ".join(case["argv"]), tokens=" ".join(ev.m.tokens)), cap=4)
    bad = batch.flush()
    ctx.notes.append(f"random schedules: {done} traces in {time.time() - t0:.1f}s, {len(bad)} not accepted by the model as-is")
    return done


# ------------------------------------------------------------------------------------------------
# systematic exploration

DFS_ARGV = ["-a", "a0=AAAGGGCCC", "-m", "24", "--too-short-output", "{dir}/ts.fastq", "--info-file", "{dir}/info.txt", "-o", "{dir}/out.fastq"]


def dfs_input(nchunks):
    """9 (or 6) fixed reads of equal record size, buffer size for exactly `nchunks` chunks"""
    import random
    rng = random.Random(11)
    per = 3 if nchunks > 1 else 1
    recs = []
    for i in range(per * nchunks):
        s = pipe.rs(rng, 30)
        if i % 3 == 0:
            s = s[:12] + "AAAGGGCCC" + s[21:]
        recs.append((f"r{i:02d}", s, "I" * 30))
    text = clirun.fastq(recs)
    reclen = len(text) // len(recs)
    inputs = {"in.fastq": text}
    for buf in list(range(reclen + 1, len(text) + reclen, 4)) + [2 * len(text), 4 * len(text) + 64]:
        n, rf, _ = T.count_chunks(inputs, ["in.fastq"], buf)
        if n == nchunks and not rf:
            return inputs, buf
    raise AssertionError("no buffer size found")


def systematic(ctx, workers, nchunks, budget_s, fine):
    inputs, buf = dfs_input(nchunks)
    argv = ["--buffer-size", str(buf)] + DFS_ARGV + ["{dir}/in.fastq"]
    base, base_stats = serial_base(argv, inputs)
    batch = Batch(ctx)
    distinct = set()
    tag = f"dfs:{workers}w{nchunks}c:" + GRAN[fine]

    def one(ch):
        return sim_one(ctx, batch, argv, inputs, ["in.fastq"], workers, buf, nchunks, ch, fine, base, base_stats, (tag,))

    n = 0
    pruned = 0
    for ch, (r, ev) in fakemp.dfs(one, budget_s=budget_s):
        if r.pruned:
            pruned += 1
            continue
        n += 1
        if getattr(r, "por_violations", None):
            ctx.notes.append(f"partial-order reduction assumption violated: {r.por_violations[:2]}")
        if ev is not None:
            distinct.add(" ".join(ev.m.tokens))
        if len(batch.cases) >= 4000:
            batch.flush()
    batch.flush()
    st = fakemp.dfs.state
    ctx.distribution[tag + ":schedules"] = n
    ctx.distribution[tag + ":distinct-traces"] = len(distinct)
    ctx.notes.append(f"systematic exploration {workers} workers x {nchunks} chunks ({GRAN_TEXT[fine]}): "
                     f"{n} complete schedules ({pruned} abandoned as equivalent), {len(distinct)} distinct model traces, "
                     f"{'tree exhausted' if st['exhausted'] else 'time budget ' + str(budget_s) + ' s reached'}"
                     + (f", {st['mismatch']} replay mismatches" if st["mismatch"] else ""))
    return n, len(distinct), st["exhausted"]


# ------------------------------------------------------------------------------------------------
# real processes

def index_n_case(rng):
    """default mode with two or three anchored adapters (the adapter index is built in every worker) and many reads whose adapter region holds N's
    at different places, with and without a further substitution: what a read gets must not depend on which reads its worker saw before"""
    k = rng.randint(2, 3)
    front = rng.random() < 0.5
    ads = [pipe.rs(rng, 10) for _ in range(k)]
    argv = []
    for i, a in enumerate(ads):
        argv += ["-g" if front else "-a", f"a{i}=" + ("^" + a if front else a + "$")]
    argv += ["-o", "{dir}/o1.fastq"]
    reads = []
    for i in range(rng.randint(30, 50)):
        a = list(rng.choice(ads))
        for _ in range(rng.choice([1, 1, 2])):
            a[rng.randrange(len(a))] = "N"
        if rng.random() < 0.6:
            j = rng.randrange(len(a))
            if a[j] != "N":
                a[j] = rng.choice([c for c in "ACGT" if c != a[j]])
        a = "".join(a)
        body = pipe.rs(rng, rng.randint(5, 15))
        s_ = a + body if front else body + a
        reads.append((f"r{i}", s_, "I" * len(s_)))
    return dict(argv=argv, paired=False, reads1=reads, reads2=None, with_qual=True, interleaved_in=False, focus=("index-n",))


def real_runs(ctx, n_runs, budget_s):
    rng = ctx.rng
    t0 = time.time()
    done = 0
    while done < n_runs and time.time() - t0 < budget_s:
        case = gen_c06_case(rng)
        if rng.random() < 0.2:
            case = index_n_case(rng)
            ctx.count("real-processes:index-with-N-reads")
        if case["paired"] and rng.random() < 0.4:
            # paired-end data in ONE interleaved input file (the reader process then chunks a single file; the workers still see pairs)
            if "--interleaved" not in case["argv"]:
                case["argv"] = ["--interleaved"] + list(case["argv"])
            case["interleaved_in"] = True
            ctx.count("real-processes:interleaved-input")
        inputs, in_args = pipe.inputs_of(case)
        names = sorted(inputs)
        bufsize, nchunks = choose_buffer(rng, inputs, names, rng.randint(2, 6))
        if bufsize is None:
            continue
        cargv = list(case["argv"])
        if rng.random() < 0.35:
            # compressed record outputs (the compressor runs in threads of its own when several cores are used); compared after decompression
            z = rng.choice([".gz", ".gz", ".bz2", ".xz"])
            cargv = [t + z if t.startswith("{dir}/") and t.endswith((".fastq", ".fasta")) else t for t in cargv]
            ctx.count("real-processes:compressed-outputs")
        argv = ["--buffer-size", str(bufsize)] + cargv + in_args
        base, base_stats = serial_base(argv, inputs)
        if base.status == 2:
            continue
        for cores in rng.sample([2, 3, 4], 2):
            r = clirun.run_cli(argv, inputs, want_json=False, cores=cores)
            ctx.evaluations += 1
            done += 1
            inp = dict(kind="real", argv=argv, inputs=inputs, cores=cores, buffer_size=bufsize)
            compare_with_serial(ctx, base, base_stats, r, inp)
            ctx.count(f"real-processes:cores:{cores}")
            for k in file_kinds(case["argv"]):
                ctx.count("real-processes:files:" + k)
            if nchunks >= 2 and base.status == 0:
                ctx.nontriv("real:" + hashlib.sha1(repr((argv, inputs, cores)).encode()).hexdigest()[:16])
    ctx.notes.append(f"real multi-process runs: {done} in {time.time() - t0:.1f}s")
    big_chunk_run(ctx)


def big_chunk_run(ctx):
    """chunks of the size the program uses by default and more (a --buffer-size of 18 MB, long reads): every worker handles several chunks, each
    of them larger than anything the small cases produce; outputs and info file must be those of the single-core run"""
    rng = ctx.rng
    unit = pipe.rs(rng, 200)
    ad = "AAAGGGCCCTTTGATC"
    recs = []
    for i in range(4300):
        s_ = pipe.rs(rng, 40) + unit * 49 + (ad if i % 3 == 0 else "") + pipe.rs(rng, 7)
        recs.append(f"@big{i}\n{s_}\n+\n{'I' * len(s_)}\n")
    text = "".join(recs)
    argv = ["--buffer-size", "18000000", "-a", "a0=" + ad, "--info-file", "{dir}/info.txt", "-o", "{dir}/o1.fastq", "{dir}/in.fastq"]
    inputs = {"in.fastq": text}
    base = clirun.run_cli(argv, inputs, want_json=False)
    r = clirun.run_cli(argv, inputs, want_json=False, cores=2)
    ctx.evaluations += 2
    ctx.count("real-processes:big-chunks")
    inp = dict(kind="real-big-chunks", argv=argv, reads=len(recs), read_length=len(recs[0]) // 2, input_bytes=len(text), cores=2)
    if base.status != 0 or r.status != 0:
        ctx.failures.append(Failure("C06/status-differs", "a run with 18 MB chunks fails", inp, [base.status, r.status], [0, 0]))
        return
    for fn in ("o1.fastq", "info.txt"):
        a, b = base.files.get(fn, b""), r.files.get(fn, b"")
        if a != b:
            ctx.failures.append(Failure("C06/output-differs-from-single-core", f"{fn} of the 2-core run with 18 MB chunks differs from the single-core run "
                                        f"({len(b)} bytes instead of {len(a)})", inp, len(b), len(a)))
            return
    ctx.nontriv("real-big-chunks")


def run_with_stdout(argv, inputs, cores, timeout=180):
    """`python -m cutadapt` of the scratch build as a process of its own (the main output goes to standard output, which an in-process run cannot
    capture); returns (status | 'timeout', stdout bytes, files)"""
    import shutil
    import signal
    import subprocess
    import sys
    import tempfile
    d = tempfile.mkdtemp(prefix="cv-c06-", dir="/var/tmp")
    try:
        for name, content in inputs.items():
            with open(os.path.join(d, name), "wb" if isinstance(content, bytes) else "w") as f:
                f.write(content)
        real = ["-j", str(cores)] + [a.replace("{dir}", d) for a in argv]
        p = subprocess.Popen([sys.executable, "-m", "cutadapt"] + real, stdin=subprocess.DEVNULL, stdout=subprocess.PIPE, stderr=subprocess.PIPE,
                             start_new_session=True, env=os.environ.copy())
        try:
            out, _ = p.communicate(timeout=timeout)
            status = p.returncode
        except subprocess.TimeoutExpired:
            status, out = "timeout", b""
        finally:
            try:
                os.killpg(p.pid, signal.SIGKILL)
            except (ProcessLookupError, PermissionError):
                pass
            if status == "timeout":
                p.wait()
        files = {}
        for fn in sorted(os.listdir(d)):
            if fn not in inputs:
                with open(os.path.join(d, fn), "rb") as f:
                    files[fn] = f.read()
        return status, out, files
    finally:
        shutil.rmtree(d, ignore_errors=True)


def stdout_case(rng):
    """main output on standard output (no -o) next to another output file: the reader/worker/writer plumbing must send every stream to its own sink"""
    ad = "GATTACAGATTC"
    n = rng.randint(40, 80)
    recs, lens = [], []
    for i in range(n):
        s_ = pipe.rs(rng, rng.randint(3, 40), "ACT") + (ad if rng.random() < 0.4 else "")
        recs.append((f"r{i}", s_, "".join(chr(33 + rng.randint(5, 40)) for _ in s_)))
    kind = rng.choice(["too-short", "too-long", "untrimmed", "info", "rest", "short+info"])
    L = rng.randint(10, 25)
    argv = {"too-short": ["-m", str(L), "--too-short-output", "{dir}/side.fastq"],
            "too-long": ["-M", str(L), "--too-long-output", "{dir}/side.fastq"],
            "untrimmed": ["-a", ad, "--untrimmed-output", "{dir}/side.fastq"],
            "info": ["-a", ad, "--info-file", "{dir}/info.txt"],
            "rest": ["-a", ad, "--rest-file", "{dir}/rest.txt"],
            "short+info": ["-a", ad, "-m", str(L), "--too-short-output", "{dir}/side.fastq", "--info-file", "{dir}/info.txt"]}[kind]
    text = "".join(f"@{n_}\n{s_}\n+\n{q_}\n" for n_, s_, q_ in recs)
    bufsize = max(400, len(text) // rng.randint(3, 7))
    argv = ["--buffer-size", str(bufsize), "-e", "0", "-O", "12"] + argv + ["--json", "{dir}/report.json", "{dir}/in.fastq"]
    return dict(kind=kind, L=L, ad=ad, argv=argv, inputs={"in.fastq": text}, recs=recs)


def _fq(data):
    lines = data.decode("latin-1").split("\n")
    return [(lines[i][1:].split()[0], lines[i + 1]) for i in range(0, len(lines) - 3, 4)]


def stdout_runs(ctx, prop="C06", n=None):
    """C06: the outputs of a run with worker processes equal those of the single-core run also when the main output is standard output;
    C04 (prop='C04'): the written reads / base pairs of the report are what standard output actually holds.
    The expected content of every sink is also recomputed from the reads (exact adapter copies, -e 0, inserts without G)."""
    import json
    rng = ctx.rng
    for _ in range(n if n is not None else ctx.scale(6, 40)):
        c = stdout_case(rng)
        cores = rng.choice([2, 3])
        st1, out1, f1 = run_with_stdout(c["argv"], c["inputs"], 1)
        stn, outn, fn_ = run_with_stdout(c["argv"], c["inputs"], cores)
        ctx.evaluations += 2
        ctx.count(f"stdout-main-output:{c['kind']}")
        inp = dict(kind="real-stdout", argv=c["argv"], inputs=c["inputs"], cores=cores, case_kind=c["kind"], L=c["L"], ad=c["ad"])
        if st1 != 0 or stn != 0:
            ctx.failures.append(Failure(f"{prop}/status-differs", "a run with the main output on standard output fails or hangs", inp, [st1, stn], [0, 0]))
            continue
        # expected sinks, from the reads
        main, side = [], []
        for n_, s_, q_ in c["recs"]:
            p_ = s_.find(c["ad"])
            t_ = s_[:p_] if p_ >= 0 and "-a" in c["argv"] else s_
            if c["kind"] in ("too-short", "short+info") and len(t_) < c["L"]:
                side.append((n_, t_))
            elif c["kind"] == "too-long" and len(t_) > c["L"]:
                side.append((n_, t_))
            elif c["kind"] == "untrimmed" and p_ < 0:
                side.append((n_, t_))
            else:
                main.append((n_, t_))
        for cores_, out, files in ((1, out1, f1), (cores, outn, fn_)):
            got_main, got_side = _fq(out), _fq(files.get("side.fastq", b""))
            if prop == "C06" and (got_main != main or got_side != side):
                ctx.failures.append(Failure("C06/stream-in-wrong-sink", f"with {cores_} core(s), standard output / the redirect file do not hold the reads that belong "
                                            "there (in input order)", dict(inp, cores=cores_), dict(stdout=[x[0] for x in got_main][:8], side=[x[0] for x in got_side][:8]),
                                            dict(stdout=[x[0] for x in main][:8], side=[x[0] for x in side][:8])))
                break
            rep = json.loads(files.get("report.json", b"{}") or b"{}")
            if prop == "C04":
                want = (rep.get("read_counts", {}).get("output"), rep.get("basepair_counts", {}).get("output"))
                have = (len(got_main), sum(len(x[1]) for x in got_main))
                if want != have:
                    ctx.failures.append(Failure("C04/written-differs-from-stdout", f"with {cores_} core(s), reads / base pairs written according to the report are not what "
                                                "standard output holds", dict(inp, cores=cores_), dict(report=want), dict(stdout=have)))
                    break
        else:
            if prop == "C06":
                for k in sorted(set(f1) | set(fn_)):
                    if k != "report.json" and f1.get(k) != fn_.get(k):
                        ctx.failures.append(Failure("C06/output-differs-from-single-core", f"{k} of the {cores}-core run differs from the single-core run "
                                                    "(main output on standard output)", inp, len(fn_.get(k, b"")), len(f1.get(k, b""))))
                        break
                else:
                    if out1 != outn:
                        ctx.failures.append(Failure("C06/output-differs-from-single-core", "standard output differs from the single-core run", inp, len(outn), len(out1)))
                    else:
                        ctx.nontriv("real-stdout:" + hashlib.sha1(repr(c["argv"]).encode()).hexdigest()[:12])
            else:
                ctx.nontriv(("stdout-written", tuple(c["argv"])))


# ------------------------------------------------------------------------------------------------
# Statistics.__iadd__

def merged(parts, shape, identity):
    """shape 'left': ((p0+p1)+p2)…; 'right': p0+(p1+(p2…)); all on deep copies"""
    from cutadapt.report import Statistics
    ps = [copy.deepcopy(p) for p in parts]
    if shape == "left":
        acc = Statistics() if identity else ps.pop(0)
        for p in ps:
            acc += p
        return acc
    acc = ps.pop()
    while ps:
        left = ps.pop()
        left += acc
        acc = left
    if identity:
        z = Statistics()
        z += acc
        acc = z
    return acc


FILTER_IDS = {}


def summary_token(st):
    """one `Statistics` object in the line protocol of the driver op `statsmerge` (tables in dictionary order)"""
    rl = st.read_length_statistics

    def table(d):
        return "|".join(f"{k}:{v}" for k, v in d) or "-"
    filt = [(FILTER_IDS.setdefault(k, len(FILTER_IDS)), v) for k, v in st.filtered.items()]
    pa = [list((d or {}).items()) for d in st.poly_a_trimmed_lengths]
    nums = [st.n, st.total_bp[0], st.total_bp[1], rl.written_reads(), rl.written_bp()[0], rl.written_bp()[1],
            st.quality_trimmed_bp[0] or 0, st.quality_trimmed_bp[1] or 0, st.with_adapters[0] or 0, st.with_adapters[1] or 0,
            st.reverse_complemented or 0]
    return ",".join(str(x) for x in nums) + ";" + table(filt) + ";" + table(pa[0]) + ";" + table(pa[1])


def adapters_token(lst):
    """a list of `AdapterStatistics` objects for the driver op `adaptermerge` (tables sorted: canonical form)"""
    def errs(es):
        if es is None:
            return "-"
        t = sorted((ln, e, c) for ln, d in es.errors.items() for e, c in d.items() if c)
        return "|".join(f"{ln}.{e}:{c}" for ln, e, c in t) or "-"

    def adj(es):
        if es is None:
            return "-"
        t = sorted(((k.encode().hex() or "-"), v) for k, v in es.adjacent_bases.items() if v)
        return "|".join(f"{k}:{v}" for k, v in t) or "-"
    out = []
    for a in lst:
        f, b = a.end_statistics()
        out.append(f"{a.reverse_complemented};{errs(f)};-;{errs(b)};{adj(b)}")
    return "/".join(out) or "-"


def merge_correspondence(ctx, parts):
    """`a += b` of the real Statistics objects (and of their per-adapter statistics) against the model's `Summary.merge` /
    `mergeAdapterStats`, for every ordered pair of the parts and for `Statistics() += a`"""
    from cutadapt.report import Statistics
    cs, ca = [], []
    pairs = [(a, b) for a in parts for b in parts if a is not b] + [(Statistics(), parts[0]), (parts[0], Statistics())]
    for a, b in pairs:
        a2, b2 = copy.deepcopy(a), copy.deepcopy(b)
        ta, tb = summary_token(a2), summary_token(b2)
        aa = [adapters_token(a2.adapter_stats[i]) for i in (0, 1)]
        ab = [adapters_token(b2.adapter_stats[i]) for i in (0, 1)]
        try:
            a2 += b2
        except Exception as e:
            ctx.count("stats-merge:exception:" + type(e).__name__)
            continue
        cs.append((f"statsmerge {ta} {tb}", summary_token(a2)))
        for i in (0, 1):
            ca.append((f"adaptermerge {aa[i]} {ab[i]}", adapters_token(a2.adapter_stats[i])))
    correspond(ctx, "statsmerge", cs)
    correspond(ctx, "adaptermerge", ca)


def stats_merge(ctx, n_cases):
    rng = ctx.rng
    done = 0
    tries = 0
    while done < n_cases and tries < n_cases * 4:
        tries += 1
        case = gen_c06_case(rng, nreads=rng.randint(3, 10))
        parts, inputs_all = [], []
        for _ in range(3):
            c = new_reads(rng, case, rng.randint(0, 8))
            inputs, in_args = pipe.inputs_of(c)
            res = clirun.run_cli(list(case["argv"]) + in_args, inputs, want_json=False, cores=1)
            if res.status != 0:
                break
            parts.append(res.stats)
            inputs_all.append(inputs)
        if len(parts) < 3:
            continue
        done += 1
        merge_correspondence(ctx, parts)
        ref = None
        variants = []
        for perm in itertools.permutations(range(3)):
            for shape in ("left", "right"):
                for identity in (False, True):
                    variants.append((perm, shape, identity))
        for perm, shape, identity in variants:
            try:
                c = canon_stats(merged([parts[i] for i in perm], shape, identity))
            except Exception as e:  # incompatible although the command line is the same
                c = {"exception": f"{type(e).__name__}: {e}"}
            ctx.evaluations += 1
            if ref is None:
                ref = c
                continue
            d = stats_diff(c, ref)
            if d:
                ctx.failures.append(Failure("C06/stats-merge-not-commutative",
                                            f"merging three Statistics objects in order {perm} ({shape}-nested{', starting from Statistics()' if identity else ''}) "
                                            f"differs from ((0+1)+2) in {d}",
                                            dict(kind="merge", argv=case["argv"], inputs=inputs_all, order=list(perm), shape=shape, identity=identity),
                                            {k: c.get(k) for k in d[:3]}, {k: ref.get(k) for k in d[:3]}))
                break
        ctx.count("stats-merge:cases")
        if ref and ref.get("n", 0) > 0 and any(ref["adapters"]):
            ctx.nontriv("merge:" + hashlib.sha1(repr(ref).encode()).hexdigest()[:16])


# ------------------------------------------------------------------------------------------------

def run(ctx):
    pipe.patch_prefilter()
    ctx.rule = ("random valid command lines (FASTQ, single-end or two-file paired; redirect, demultiplexed, info/rest/wildcard files) x 1-6 chunks "
                "(--buffer-size) x 2-4 workers x random schedules of the unmodified runners.py on a deterministic fake multiprocessing, each trace "
                "replayed through the Lean transition system and compared byte-wise with -j 1; real multi-process runs; Statistics merges in all "
                "orders/groupings; non-trivial = distinct action trace in which >= 2 workers each processed a chunk (or a real run / merge with >= 2 chunks / adapters)")
    random_schedules(ctx, ctx.scale(1500, 10000), ctx.scale(45, 1200))
    systematic(ctx, 2, 3, ctx.scale(8, 120), fine="por")
    if ctx.tier == "thorough":
        # exhausts in about 10 minutes (75842 schedules); VERIF_DFS_BUDGET (seconds) overrides
        systematic(ctx, 3, 2, int(os.environ.get("VERIF_DFS_BUDGET", "900")), fine="por")
        systematic(ctx, 2, 3, 30, fine=True)
        systematic(ctx, 3, 2, 30, fine=True)
    real_runs(ctx, ctx.scale(40, 600), ctx.scale(15, 600))
    stdout_runs(ctx)
    stats_merge(ctx, ctx.scale(20, 200))


def extended_search(ctx):
    random_schedules(ctx, 3000, 240)
    real_runs(ctx, 100, 120)


def replay(ctx, rp):
    pipe.patch_prefilter()
    fl = rp.get("failure") or {}
    inp = fl.get("input") or {}
    kind = inp.get("kind")
    if kind == "sim":
        base, base_stats = serial_base(inp["argv"], inp["inputs"])
        r = fakemp.run_sim(inp["argv"], inp["inputs"], inp["cores"], fakemp.ScriptChooser(inp["choices"]), fine=inp.get("fine", True))
        if r.deadlock is not None:
            ctx.failures.append(Failure("C06/deadlock", "deadlock", inp, r.deadlock, None))
        else:
            compare_with_serial(ctx, base, base_stats, r, inp)
        n, rf, _ = T.count_chunks(inp["inputs"], sorted(inp["inputs"]), inp["buffer_size"])
        ev = T.evaluate(r, inp["cores"], n, rf)
        print("trace:", ev.line)
        print("status:", r.status, "deadlock:", r.deadlock)
    elif kind == "real":
        base, base_stats = serial_base(inp["argv"], inp["inputs"])
        r = clirun.run_cli(inp["argv"], inp["inputs"], want_json=False, cores=inp["cores"])
        compare_with_serial(ctx, base, base_stats, r, inp)
    elif kind == "real-stdout":
        st1, out1, f1 = run_with_stdout(inp["argv"], inp["inputs"], 1)
        stn, outn, fn_ = run_with_stdout(inp["argv"], inp["inputs"], inp["cores"] if inp["cores"] > 1 else 2)
        if (st1, stn) != (0, 0) or out1 != outn or any(f1.get(k) != fn_.get(k) for k in set(f1) | set(fn_) if k != "report.json"):
            ctx.failures.append(Failure("C06/output-differs-from-single-core", "standard output or a file differs from the single-core run", inp, [st1, stn], None))
    elif kind == "merge":
        parts = []
        for inputs in inp["inputs"]:
            in_args = ["{dir}/" + n for n in sorted(inputs)]
            parts.append(clirun.run_cli(list(inp["argv"]) + in_args, inputs, want_json=False, cores=1).stats)
        a = canon_stats(merged(parts, "left", False))
        b = canon_stats(merged([parts[i] for i in inp["order"]], inp["shape"], inp["identity"]))
        if stats_diff(a, b):
            ctx.failures.append(Failure("C06/stats-merge-not-commutative", "merge order matters", inp, stats_diff(a, b), None))
    else:
        diffs = rp.get("correspondence_diffs") or []
        if diffs:
            from core import run_driver
            print("model on the recorded trace:", run_driver([diffs[0]["line"]])[0], "| implementation:", diffs[0]["impl"])
            return 1 if run_driver([diffs[0]["line"]])[0] != diffs[0]["impl"] else 0
        print("nothing to replay; re-run the check")
        return 2
    print("oracle failures:", [f.signature for f in ctx.failures])
    return 1 if ctx.failures else 0
