"""C05 — paired-end outputs stay synchronised; pairs are filtered as a unit.
Correspondence: pipeline level, paired. Oracle: record-by-record id agreement of every file pair / interleaved file; pair decision recomputed
for length filters and the untrimmed filters; --pair-adapters both-or-neither."""
import pipe
import pipeprop
from pipeprop import rid, case_input
from core import Failure

LEVEL = "proof"
FOCUS = ("paired", "filters", "redirect", "pairfilter", "pair_adapters", "adapters")


def sync_oracle(ctx, case, res, real):
    if "error" in real:
        if real["error"] != "cmdline":
            pipeprop.crash_failures(ctx, "C05", case, real)
        return False
    if not case["paired"]:
        return False
    inp = case_input(case)
    sides = {}
    for fn, side, recs in pipeprop.output_roles(case, real):
        key = fn if not fn.rsplit(".", 1)[0].endswith("2") else fn.rsplit(".", 1)[0][:-1] + "1." + fn.rsplit(".", 1)[1]
        sides.setdefault(key, {})[side] = recs
    order = [rid(r[0]) for r in case["reads1"]]
    seen = []
    for key, d in sides.items():
        a, b = d.get(0, []), d.get(1, [])
        ia, ib = [rid(r[0]) for r in a], [rid(r[0]) for r in b]
        if any(o in case["argv"] for o in ("-x", "--rename")):
            break
        if ia != ib:
            ctx.failures.append(Failure("C05/out-of-sync", f"R1 and R2 records of {key} are not the same pairs in the same order", inp, [ia, ib], None))
        pos = [order.index(x) for x in ia if x in order]
        if pos != sorted(pos):
            ctx.failures.append(Failure("C05/order", "records are not in input order", inp, ia, order))
        seen += ia
        if a:
            ctx.nontriv(("file", key, tuple(ia)))
    if len(seen) != len(set(seen)):
        ctx.failures.append(Failure("C05/pair-in-two-files", "a pair was written to more than one destination", inp, seen, None))
    return True


def decision_case(ctx):
    """no read modification: -m/-M with LEN, LEN:, :LEN2, LEN:LEN2 x pair-filter; expected destination recomputed"""
    rng = ctx.rng
    r1, r2 = pipe.gen_reads(rng, rng.randint(4, 9), [], [], True)
    # zero-length mates (an adapter dimer after trimming, an empty record in the input) on either side
    r1 = [(n_, "", "") if rng.random() < 0.15 else (n_, s_, q_) for n_, s_, q_ in r1]
    r2 = [(n_, "", "") if rng.random() < 0.15 else (n_, s_, q_) for n_, s_, q_ in r2]
    mode = rng.choice([None, "any", "both", "first"])
    a, b = rng.randint(0, 30), rng.randint(0, 30)
    # a bound of 0 is a bound: that side takes part in the pair decision (and never fails -m, always... never exceeds -M only for empty reads)
    if rng.random() < 0.25:
        a = 0
    if rng.random() < 0.25:
        b = 0
    form = rng.choice(["a", "a:", ":b", "a:b", "a:b"])
    spec = {"a": f"{a}", "a:": f"{a}:", ":b": f":{b}", "a:b": f"{a}:{b}"}[form]
    which = rng.choice(["-m", "-M"])
    argv = ["--no-index", which, spec]
    if rng.random() < 0.35:
        # the text-file writers sit in front of the filters (wrapped for paired-end data); they must pass every pair on
        argv += ["-a", "a0=AAAGGGCCC", "--action", "none", rng.choice(["--info-file", "--rest-file", "--wildcard-file"]), "{dir}/text.txt"]
    red = rng.random() < 0.6
    if red:
        n = "too-short" if which == "-m" else "too-long"
        argv += [f"--{n}-output", "{dir}/red1.fastq", f"--{n}-paired-output", "{dir}/red2.fastq"]
    if mode:
        argv += ["--pair-filter", mode]
    argv += ["-o", "{dir}/o1.fastq", "-p", "{dir}/o2.fastq"]
    t1 = a if form in ("a", "a:", "a:b") else None
    t2 = a if form == "a" else b if form in (":b", "a:b") else None
    return dict(argv=argv, paired=True, reads1=r1, reads2=r2, with_qual=True, interleaved_in=False,
                decision=dict(which=which, t1=t1, t2=t2, mode=mode or "any", red=red))


def decision_oracle(ctx, case, real):
    d = case["decision"]
    if "error" in real:
        return
    test = (lambda ln, t: ln < t) if d["which"] == "-m" else (lambda ln, t: ln > t)
    main = [rid(r[0]) for r in real["files"].get("o1.fastq", [])]
    redf = [rid(r[0]) for r in real["files"].get("red1.fastq", [])]
    for (n1, s1, _), (n2, s2, _) in zip(case["reads1"], case["reads2"]):
        p1 = None if d["t1"] is None else test(len(s1), d["t1"])
        p2 = None if d["t2"] is None else test(len(s2), d["t2"])
        if p1 is None:
            f = p2
        elif p2 is None:
            f = p1
        else:
            f = {"any": p1 or p2, "both": p1 and p2, "first": p1}[d["mode"]]
        k = rid(n1)
        ok = (k in main) != f and ((k in redf) == (f and d["red"]))
        if not ok:
            ctx.failures.append(Failure("C05/pair-decision", "pair filtered/kept against the documented combination of the per-read criteria",
                                        case_input(case), dict(pair=k, in_main=k in main, in_redirect=k in redf), dict(filtered=f, decision=d)))
        if f:
            ctx.nontriv(("decision", k, len(s1), len(s2), str(d)))


def two_bounds_case(ctx):
    """-m and -M together, each possibly one-sided: the two filters are independent of each other (what -m looks at must not leak into -M)"""
    rng = ctx.rng
    r1, r2 = [], []
    for i in range(rng.randint(5, 9)):
        s1, s2 = pipe.rs(rng, rng.randint(0, 24)), pipe.rs(rng, rng.randint(0, 24))
        r1.append((f"r{i} 1:N:0:1", s1, "I" * len(s1)))
        r2.append((f"r{i} 2:N:0:1", s2, "I" * len(s2)))

    def bound(lo, hi):
        form = rng.choice(["a", "a:", ":b", "a:b"])
        a, b = rng.randint(lo, hi), rng.randint(lo, hi)
        txt = {"a": f"{a}", "a:": f"{a}:", ":b": f":{b}", "a:b": f"{a}:{b}"}[form]
        return txt, (a if form != ":b" else None), (a if form == "a" else b if form in (":b", "a:b") else None)
    mtxt, m1, m2 = bound(2, 12)
    Mtxt, M1, M2 = bound(10, 22)
    mode = rng.choice([None, "any", "both", "first", "both", "first"])
    argv = ["--no-index", "-m", mtxt, "-M", Mtxt]
    if rng.random() < 0.5:
        argv = ["--no-index", "-M", Mtxt, "-m", mtxt]
    if mode:
        argv += ["--pair-filter", mode]
    argv += ["-o", "{dir}/o1.fastq", "-p", "{dir}/o2.fastq"]
    return dict(argv=argv, paired=True, reads1=r1, reads2=r2, with_qual=True, interleaved_in=False,
                two_bounds=dict(m1=m1, m2=m2, M1=M1, M2=M2, mode=mode or "any"))


def two_bounds_oracle(ctx, case, real):
    if "error" in real:
        return
    d = case["two_bounds"]

    def decide(p1, p2):
        if p1 is None:
            return p2
        if p2 is None:
            return p1
        return {"any": p1 or p2, "both": p1 and p2, "first": p1}[d["mode"]]
    main = [rid(r[0]) for r in real["files"].get("o1.fastq", [])]
    for (n1, s1, _), (n2, s2, _) in zip(case["reads1"], case["reads2"]):
        short = decide(None if d["m1"] is None else len(s1) < d["m1"], None if d["m2"] is None else len(s2) < d["m2"])
        long_ = decide(None if d["M1"] is None else len(s1) > d["M1"], None if d["M2"] is None else len(s2) > d["M2"])
        f = bool(short) or bool(long_)
        k = rid(n1)
        if (k in main) == f:
            ctx.failures.append(Failure("C05/pair-decision", "with -m and -M together a pair is filtered/kept against the documented combination of the per-read "
                                        "criteria of each filter (a one-sided bound looks at that side only)", case_input(case),
                                        dict(pair=k, in_main=k in main), dict(too_short=short, too_long=long_, bounds=d)))
        if f:
            ctx.nontriv(("two-bounds", k, len(s1), len(s2), str(d)))


def criteria_case(ctx):
    """one filter criterion (CASAVA flag, N count, expected errors), mates that disagree, every --pair-filter mode"""
    rng = ctx.rng
    crit = rng.choice(["casava", "max-n", "max-ee"])
    r1, r2 = [], []
    for i in range(rng.randint(4, 8)):
        def one(flag):
            ln = rng.randint(5, 25)
            s = pipe.rs(rng, ln, rng.choice(["ACGT", "ACGTN", "ACNN"]))
            q = "".join(chr(33 + rng.choice([2, 20, 40])) for _ in s)
            return s, q
        f1, f2 = rng.choice("YN"), rng.choice("YN")
        s, q = one(f1)
        r1.append((f"r{i} 1:{f1}:0:1", s, q))
        s, q = one(f2)
        r2.append((f"r{i} 2:{f2}:0:1", s, q))
    argv = ["--no-index"]
    thr = None
    if crit == "casava":
        argv.append("--discard-casava")
    elif crit == "max-n":
        thr = rng.choice([0, 1, 2, 3])
        argv += ["--max-n", str(thr)]
    else:
        thr = rng.choice([0.5, 1.0, 2.0, 4.0])
        argv += ["--max-ee", str(thr)]
    mode = rng.choice([None, "any", "both", "first"])
    if mode:
        argv += ["--pair-filter", mode]
    argv += ["-o", "{dir}/o1.fastq", "-p", "{dir}/o2.fastq"]
    return dict(argv=argv, paired=True, reads1=r1, reads2=r2, with_qual=True, interleaved_in=False, criteria=dict(crit=crit, thr=thr, mode=mode or "any"))


def criteria_oracle(ctx, case, real):
    if "error" in real:
        return
    c = case["criteria"]

    def pred(name, s, q):
        if c["crit"] == "casava":
            return name.split(" ", 1)[1][1:4] == ":Y:"
        if c["crit"] == "max-n":
            return s.lower().count("n") > c["thr"] if c["thr"] >= 1 else (len(s) > 0 and s.lower().count("n") / len(s) > c["thr"])
        return sum(10 ** (-(ord(x) - 33) / 10) for x in q) > c["thr"]
    main = [rid(r[0]) for r in real["files"].get("o1.fastq", [])]
    for (n1, s1, q1), (n2, s2, q2) in zip(case["reads1"], case["reads2"]):
        p1, p2 = pred(n1, s1, q1), pred(n2, s2, q2)
        if c["crit"] == "max-ee":
            e1 = sum(10 ** (-(ord(x) - 33) / 10) for x in q1)
            e2 = sum(10 ** (-(ord(x) - 33) / 10) for x in q2)
            if min(abs(e1 - c["thr"]), abs(e2 - c["thr"])) < 1e-9:
                continue
        f = {"any": p1 or p2, "both": p1 and p2, "first": p1}[c["mode"]]
        k = rid(n1)
        if (k in main) == f:
            ctx.failures.append(Failure("C05/pair-decision-criterion", f"pair decision for {c['crit']} differs from the documented combination ({c['mode']}) of the "
                                        "per-read criteria", case_input(case), dict(pair=k, in_main=k in main), dict(r1=p1, r2=p2, filtered=f)))
        if p1 != p2:
            ctx.nontriv(("crit", c["crit"], c["mode"], k, s1, s2))


def untrimmed_case(ctx):
    """adapters on one side only + untrimmed filter: 'both' is forced"""
    rng = ctx.rng
    side = rng.choice([1, 2])
    r1, r2 = pipe.gen_reads(rng, rng.randint(4, 9), ["GATTACAGA"] if side == 1 else [], ["GATTACAGA"] if side == 2 else [], True)
    argv = ["--no-index", "-a" if side == 1 else "-A", "a0=GATTACAGA"]
    opt = rng.choice(["--discard-untrimmed", "untrimmed-output"])
    if opt == "--discard-untrimmed":
        argv.append(opt)
    else:
        argv += ["--untrimmed-output", "{dir}/ut1.fastq", "--untrimmed-paired-output", "{dir}/ut2.fastq"]
    if rng.random() < 0.6:
        argv += ["--pair-filter", rng.choice(["any", "both", "first"])]
    inter = rng.random() < 0.4
    if inter:
        # interleaved layout: one main output, and `--untrimmed-output` alone is the (interleaved) untrimmed file
        argv = [t for t in argv if t not in ("--untrimmed-paired-output", "{dir}/ut2.fastq")]
        argv += ["--interleaved", "-o", "{dir}/o1.fastq"]
    else:
        argv += ["-o", "{dir}/o1.fastq", "-p", "{dir}/o2.fastq"]
    return dict(argv=argv, paired=True, reads1=r1, reads2=r2, with_qual=True, interleaved_in=inter, untrimmed=dict(side=side, opt=opt))


def untrimmed_oracle(ctx, case, real):
    import cutadapt.adapters as A
    if "error" in real:
        return
    ad = A.BackAdapter("GATTACAGA", max_errors=0.1, min_overlap=3)
    side = case["untrimmed"]["side"]
    main = [rid(r[0]) for r in real["files"].get("o1.fastq", [])]
    for (n1, s1, _), (n2, s2, _) in zip(case["reads1"], case["reads2"]):
        trimmed = ad.match_to(s1 if side == 1 else s2) is not None
        k = rid(n1)
        if (k in main) != trimmed:
            ctx.failures.append(Failure("C05/untrimmed-both-forced", "with adapters on one side only the untrimmed filters must use 'both' (pair is untrimmed iff "
                                        "the side with adapters is untrimmed)", case_input(case), dict(pair=k, in_main=k in main), dict(trimmed=trimmed)))


def trimmed_filter_case(ctx):
    """adapters for both reads + a trimmed/untrimmed filter (+ --pair-filter, + --revcomp): the pair decision combines 'an adapter was found in
    this mate' of the two mates *as they are written* (with paired --revcomp: after the swap)"""
    rng = ctx.rng
    X, Y = "AAAGGGCCCTTTG", "TTTGGGAACCATC"
    r1, r2 = [], []
    for i in range(rng.randint(6, 10)):
        b1, b2 = pipe.rs(rng, rng.randint(8, 16)), pipe.rs(rng, rng.randint(8, 16))
        k = rng.random()
        # as given: R1 carries X / R2 carries Y; "the other way round": R1 carries Y and R2 carries X (the swapped orientation wins); one-sided; none
        if k < 0.3:
            s1, s2 = b1 + X + pipe.rs(rng, 2), b2 + Y
        elif k < 0.6:
            s1, s2 = b1 + Y + pipe.rs(rng, 2), b2 + X
        elif k < 0.7:
            s1, s2 = b1 + X, b2
        elif k < 0.8:
            s1, s2 = b1, b2 + Y
        elif k < 0.9:
            s1, s2 = b1 + Y, b2
        else:
            s1, s2 = b1, b2
        r1.append((f"r{i}", s1, "I" * len(s1)))
        r2.append((f"r{i}", s2, "5" * len(s2)))
    argv = ["--no-index"] if rng.random() < 0.5 else []
    argv += ["-a", "a0=" + X, "-A", "b0=" + Y]
    if rng.random() < 0.7:
        argv.append("--revcomp")
    filt = rng.choice(["--discard-untrimmed", "--discard-trimmed", "untrimmed-output"])
    fargs = [filt] if filt != "untrimmed-output" else ["--untrimmed-output", "{dir}/ut1.fastq", "--untrimmed-paired-output", "{dir}/ut2.fastq"]
    mode = rng.choice([None, "any", "both", "first"])
    if mode:
        fargs += ["--pair-filter", mode]
    outs = ["-o", "{dir}/o1.fastq", "-p", "{dir}/o2.fastq"]
    return dict(argv=argv + fargs + outs, paired=True, reads1=r1, reads2=r2, with_qual=True, interleaved_in=False,
                tf=dict(base=argv + outs, filt=filt, mode=mode or "any"))


def trimmed_filter_oracle(ctx, case, real):
    if "error" in real or "tf" not in case:
        return
    tf = case["tf"]
    _, plain = pipe.run_real(dict(case, argv=tf["base"]))
    if "error" in plain:
        return
    src = {rid(a[0]): (a[1], b[1]) for a, b in zip(case["reads1"], case["reads2"])}
    exp_main, exp_ut = [], []
    for a, b in zip(plain["files"].get("o1.fastq", []), plain["files"].get("o2.fastq", [])):
        s1, s2 = src[rid(a[0])]
        if a[0].endswith(" rc"):
            s1, s2 = s2, s1
        # (the adapters remove at least one base, so a mate was trimmed exactly if its sequence differs from the mate it stems from)
        t1, t2 = a[1] != s1, b[1] != s2
        h1, h2 = (t1, t2) if tf["filt"] == "--discard-trimmed" else (not t1, not t2)
        hit = (h1 or h2) if tf["mode"] == "any" else (h1 and h2) if tf["mode"] == "both" else h1
        if not hit:
            exp_main.append(rid(a[0]))
        elif tf["filt"] == "untrimmed-output":
            exp_ut.append(rid(a[0]))
    got_main = [rid(r[0]) for r in real["files"].get("o1.fastq", [])]
    got_ut = [rid(r[0]) for r in real["files"].get("ut1.fastq", [])]
    ctx.count("trimmed-filter-checked")
    if got_main != exp_main or got_ut != exp_ut:
        ctx.failures.append(Failure("C05/trimmed-filter-pair-decision", "the trimmed/untrimmed filter does not combine 'adapter found in this mate' of the two mates as "
                                    "written (paired --revcomp: after the swap) by the requested --pair-filter mode", case_input(case),
                                    dict(main=got_main, untrimmed=got_ut), dict(main=exp_main, untrimmed=exp_ut)))
    if any(r[0].endswith(" rc") for r in plain["files"].get("o1.fastq", [])):
        ctx.nontriv(("swapped-pair-filtered", tuple(case["argv"])))


def pair_adapters_oracle(ctx, case, real):
    argv = case["argv"]
    if "--pair-adapters" not in argv or "error" in real:
        return
    action = argv[argv.index("--action") + 1] if "--action" in argv else "trim"
    if action != "trim" or any(o in argv for o in ("-u", "-U", "-q", "-Q", "--nextseq-trim", "--poly-a", "-l", "-L", "--trim-n", "-m", "-M", "--max-n", "--max-ee",
                                                   "--max-aer", "--discard-casava", "--discard-trimmed", "--discard-untrimmed", "--untrimmed-output", "--zero-cap")):
        return
    o1 = {rid(r[0]): r for fn, side, recs in pipeprop.output_roles(case, real) if side == 0 for r in recs}
    o2 = {rid(r[0]): r for fn, side, recs in pipeprop.output_roles(case, real) if side == 1 for r in recs}
    for (n1, s1, _), (n2, s2, _) in zip(case["reads1"], case["reads2"]):
        k = rid(n1)
        if k in o1 and k in o2:
            c1, c2 = o1[k][1] != s1, o2[k][1] != s2
            if c1 != c2:
                ctx.failures.append(Failure("C05/pair-adapters-one-mate-only", "--pair-adapters changed one mate but not the other", case_input(case),
                                            dict(pair=k, r1_changed=c1, r2_changed=c2), None))
            ctx.count("pair-adapters-checked")


def rank_case(ctx):
    """--pair-adapters with 2-4 ranks; several ranks may share a sequence on one side and differ only in name and search parameters,
    so which *rank* trimmed each mate is visible (read names get the adapter name as suffix) and decides the result"""
    rng = ctx.rng
    k = rng.randint(2, 4)
    seqs1 = ["AAAGGGCCC", "GATTACAGA", "TTAGGCATC"]
    seqs2 = ["TTTGGGAAC", "ACGTACGTAC", "CCTGAGTCA"]
    flag = rng.choice(["-a", "-g"])
    specs = []
    for side, seqs in ((0, seqs1), (1, seqs2)):
        pool = [rng.choice(seqs)] if rng.random() < 0.6 else seqs   # 60 %: every rank has the same sequence on this side
        row = []
        for i in range(k):
            par = rng.choice(["", ";e=0", ";e=0.12", ";e=0.25", ";o=3", ";o=7", ";e=0;o=8", ";e=0.25;o=5"])
            row.append(f"{'ab'[side]}{i}={rng.choice(pool)}{par}")
        specs.append(row)
    argv = ["--no-index"]
    for sp in specs[0]:
        argv += [flag, sp]
    for sp in specs[1]:
        argv += [flag.upper(), sp]
    argv += ["--pair-adapters", "-y", " {name}", "-o", "{dir}/o1.fastq", "-p", "{dir}/o2.fastq"]
    r1, r2 = pipe.gen_reads(rng, 6, [x.split("=")[1].split(";")[0] for x in specs[0]], [x.split("=")[1].split(";")[0] for x in specs[1]], True)
    return dict(argv=argv, paired=True, reads1=r1, reads2=r2, with_qual=True, interleaved_in=False, ranks=k)


def rank_oracle(ctx, case, real):
    """both mates carry the name of the adapter of one and the same rank, or neither carries one and neither is changed"""
    if "error" in real or "ranks" not in case:
        return
    o1 = {rid(r[0]): r for fn, side, recs in pipeprop.output_roles(case, real) if side == 0 for r in recs}
    o2 = {rid(r[0]): r for fn, side, recs in pipeprop.output_roles(case, real) if side == 1 for r in recs}
    for (n1, s1, _), (n2, s2, _) in zip(case["reads1"], case["reads2"]):
        key = rid(n1)
        if key not in o1 or key not in o2:
            continue
        t1, t2 = o1[key][0].rsplit(" ", 1)[-1], o2[key][0].rsplit(" ", 1)[-1]
        k1 = int(t1[1:]) if t1[:1] == "a" and t1[1:].isdigit() else None
        k2 = int(t2[1:]) if t2[:1] == "b" and t2[1:].isdigit() else None
        ctx.count("pair-adapters-rank-checked")
        if k1 is not None and k1 == k2:
            ctx.nontriv(("rank", tuple(case["argv"]), key))
        if k1 != k2:
            ctx.failures.append(Failure("C05/pair-adapters-different-ranks", "--pair-adapters: the two mates were trimmed by adapters of different ranks "
                                        "(or only one of them by any)", case_input(case), dict(pair=key, r1_adapter=t1, r2_adapter=t2), None))
        elif k1 is None and (o1[key][1] != s1 or o2[key][1] != s2):
            ctx.failures.append(Failure("C05/pair-adapters-one-mate-only", "--pair-adapters changed a pair without naming an adapter", case_input(case),
                                        dict(pair=key), None))


RR1 = ["ACGTTGCAAGCT", "GGATCCTTAGGA", "CGGTGAGCTGCA"]
RR2 = ["TTGACCAGTCAA", "CATGGTACCGTA", "GTCGAGGCTAGT"]


def repeat_rank_case(ctx):
    """--pair-adapters where a specification is given several times on a side (combinatorial dual indices: ranks (X,P), (Y,P), (X,Q)): the rank of an
    adapter is its position on the command line. Unnamed adapters, exact full-length copies only (-e 0 --no-indels -O 12), inserts without G."""
    rng = ctx.rng
    k = rng.randint(3, 5)
    a1 = [rng.choice(RR1[:2 if rng.random() < 0.6 else 3]) for _ in range(k)]
    a2 = [rng.choice(RR2[:2 if rng.random() < 0.6 else 3]) for _ in range(k)]
    flag = rng.choice(["-a", "-a", "-g"])
    argv = ["--no-index", "-e", "0", "--no-indels", "-O", "12"]
    for sp in a1:
        argv += [flag, sp]
    for sp in a2:
        argv += [flag.upper(), sp]
    argv += ["--pair-adapters", "-o", "{dir}/o1.fastq", "-p", "{dir}/o2.fastq"]
    ins = lambda n: "".join(rng.choice("ATTAC") for _ in range(n))

    def read(ad):
        return ins(rng.randint(15, 40)) + ("" if ad is None else ad) + ins(rng.randint(0 if ad else 5, 15))
    r1, r2 = [], []
    for i in range(rng.randint(6, 10)):
        s1, s2 = read(rng.choice([None] + RR1)), read(rng.choice([None] + RR2))
        r1.append((f"r{i} 1:N:0:1", s1, "I" * len(s1)))
        r2.append((f"r{i} 2:N:0:1", s2, "I" * len(s2)))
    return dict(argv=argv, paired=True, reads1=r1, reads2=r2, with_qual=True, interleaved_in=False, repeat_ranks=dict(a1=a1, a2=a2, five=flag == "-g"))


def repeat_rank_oracle(ctx, case, real):
    """the clause itself: both mates were cut at a copy of the R1 / R2 adapter of one rank (position on the command line), or neither is changed"""
    rr = case.get("repeat_ranks")
    if "error" in real or not rr:
        return
    o1 = {rid(r[0]): r for fn, side, recs in pipeprop.output_roles(case, real) if side == 0 for r in recs}
    o2 = {rid(r[0]): r for fn, side, recs in pipeprop.output_roles(case, real) if side == 1 for r in recs}

    def cut_by(s, out, ads):
        """ranks whose adapter has a copy in s at which cutting gives out"""
        ks = set()
        for i, ad in enumerate(ads):
            p = s.find(ad)
            while p >= 0:
                if (s[p + len(ad):] if rr["five"] else s[:p]) == out:
                    ks.add(i)
                p = s.find(ad, p + 1)
        return ks
    for (n1, s1, _), (n2, s2, _) in zip(case["reads1"], case["reads2"]):
        key = rid(n1)
        if key not in o1 or key not in o2:
            ctx.failures.append(Failure("C05/pair-adapters-pair-lost", "a pair is missing from the output of a run without filters", case_input(case), dict(pair=key), None))
            continue
        t1, t2 = o1[key][1], o2[key][1]
        ctx.count("pair-adapters-repeated-checked")
        if t1 == s1 and t2 == s2:
            # untouched: right unless some rank has a copy of both its adapters (`_find_best_match_pair` tries every rank)
            both = [i for i in range(len(rr["a1"])) if rr["a1"][i] in s1 and rr["a2"][i] in s2]
            if both:
                ctx.failures.append(Failure("C05/pair-adapters-rank-not-found", "--pair-adapters: both adapters of a rank occur as exact copies, "
                                            "but the pair is unchanged", case_input(case), dict(pair=key, ranks=both), None))
            continue
        ks = cut_by(s1, t1, rr["a1"]) & cut_by(s2, t2, rr["a2"])
        if ks:
            ctx.nontriv(("repeat-rank", tuple(case["argv"]), key))
        else:
            ctx.failures.append(Failure("C05/pair-adapters-different-ranks", "--pair-adapters: the two mates were not both cut at copies of the R1 and R2 adapter of "
                                        "one rank (rank = position of the adapter on the command line)", case_input(case),
                                        dict(pair=key, r1=[s1, t1], r2=[s2, t2], r1_adapters=rr["a1"], r2_adapters=rr["a2"]), None))


def oracle(ctx, case, res, real):
    if sync_oracle(ctx, case, res, real):
        pair_adapters_oracle(ctx, case, real)
        rank_oracle(ctx, case, real)
        repeat_rank_oracle(ctx, case, real)


def run(ctx):
    pipeprop.run(ctx, "C05", FOCUS, oracle, 300, 5000,
                 "random paired command lines (two files and interleaved output, one-sided adapters, pair-filter modes, redirect files, demultiplexing, --pair-adapters) "
                 "plus directed length-filter and untrimmed-filter cases whose pair decision is recomputed; non-trivial = distinct non-empty output file pair / filtered pair",
                 nontrivial=lambda c, r: False)
    cs = [decision_case(ctx) for _ in range(ctx.scale(100, 2000))]
    for case, res, real, model in pipe.run_cases(ctx, cs):
        ctx.count("directed-decision")
        sync_oracle(ctx, case, res, real)
        decision_oracle(ctx, case, real)
    cs = [two_bounds_case(ctx) for _ in range(ctx.scale(80, 1500))]
    for case, res, real, model in pipe.run_cases(ctx, cs):
        ctx.count("directed-two-bounds")
        sync_oracle(ctx, case, res, real)
        two_bounds_oracle(ctx, case, real)
    cs = [criteria_case(ctx) for _ in range(ctx.scale(80, 1500))]
    for case, res, real, model in pipe.run_cases(ctx, cs):
        ctx.count("directed-criteria")
        sync_oracle(ctx, case, res, real)
        criteria_oracle(ctx, case, real)
    cs = [untrimmed_case(ctx) for _ in range(ctx.scale(50, 1000))]
    for case, res, real, model in pipe.run_cases(ctx, cs):
        ctx.count("directed-untrimmed")
        sync_oracle(ctx, case, res, real)
        untrimmed_oracle(ctx, case, real)
    cs = [trimmed_filter_case(ctx) for _ in range(ctx.scale(40, 800))]
    for case, res, real, model in pipe.run_cases(ctx, cs):
        ctx.count("directed-trimmed-filter")
        sync_oracle(ctx, case, res, real)
        trimmed_filter_oracle(ctx, case, real)
    # --pair-adapters, trim only
    cs = []
    for _ in range(ctx.scale(40, 600)):
        r1, r2 = pipe.gen_reads(ctx.rng, 6, ["AAAGGGCCC", "GATTACAGA"], ["TTTGGGAAC", "ACGTACGTAC"], True)
        cs.append(dict(argv=["--no-index", "-a", "a0=AAAGGGCCC", "-a", "a1=GATTACAGA", "-A", "b0=TTTGGGAAC", "-A", "b1=ACGTACGTAC", "--pair-adapters",
                             "-o", "{dir}/o1.fastq", "-p", "{dir}/o2.fastq"], paired=True, reads1=r1, reads2=r2, with_qual=True, interleaved_in=False))
    cs += [rank_case(ctx) for _ in range(ctx.scale(120, 2000))]
    cs += [repeat_rank_case(ctx) for _ in range(ctx.scale(80, 1500))]
    for case, res, real, model in pipe.run_cases(ctx, cs):
        oracle(ctx, case, res, real)


def extended_search(ctx):
    pipeprop.run(ctx, "C05", FOCUS, oracle, 2000, 2000, ctx.rule, nontrivial=lambda c, r: False)


def _replay_oracle(ctx, case, res, real):
    oracle(ctx, case, res, real)
    argv = case["argv"]
    filt = next((f for f in ("--discard-untrimmed", "--discard-trimmed") if f in argv), "untrimmed-output" if "--untrimmed-output" in argv else None)
    if filt and "-a" in argv and "-A" in argv and "--pair-adapters" not in argv:
        base, skip = [], 0
        for t in argv:
            if skip:
                skip -= 1
            elif t in ("--discard-untrimmed", "--discard-trimmed"):
                pass
            elif t in ("--untrimmed-output", "--untrimmed-paired-output", "--pair-filter"):
                skip = 1
            else:
                base.append(t)
        mode = argv[argv.index("--pair-filter") + 1] if "--pair-filter" in argv else "any"
        trimmed_filter_oracle(ctx, dict(case, tf=dict(base=base, filt=filt, mode=mode)), real)


replay = pipeprop.generic_replay("C05", _replay_oracle)
