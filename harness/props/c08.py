"""C08 — an adapter index changes only speed, never what is found.

Correspondence (model = lean/Cutadapt/Index.lean through the driver ops of Driver/OpsIndex.lean):
  hsphere     vs cutadapt._align.hamming_sphere            (order of the generator included)
  editenv     vs cutadapt._align.edit_environment          (order, errors and matches included)
  indexlookup vs Indexed{Prefix,Suffix}Adapters(adapters).match_to(read)   (k-mer finder of the adapters replaced by the
              always-true finder: the model's `_lookup_with_n` re-aligns with `Adapters.matchTo`, which has no prefilter)
  indexdump   vs the private `_index/_lengths/_ambiguous` of the real AdapterIndex (whole dictionary, sorted)

Oracle, written from the property text (independent of the model; brute-force distances from oracle_align.dist):
  (a) soundness   every match returned through the index: 0 <= rstart <= rstop <= len(read); the removed affix has edit
                  (Hamming if indels are off *for that adapter*: `;noindels` is a per-adapter setting and one index may mix
                  both kinds) distance to the adapter equal to match.errors; errors <= int(rate*len)
  (b) uniqueness  N-free read on which exactly one indexed adapter has an anchored occurrence within its tolerance
                  -> the index returns that adapter
  (c) agreement   equal lengths, no indels, N-free read, nearest adapter strictly closer than the second nearest
                  -> MultipleAdapters(adapters).match_to(read) and the indexed search return the same adapter with the
                     same coordinates and errors, for several orders of the adapter list

Note on clause (c). The adapters of one set may have different tolerances (per-adapter error rates). Then the strictly
nearest adapter can lie outside its own tolerance while the nearest *admissible* adapters tie: one-by-one search reports the
first of the tied adapters (so its own answer depends on the order), the index reports none. Whether such a read is "equally
close to its two nearest adapters" is not clear-cut, so it is not counted either way (`oracle:agreement-skipped-tie-among-
admissible` in the input distribution; about 1 in 10^4 reads). With one error rate for all adapters (the usual command line) the
case cannot arise.

History: on the tree before commits 6d0af29 / ecc3a50 / ee05d18 this oracle reported, and only reported,
  C08/index-coordinates-out-of-range   read shorter than an indexed length (-a TTACTAGGGC$ -a AACTACG$ -e 0.3, read AACTACG)
  C08/index-disagrees-with-one-by-one  uncleared ambiguity mark (^TCGTACGT ^CCGTACGT ^ACGTACGT, 1 mismatch, read ACGTACGTAAAA)
  C08/index-errors-not-distance        N in the affix, indels on (^ACGTACGT ^TTTTGGGG -e 0.125, read ACGTACGTNA)
Reverting any one of the three commits in a copy of the tree (VERIF_REPO=<copy> ./check C08 quick) brings back exactly its
signature; FIXED_SETS keeps the three reproducers and the generator keeps reaching all three classes.
"""
import functools
import itertools
import logging
import os
import time

import oracle_align as OA
import core
from core import Failure, hx, bits

LEVEL = "proof"
SIG_RANGE = "C08/index-coordinates-out-of-range"
SIG_DIST = "C08/index-errors-not-distance"
SIG_TOL = "C08/index-errors-exceed-tolerance"
SIG_UNIQUE = "C08/index-unique-adapter-not-reported"
SIG_AGREE = "C08/index-disagrees-with-one-by-one"
MAX_RECORDED_PER_SIG = int(os.environ.get("VERIF_C08_MAXREC", "25"))


# ------------------------------------------------------------------------------------------------
# the real code

_FILTER_INSTALLED = False


def _mods():
    import cutadapt.adapters as A
    global _FILTER_INSTALLED
    if not _FILTER_INSTALLED:
        # adapters.py logs on the root logger ("The adapters are too similar …", "Building index of …")
        logging.getLogger().addFilter(lambda rec: not rec.pathname.endswith("adapters.py"))
        _FILTER_INSTALLED = True
    return A


def flags_of(indels, n):
    """`indels` of a set: one bool for all adapters, or one bool per adapter (some adapters carry `;noindels`)"""
    return [bool(indels)] * n if isinstance(indels, bool) else [bool(x) for x in indels]


def any_indels(indels):
    return indels if isinstance(indels, bool) else any(indels)


def build_real(kind, indels, ads):
    """(adapters, indexed, None) or (None, None, error-token)"""
    A = _mods()
    cls = A.PrefixAdapter if kind == "prefix" else A.SuffixAdapter
    adapters = [cls(s, max_errors=r, indels=f) for (s, r), f in zip(ads, flags_of(indels, len(ads)))]
    try:
        ix = (A.IndexedPrefixAdapters if kind == "prefix" else A.IndexedSuffixAdapters)(adapters)
    except ValueError:
        if not adapters:
            return None, None, "error:empty-list"
        for i, a in enumerate(adapters):
            if not A.AdapterIndex.is_acceptable(a, kind == "prefix"):
                return None, None, f"error:not-acceptable {i}"
        raise
    return adapters, ix, None


def show(adapters, m):
    if m is None:
        return "None"
    i = [a is m.adapter for a in adapters].index(True)
    return f"{i} {m.astart} {m.astop} {m.rstart} {m.rstop} {m.score} {m.errors}"


def set_line(op, kind, indels, ads, tail):
    fl = flags_of(indels, len(ads))
    tok = str(int(fl[0])) if len(set(fl)) <= 1 and fl else "m" + "".join(str(int(f)) for f in fl)
    return (f"{op} {kind} {tok} {len(ads)} " + " ".join(f"{hx(s)} {bits(r)}" for s, r in ads)
            + ("" if not tail else " " + " ".join(hx(x) for x in tail)))


def dump_real(ix):
    d = ix._index
    lengths = "[" + ", ".join(str(x) for x in d._lengths) + "]"
    ents = sorted(f"{hx(k)}:{[a is v[0] for a in d._adapters].index(True)}:{v[1]}:{v[2]}" for k, v in d._index.items())
    return f"{lengths} {d._ambiguous} {len(d._index)} {','.join(ents)}"


# ------------------------------------------------------------------------------------------------
# the oracle (property text)

def eqc(a, r):
    """wildcards are off on both sides: characters match iff equal ignoring case (N matches only N)"""
    return a.upper() == r.upper()


@functools.lru_cache(maxsize=400000)
def affix_distance(seq, affix, indels):
    if indels:
        return OA.dist(seq, affix, eqc, 1)
    if len(seq) != len(affix):
        return None
    return sum(1 for a, r in zip(seq, affix) if not eqc(a, r))


def best_occurrence(kind, seq, k, indels, read):
    """smallest distance of an anchored occurrence of `seq` within tolerance k at the anchored end of `read`, or None"""
    n, m = len(read), len(seq)
    best = None
    for L in ([m] if not indels else range(max(0, m - k), m + k + 1)):
        if L > n:
            continue
        aff = read[:L] if kind == "prefix" else read[n - L:]
        d = affix_distance(seq, aff, indels)
        if d is not None and d <= k and (best is None or d < best):
            best = d
    return best


def tol(a):
    return int(a.max_error_rate * len(a.sequence))


def fail(ctx, sig, what, inp, got, expected):
    ctx.count("oracle:" + sig)
    n = sum(1 for f in ctx.failures if f.signature == sig)
    if n < MAX_RECORDED_PER_SIG:
        ctx.failures.append(Failure(sig, what, inp, got, expected))


def soundness(ctx, kind, indels, ads, adapters, read, m, how):
    """clause (a) for one returned match"""
    inp = dict(kind=kind, indels=indels, adapters=ads, read=read, via=how)
    n = len(read)
    if not (0 <= m.rstart <= m.rstop <= n):
        fail(ctx, SIG_RANGE, "match returned through the index has coordinates outside the read", inp,
             show(adapters, m), f"0 <= rstart <= rstop <= {n}")
        return
    anchored = (m.rstart == 0) if kind == "prefix" else (m.rstop == n)
    aff = read[:m.rstop] if kind == "prefix" else read[m.rstart:]
    d = affix_distance(m.adapter.sequence, aff, bool(m.adapter.indels))   # the adapter's own setting
    if not anchored or m.astart != 0 or m.astop != len(m.adapter.sequence) or d is None or d != m.errors:
        fail(ctx, SIG_DIST, "reported errors are not the distance between the removed affix and the adapter", inp,
             show(adapters, m), f"distance({m.adapter.sequence}, {aff}) = {d}")
    if m.errors > tol(m.adapter):
        fail(ctx, SIG_TOL, "reported errors exceed the adapter's tolerance", inp, show(adapters, m), f"<= {tol(m.adapter)}")


def oracle_read(ctx, kind, indels, ads, adapters, ix, read, perms):
    """clauses (a), (b), (c) for one read on the real code (real k-mer finders)"""
    m = ix.match_to(read)
    if m is not None:
        ctx.count("index:match")
        soundness(ctx, kind, indels, ads, adapters, read, m, "index")
        if m.errors > 0:
            ctx.nontriv(("I", kind, indels, tuple(ads), read))
        if not m.adapter.indels and any(a.indels for a in adapters):
            ctx.count("reach:match-of-noindels-adapter-in-mixed-set")
        if len(read) < ix._index._lengths[0]:
            ctx.count("reach:match-on-read-shorter-than-an-indexed-length")      # class of 6d0af29
    up = read.upper()
    if "N" in up:
        ctx.count("read:with-N")
        if m is not None and m.adapter.indels:
            ctx.count("reach:match-with-N-and-indels")                           # class of ee05d18
        return m
    inp = dict(kind=kind, indels=indels, adapters=ads, read=read)
    # (b)
    occ = [best_occurrence(kind, a.sequence, tol(a), bool(a.indels), read) for a in adapters]
    present = [i for i, d in enumerate(occ) if d is not None]
    if len(present) == 1:
        ctx.count("oracle:unique-occurrence")
        if m is None or m.adapter is not adapters[present[0]]:
            fail(ctx, SIG_UNIQUE, "exactly one indexed adapter occurs within tolerance but the index does not report it", inp,
                 show(adapters, m), f"adapter {present[0]} ({adapters[present[0]].sequence}) at distance {occ[present[0]]}")
    # (c)
    L = len(adapters[0].sequence)
    if not any(a.indels for a in adapters) and len(adapters) >= 2 and all(len(a.sequence) == L for a in adapters) and len(read) >= L:
        aff = read[:L] if kind == "prefix" else read[len(read) - L:]
        dl = [affix_distance(a.sequence, aff, False) for a in adapters]
        ds = sorted(dl)
        # adapters of one set may have different tolerances: when the strictly nearest adapter is outside its own
        # tolerance and the nearest *admissible* ones tie, "not equally close to its two nearest adapters" is not
        # clear-cut (one-by-one search takes the first of the tied adapters, the index none) - not counted either way
        adm = sorted(d for d, a in zip(dl, adapters) if d <= tol(a))
        if ds[0] < ds[1] and len(adm) >= 2 and adm[0] == adm[1]:
            ctx.count("oracle:agreement-skipped-tie-among-admissible")
        elif ds[0] < ds[1]:
            ctx.count("oracle:agreement-applicable")
            if len(adm) >= 3 and adm[0] == ds[0] and len(set(adm[1:])) < len(adm[1:]):
                ctx.count("reach:tie-between-worse-admissible-adapters")         # class of ecc3a50
            for order, p_adapters, p_ix, p_multi in perms:
                a_ = p_ix.match_to(read)
                b_ = p_multi.match_to(read)
                same = (a_ is None and b_ is None) or (
                    a_ is not None and b_ is not None and a_.adapter is b_.adapter
                    and (a_.astart, a_.astop, a_.rstart, a_.rstop, a_.errors) == (b_.astart, b_.astop, b_.rstart, b_.rstop, b_.errors))
                if not same:
                    fail(ctx, SIG_AGREE, "indexed search and one-by-one search disagree (nearest adapter strictly closer than the second)",
                         dict(inp, order=list(order)), show(adapters, a_), show(adapters, b_))
                    break
    return m


def make_perms(ctx, kind, indels, ads, adapters, ix, extra):
    """[(order, adapters in that order, index over them, MultipleAdapters over them)] — only needed for clause (c)"""
    A = _mods()
    L = len(adapters[0].sequence)
    if any(a.indels for a in adapters) or len(adapters) < 2 or not all(len(a.sequence) == L for a in adapters):
        return []
    n = len(adapters)
    orders = [tuple(range(n))]
    if extra:
        orders.append(tuple(reversed(range(n))))
        for _ in range(extra - 1):
            o = list(range(n))
            ctx.rng.shuffle(o)
            if tuple(o) not in orders:
                orders.append(tuple(o))
    out = []
    for o in orders:
        pa = [adapters[i] for i in o]
        pix = ix if o == orders[0] else (A.IndexedPrefixAdapters if kind == "prefix" else A.IndexedSuffixAdapters)(pa)
        out.append((o, pa, pix, A.MultipleAdapters(pa)))
    return out


# ------------------------------------------------------------------------------------------------
# generators

def rate_for(rng, length, k):
    """a max_errors value with int(len*rate) == k"""
    r = rng.random()
    if k == 0:
        return rng.choice([0.0, 0.0, 0.5 / length, 0.99 / length])
    if r < 0.5:
        return (k + 0.5) / length
    if r < 0.7:
        return float(k)           # absolute number of errors (>= 1): the constructor divides by the length
    if r < 0.85:
        return (k + 0.01) / length
    return (k + 0.99) / length


def near_duplicate(rng, s, indels, minlen=4):
    r = rng.random()
    if r < 0.55:    # substitutions
        cp = list(s)
        for _ in range(rng.choice([1, 1, 2])):
            p = rng.randrange(len(cp))
            cp[p] = rng.choice([c for c in "ACGT" if c != cp[p]])
        return "".join(cp)
    if r < 0.75:    # one or two indels
        cp = list(s)
        for _ in range(rng.choice([1, 1, 2])):
            p = rng.randrange(len(cp))
            if rng.random() < 0.5 and len(cp) > minlen:
                del cp[p]
            else:
                cp.insert(p, rng.choice("ACGT"))
        return "".join(cp)
    if r < 0.9 and len(s) > minlen:   # a proper prefix / suffix of another adapter
        cut = rng.randint(1, len(s) - minlen)
        return s[cut:] if rng.random() < 0.5 else s[:-cut]
    return s + "".join(rng.choice("ACGT") for _ in range(rng.randint(1, 2)))


def gen_set(ctx, maxlen, heavy_ok):
    """(kind, indels, [(seq, rate)]); `indels` is one bool, or one bool per adapter in about a third of the sets"""
    rng = ctx.rng
    kind = rng.choice(["prefix", "suffix"])
    indels = rng.random() < 0.5
    if rng.random() < 0.04:
        # absolute error counts on lengths where the double k/n times n falls just below k (gens.FLOAT_CORNERS): the adapters themselves allow k-1
        # errors over their full length, and so must the index
        k, L = rng.choice([(1, 49), (2, 49), (3, 47)] if not indels else [(1, 49), (1, 49), (2, 49)])
        base = "".join(rng.choice("ACGT") for _ in range(L))
        seqs = [base]
        while len(seqs) < rng.randint(2, 3):
            s = near_duplicate(rng, base, False) if rng.random() < 0.5 else "".join(rng.choice("ACGT") for _ in range(L))
            s = (s + base)[:L]
            if s not in seqs:
                seqs.append(s)
        return kind, indels, [(s, float(k)) for s in seqs]
    n = rng.randint(2, 8)
    mode = rng.random()
    equal = mode < 0.45
    L0 = rng.randint(4, maxlen)
    kmax = rng.choice([0, 1, 1, 2, 2, 3])
    if indels and kmax == 3 and not heavy_ok:
        L0 = min(L0, 7)
    seqs = []
    star = rng.random() < 0.2        # variants of one base sequence at the same position
    base = "".join(rng.choice("ACGT") for _ in range(L0))
    pos = rng.randrange(L0)
    while len(seqs) < n:
        if star and len(seqs) < 4:
            s = base[:pos] + "ACGT"[(("ACGT".index(base[pos])) + len(seqs)) % 4] + base[pos + 1:]
        elif seqs and rng.random() < 0.5:
            s = near_duplicate(rng, rng.choice(seqs), indels)
            if equal:
                s = (s + "".join(rng.choice("ACGT") for _ in range(L0)))[:L0]
        else:
            L = L0 if equal else rng.randint(4, maxlen if not (indels and kmax == 3 and not heavy_ok) else 7)
            s = "".join(rng.choice("ACGT") for _ in range(L))
        if s in seqs and rng.random() < 0.9:
            continue
        seqs.append(s)
    if star:
        rng.shuffle(seqs)
    same_rate = rng.random() < 0.7
    ads = []
    shared = None
    for s in seqs:
        k = kmax if same_rate else rng.randint(0, kmax)
        if same_rate and equal:
            shared = shared if shared is not None else rate_for(rng, len(s), k)
            ads.append((s, shared))
        else:
            ads.append((s, rate_for(rng, len(s), k)))
    if n >= 2 and rng.random() < 0.35:
        # per-adapter `;noindels`: at least one adapter of each kind; the tolerances were chosen above (k-3 sets stay small
        # unless heavy_ok because the lengths were limited for `indels`)
        fl = [rng.random() < 0.5 for _ in range(n)]
        i, j = rng.sample(range(n), 2)
        fl[i], fl[j] = True, False
        if not indels and kmax == 3 and not heavy_ok:
            ads = [(s, r) if len(s) <= 7 else (s, rate_for(rng, len(s), rng.randint(0, 2))) for s, r in ads]
        indels = tuple(fl)
    return kind, indels, ads


def mutate(rng, s, nedits, indels):
    cp = list(s)
    for _ in range(nedits):
        if not cp:
            break
        p = rng.randrange(len(cp))
        op = rng.random()
        if op < 0.5 or not indels:
            cp[p] = rng.choice("ACGT")
        elif op < 0.75:
            del cp[p]
        else:
            cp.insert(p, rng.choice("ACGT"))
    return "".join(cp)


def gen_reads(ctx, kind, indels, ads, count):
    rng = ctx.rng
    longest = max(len(s) for s, _ in ads)
    reads = []
    for _ in range(count):
        s, _r = rng.choice(ads)
        mode = rng.random()
        if mode < 0.45:      # mutated copy + random tail (head for 3' adapters)
            cp = mutate(rng, s, rng.choice([0, 0, 1, 1, 2, 3, 4]), indels or rng.random() < 0.2)
            pad = "".join(rng.choice("ACGT") for _ in range(rng.choice([0, 1, 2, 3, 5, 9, 20])))
            rd = cp + pad if kind == "prefix" else pad + cp
            ctx.count("read:mutated-copy")
        elif mode < 0.6:     # exactly one adapter
            rd = s
            ctx.count("read:exactly-one-adapter")
        elif mode < 0.75:    # shorter than the longest indexed string
            cp = mutate(rng, s, rng.choice([0, 0, 1]), indels)
            cut = rng.randint(0, max(0, len(cp) - 1))
            rd = (cp[:len(cp) - cut] if rng.random() < 0.5 else cp[cut:])
            if len(rd) > longest and rng.random() < 0.5:
                rd = rd[:longest - 1] if kind == "prefix" else rd[-(longest - 1):]
            ctx.count("read:short")
        elif mode < 0.85:    # random
            rd = "".join(rng.choice("ACGT") for _ in range(rng.randint(0, longest + 6)))
            ctx.count("read:random")
        else:                # a copy of another adapter next to the end
            s2, _ = rng.choice(ads)
            rd = s2 + s if kind == "prefix" else s + s2
            ctx.count("read:two-adapters")
        if rng.random() < 0.12 and rd:
            p = rng.randrange(len(rd))
            rd = rd[:p] + "N" + rd[p + 1:]
        r = rng.random()
        if r < 0.08:
            rd = rd.lower()
        elif r < 0.12 and rd:
            p = rng.randrange(len(rd))
            rd = rd[:p] + rd[p].lower() + rd[p + 1:]
        reads.append(rd)
    return reads


# ------------------------------------------------------------------------------------------------
# one adapter set: correspondence lines + oracle

def run_set(ctx, kind, indels, ads, reads, lookups, dumps, extra_perms, dump):
    A = _mods()
    adapters, ix, err = build_real(kind, indels, ads)
    if err:
        lookups.append((set_line("indexlookup", kind, indels, ads, reads), err))
        ctx.count("ctor-" + err.split()[0])
        return
    ctx.count(f"set:{kind}:{'mixed-indels' if not isinstance(indels, bool) and len(set(indels)) > 1 else 'indels' if any_indels(indels) else 'hamming'}")
    ctx.count("set:lengths-" + ("one" if len(ix._index._lengths) == 1 else "many"))
    if ix._index._ambiguous:
        ctx.count("set:with-ambiguous-keys")
    perms = make_perms(ctx, kind, indels, ads, adapters, ix, extra_perms)
    ctx.evaluations += len(reads)
    # the oracle runs on the real objects
    real = [oracle_read(ctx, kind, indels, ads, adapters, ix, rd, perms) for rd in reads]
    # correspondence: same objects with the always-true k-mer finder (only reads with N reach match_to of an adapter)
    finders = [a.kmer_finder for a in adapters]
    for a in adapters:
        a.kmer_finder = A.MockKmerFinder()
    outs = []
    for rd, m_real in zip(reads, real):
        m = ix.match_to(rd) if "N" in rd.upper() else m_real
        if m is not None and "N" in rd.upper() and show(adapters, m) != show(adapters, m_real):
            soundness(ctx, kind, indels, ads, adapters, rd, m, "index, always-true k-mer finder")
        outs.append(show(adapters, m))
    for a, f in zip(adapters, finders):
        a.kmer_finder = f
    lookups.append((set_line("indexlookup", kind, indels, ads, reads), " | ".join(outs)))
    if dump:
        dumps.append((set_line("indexdump", kind, indels, ads, []), dump_real(ix)))


def correspond16(ctx, op, cases):
    """like core.correspond, but always spread over 16 driver processes (few, expensive lines)"""
    if not cases:
        return
    outs = core.run_driver([c[0] for c in cases], shards=min(16, len(cases)))
    for (line, impl), model in zip(cases, outs):
        if impl != model:
            ctx.diffs.append(core.Diff(op, line if len(line) < 4000 else line[:4000] + "…", _first_diff(impl, model), _first_diff(model, impl)))
    ctx.corr_ops[op] = ctx.corr_ops.get(op, 0) + len(cases)
    ctx.evaluations += len(cases)


def _first_diff(a, b):
    """shorten long outputs around the first difference"""
    if len(a) < 600:
        return a
    i = next((i for i, (x, y) in enumerate(zip(a, b)) if x != y), min(len(a), len(b)))
    return ("…" if i > 100 else "") + a[max(0, i - 100):i + 300] + "…"


def sphere_env_cases(ctx, n):
    from cutadapt._align import edit_environment, hamming_sphere
    rng = ctx.rng
    hs, ee = [], []
    for _ in range(n):
        L = rng.randint(0, 10)
        alpha = "ACGT" if rng.random() < 0.85 else "ACGTNacgt"
        s = "".join(rng.choice(alpha) for _ in range(L))
        k = rng.choice([0, 1, 1, 2, 2, 3, 3, 4, 5])
        hs.append((f"hsphere {hx(s)} {k}", ",".join(hx(x) for x in hamming_sphere(s, k))))
        k = rng.choice([0, 1, 1, 2, 2, 3])
        L = rng.randint(0, 12 if k < 3 else 9)
        s = "".join(rng.choice(alpha) for _ in range(L))
        ee.append((f"editenv {hx(s)} {k}", ",".join(f"{hx(x)}:{e}:{m}" for x, e, m in edit_environment(s, k))))
        if L and k:
            ctx.nontriv(("E", s, k))
    for c in hs[:1] + ee[:1]:
        ctx.sample(dict(op_line=c[0], impl=c[1][:200]))
    correspond16(ctx, "hsphere", hs)
    correspond16(ctx, "editenv", ee)


def sphere_env_exhaustive(ctx, maxlen):
    from cutadapt._align import edit_environment, hamming_sphere
    hs, ee = [], []
    for L in range(0, maxlen + 1):
        for s in itertools.product("ACGT", repeat=L):
            s = "".join(s)
            for k in range(0, 5):
                hs.append((f"hsphere {hx(s)} {k}", ",".join(hx(x) for x in hamming_sphere(s, k))))
            for k in range(0, 4 if L < maxlen else 3):
                ee.append((f"editenv {hx(s)} {k}", ",".join(f"{hx(x)}:{e}:{m}" for x, e, m in edit_environment(s, k))))
    correspond16(ctx, "hsphere", hs)
    correspond16(ctx, "editenv", ee)
    ctx.notes.append(f"exhaustive sub-scope: hamming_sphere (k <= 4) and edit_environment (k <= 3; k <= 2 at the maximal length) for every string over ACGT up to length {maxlen}")


FIXED_SETS = [
    # the reproducers of the three repaired defects (regression guards) and close relatives
    ("suffix", True, [("TTACTAGGGC", 0.3), ("AACTACG", 0.3)], ["AACTACG", "TTACTAGGGC", "GGTTACTAGGGC", "CTACG", "TTACTAGNGC", "aactacg"]),
    ("prefix", True, [("TTACTAGGGC", 0.3), ("AACTACG", 0.3)], ["AACTACG", "TTACTAGGGC", "AACTACGT", "AACTA"]),
    ("prefix", False, [("TCGTACGT", 0.125), ("CCGTACGT", 0.125), ("ACGTACGT", 0.125)], ["ACGTACGTAAAA", "ACGTACGT", "TCGTACGTAA", "GCGTACGTAA", "NCGTACGTAA"]),
    ("suffix", False, [("TCGTACGT", 0.125), ("CCGTACGT", 0.125), ("ACGTACGT", 0.125)], ["AAAAACGTACGA", "AAAAACGTACGT"]),
    ("prefix", False, [("ACGTACGT", 0.125), ("TCGTACGT", 0.125), ("CCGTACGT", 0.125)], ["ACGTACGTAAAA", "GCGTACGTAA"]),
    ("prefix", True, [("ACGTACGT", 0.125), ("TTTTGGGG", 0.125)], ["ACGTACGTN", "ACGTACGTNA", "ACGTACGNT", "ACGTACGTTA"]),
    # mixed per-adapter indel settings (-g "^ACGTACGTAC;noindels" -g "^TTGCAATTGC"): the noindels adapter must not match with an indel
    ("prefix", (False, True), [("ACGTACGTAC", 0.1), ("TTGCAATTGC", 0.1)], ["ACGTACCGTACACACCGTTTT", "ACGTACGTACAA", "ACGTACGTTCAA", "TTGCATTGCAAA", "ACGTAGTACAAA"]),
    ("suffix", (True, False), [("ACGTACGTAC", 0.1), ("TTGCAATTGC", 0.1)], ["AAAATTGCATTGC", "AAAATTGCAAATTGC", "AAAACGTACGTAC", "AAACGTACGGTAC"]),
    ("prefix", (False, True, False), [("ACGTACGT", 0.25), ("ACGTTCGT", 0.125), ("TCGTACGA", 0.3)], ["ACGTCGTAA", "ACGTTTCGTAA", "ACGAACGTAA", "TCGACGAAAA"]),
    ("prefix", False, [("ACGT", 0.0), ("ACGTAC", 0.0)], ["ACGTAC", "ACGT", "ACGTA", "ACG", ""]),
    ("suffix", False, [("ACGT", 0.0), ("ACACGT", 0.0)], ["ACACGT", "ACGT", "CACGT", "CGT", ""]),
]


def _set_worker(args):
    kind, indels, ads, reads, extra_perms, dump, seed = args
    mc = _MiniCtx(seed)
    lookups, dumps = [], []
    run_set(mc, kind, indels, ads, reads, lookups, dumps, extra_perms, dump)
    return lookups, dumps, mc.failures, mc.distribution, mc.nontrivial, mc.evaluations


def random_sets(ctx, nsets, reads_per_set, maxlen, heavy_ok, extra_perms, dump_every, workers=16):
    import multiprocessing as mp
    tasks = [(kind, indels, ads, reads, 2, True, ctx.seed * 104729 + i) for i, (kind, indels, ads, reads) in enumerate(FIXED_SETS)]
    for i in range(nsets):
        kind, indels, ads = gen_set(ctx, maxlen, ctx.rng.random() < heavy_ok)
        reads = gen_reads(ctx, kind, any_indels(indels), ads, reads_per_set)
        small = sum((4 * len(s)) ** tolk(s, r) for s, r in ads) < 4000
        tasks.append((kind, indels, ads, reads, extra_perms, small and i % dump_every == 0, ctx.seed * 104729 + 1000 + i))
    with mp.get_context("fork").Pool(workers) as pool:
        results = list(pool.imap(_set_worker, tasks, chunksize=4))
    lookups, dumps = [], []
    for lk, dp, fails, dist, nontriv, evals in results:
        lookups += lk
        dumps += dp
        for f in fails:
            if sum(1 for g in ctx.failures if g.signature == f.signature) < MAX_RECORDED_PER_SIG:
                ctx.failures.append(f)
        for key, v in dist.items():
            ctx.count(key, v)
        ctx.nontrivial |= nontriv
        ctx.evaluations += evals
    for c in lookups[:3] + lookups[len(FIXED_SETS):len(FIXED_SETS) + 2]:
        ctx.sample(dict(op_line=c[0][:300], impl=c[1][:200]))
    correspond16(ctx, "indexlookup", lookups)
    correspond16(ctx, "indexdump", dumps)


def tolk(s, r):
    r = r / len(s) if r >= 1 else r
    return int(len(s) * r)


# ------------------------------------------------------------------------------------------------
# exhaustive small scope (thorough): pairs of adapters of length <= 5, k <= 1, every read of length <= 6

def _k1_rate(L):
    return 1.0 if L == 1 else 1.5 / L


def _canonical(s):
    """first occurrences of the letters appear in the order A, C, G, T (one representative per renaming of the alphabet)"""
    seen = []
    for c in s:
        if c not in seen:
            seen.append(c)
    return seen == list("ACGT"[:len(seen)])


ALL_READS = None


def _all_reads(maxlen):
    global ALL_READS
    if ALL_READS is None:
        ALL_READS = ["".join(p) for L in range(maxlen + 1) for p in itertools.product("ACGT", repeat=L)]
    return ALL_READS


class _MiniCtx:
    """what the oracle needs, for worker processes"""

    def __init__(self, seed):
        import random
        self.failures, self.distribution, self.nontrivial = [], {}, set()
        self.evaluations = 0
        self.rng = random.Random(seed)

    def count(self, key, n=1):
        self.distribution[key] = self.distribution.get(key, 0) + n

    def nontriv(self, key):
        self.nontrivial.add(key)


def _exh_worker(args):
    """one task = one first adapter x one slice of the second adapters x all 8 configurations x every read"""
    first, part, nparts, max_a, max_r, deadline, seed = args
    mc = _MiniCtx(seed)
    reads = _all_reads(max_r)
    seconds = ["".join(p) for L in range(1, max_a + 1) for p in itertools.product("ACGT", repeat=L)][part::nparts]
    lookups, dumps = [], []
    done = 0
    evals = 0
    complete = True
    for second in seconds:
        if second == first:
            continue
        if time.time() > deadline:
            complete = False
            break
        for kind in ("prefix", "suffix"):
            for indels in (False, True, (False, True), (True, False)):
                for k in (0, 1):
                    ads = [(first, 0.0 if k == 0 else _k1_rate(len(first))), (second, 0.0 if k == 0 else _k1_rate(len(second)))]
                    adapters, ix, err = build_real(kind, indels, ads)
                    perms = make_perms(mc, kind, indels, ads, adapters, ix, 1)
                    for rd in reads:
                        oracle_read(mc, kind, indels, ads, adapters, ix, rd, perms)
                    evals += len(reads)
                    if mc.rng.random() < 0.02:
                        dumps.append((set_line("indexdump", kind, indels, ads, []), dump_real(ix)))
                        sample = [mc.rng.choice(reads) for _ in range(40)] + [first, second]
                        lookups.append((set_line("indexlookup", kind, indels, ads, sample),
                                        " | ".join(show(adapters, ix.match_to(r)) for r in sample)))
        done += 1
    return first, mc.failures, mc.distribution, lookups, dumps, done, evals, complete


def exhaustive_pairs(ctx, max_a, max_r, budget_s, workers=16, nparts=8):
    import multiprocessing as mp
    firsts = [s for L in range(1, max_a + 1) for s in ("".join(p) for p in itertools.product("ACGT", repeat=L)) if _canonical(s)]
    # shortest first: the scope "first adapter <= max_a - 1" is finished before the (much larger) rest is started
    by_len = {}
    for f in firsts:
        by_len.setdefault(len(f), []).append(f)
    ordered = []
    for L in sorted(by_len):
        ctx.rng.shuffle(by_len[L])
        ordered += by_len[L]
    deadline = time.time() + budget_s
    tasks = [(f, part, nparts, max_a, max_r, deadline, ctx.seed * 7919 + i * nparts + part)
             for i, f in enumerate(ordered) for part in range(nparts)]
    with mp.get_context("fork").Pool(workers) as pool:
        results = list(pool.imap(_exh_worker, tasks, chunksize=1))
    lookups, dumps = [], []
    nsecond = sum(4 ** L for L in range(1, max_a + 1))
    total_pairs = len(firsts) * (nsecond - 1)
    done = evals = 0
    full = {f: True for f in firsts}
    for first, fails, dist, lk, dp, d, ev, ok in results:
        for f in fails:
            if sum(1 for g in ctx.failures if g.signature == f.signature) < MAX_RECORDED_PER_SIG:
                ctx.failures.append(f)
        for key, v in dist.items():
            ctx.count("small-scope:" + key, v)
        lookups += lk
        dumps += dp
        done += d
        evals += ev
        full[first] = full[first] and ok
    ctx.evaluations += evals
    correspond16(ctx, "indexlookup", lookups)
    correspond16(ctx, "indexdump", dumps)
    complete = all(full.values())
    ctx.exhaustive = complete
    per_len = {L: (sum(1 for f in by_len[L] if full[f]), len(by_len[L])) for L in sorted(by_len)}
    ctx.notes.append(
        f"small scope: first adapter = one representative per renaming of the alphabet (length <= {max_a}), second adapter = every other "
        f"string of length <= {max_a} (ordered pairs), both adapter types, indels on/off/first only/second only, k in {{0,1}}, every read over ACGT of length <= {max_r}: "
        f"{done} of {total_pairs} adapter pairs done ({'complete' if complete else 'time budget reached'}); first adapters finished against "
        f"every second adapter, by length: " + ", ".join(f"{L}: {a}/{b}" for L, (a, b) in per_len.items())
        + f"; {evals} oracle evaluations on the real code")


# ------------------------------------------------------------------------------------------------

def regroup_correspondence(ctx, n):
    """`AdapterCutter._regroup_into_indexed_adapters` against `Cutadapt.regroup` (lean/Cutadapt/Regroup.lean) on random adapter lists built
    by the command-line parser: which adapters go into a prefix / suffix index, the new order of the list, the rows of the name table"""
    import json
    import logging
    import cutadapt.cli as cli
    import cutadapt.adapters as A
    from cutadapt.modifiers import AdapterCutter
    import pipe
    pipe.patch_prefilter()
    rng = ctx.rng
    parser = cli.get_argument_parser()
    cases = []
    for _ in range(n):
        argv = []
        if rng.random() < 0.15:
            argv.append("--match-read-wildcards")
        if rng.random() < 0.2:
            argv.append("--no-indels")
        if rng.random() < 0.4:
            argv += ["-e", rng.choice(["0", "0.1", "0.2", "0.34", "0.5", "1", "2", "4"])]
        seqs = []
        for i in range(rng.choice([1, 2, 2, 3, 3, 4, 5, 6, 7])):
            L = rng.choice([4, 5, 6, 8, 9, 10, 11])      # short: the index of every acceptable group is really built, on both sides
            seq = pipe.rs(rng, L) if not seqs or rng.random() < 0.8 else rng.choice(seqs)
            seqs.append(seq)
            k = rng.random()
            if k < 0.1:
                j = rng.randrange(len(seq))
                seq = seq[:j] + rng.choice("NRYI") + seq[j + 1:]     # adapter wildcards: not acceptable (unless -N … not generated)
            par = rng.choice(["", "", "", ";noindels", ";e=0.5", ";e=0", ";max_errors=2", ";min_overlap=3", ";indels"])
            kind = rng.choice(["p5", "p5", "p5", "p3", "p3", "p3", "a", "g", "b", "linked", "nia", "x5"])
            flag, spec = {"p5": ("-g", "^" + seq), "p3": ("-a", seq + "$"), "a": ("-a", seq), "g": ("-g", seq), "b": ("-b", seq),
                          "linked": (rng.choice(["-a", "-g"]), "^" + seq + "..." + pipe.rs(rng, 6) + rng.choice(["", "$"])),
                          "nia": ("-a", seq + "X"), "x5": ("-g", "X" + seq)}[kind]
            if kind == "linked":
                par = ""
            name = rng.choice(["", "", f"n{i}=", f"n{i}=", "dup="])
            argv += [flag, name + spec + par]
        args = parser.parse_args(argv + ["in.fastq"])
        logging.disable(logging.CRITICAL)
        try:
            ads, _ = cli.adapters_from_args(args)
        except cli.CommandLineError:
            ctx.count("regroup:cmdline-error")
            continue
        finally:
            logging.disable(logging.NOTSET)
        cutter = AdapterCutter(ads, 1, "trim", True)
        pos = lambda a: next(i for i, x in enumerate(ads) if x is a)
        entries, members = [], []
        for obj in cutter.adapters._adapters:
            if isinstance(obj, (A.IndexedPrefixAdapters, A.IndexedSuffixAdapters)):
                mem = list(obj._index._adapters)
                entries.append(dict(index="prefix" if isinstance(obj, A.IndexedPrefixAdapters) else "suffix",
                                    members=[pos(a) for a in mem], names=[a.name for a in mem]))
                members += [a.name for a in mem]
                ctx.nontriv(("regroup", tuple(argv)))
                ctx.count("regroup:index-built")
            else:
                entries.append(dict(pos=pos(obj), name=obj.name))
        names = [e["name"] if "name" in e else f"indexed_{e['index']}_adapters" for e in entries] + members
        real = json.dumps(dict(entries=entries, names=names), sort_keys=True)
        cases.append(("regroup " + json.dumps(dict(adapters=[pipe.adapter_json(a) for a in ads])), real, argv))
    outs = core.run_driver([c[0] for c in cases])
    for (line, real, argv), out in zip(cases, outs):
        try:
            model = json.dumps(json.loads(out), sort_keys=True)
        except ValueError:
            model = out
        ctx.evaluations += 1
        ctx.corr_ops["regroup"] = ctx.corr_ops.get("regroup", 0) + 1
        if model != real:
            ctx.diffs.append(core.Diff("regroup", json.dumps(argv), real, model))


def run(ctx):
    _mods()
    regroup_correspondence(ctx, ctx.scale(400, 4000))
    ctx.rule = ("sets of 2-8 anchored 5' or 3' adapters over ACGT, lengths 4-12 (thorough: up to 14), 0-3 allowed errors (rates and absolute "
                "counts with int(len*rate) in 0..3), equal and mixed lengths, near-duplicates (1-2 substitutions/indels apart, one a prefix/"
                "suffix of another, several variants at one position), indels on/off for the whole set or per adapter (about a third of the sets "
                "mix adapters with and without indels, with individual error rates); reads: mutated adapter copy + random tail/head, exactly one "
                "adapter, shorter than the longest indexed string, random, two adapters, with N, lower-case; non-trivial = distinct (set, read) "
                "with an indexed match that has >= 1 error, or a non-empty string with k >= 1 for edit_environment")
    sphere_env_cases(ctx, ctx.scale(1500, 8000))
    if ctx.tier == "thorough":
        sphere_env_exhaustive(ctx, 5)
        random_sets(ctx, 10000, 16, 14, 1.0, 3, 4)
        exhaustive_pairs(ctx, 5, 6, float(os.environ.get("VERIF_C08_BUDGET", "900")))
    else:
        random_sets(ctx, 3000, 14, 12, 0.04, 2, 3)


def extended_search(ctx):
    random_sets(ctx, 3000, 16, 12, 0.05, 3, 4)


def replay(ctx, rp):
    fl = rp.get("failure") or {}
    inp = fl.get("input") or {}
    if "adapters" not in inp:
        print("nothing to replay; re-run the check")
        return 2
    kind, indels, ads, read = inp["kind"], inp["indels"], [tuple(x) for x in inp["adapters"]], inp["read"]
    indels = indels if isinstance(indels, bool) else tuple(indels)
    order = inp.get("order")
    adapters, ix, err = build_real(kind, indels, ads)
    perms = make_perms(ctx, kind, indels, ads, adapters, ix, 0)
    if order and perms:
        A = _mods()
        pa = [adapters[i] for i in order]
        perms = [(tuple(order), pa, (A.IndexedPrefixAdapters if kind == "prefix" else A.IndexedSuffixAdapters)(pa), A.MultipleAdapters(pa))]
    m = oracle_read(ctx, kind, indels, ads, adapters, ix, read, perms)
    print("implementation:", show(adapters, m))
    for f in ctx.failures:
        print("oracle:", f.signature, "got", f.got, "expected", f.expected)
    return 1 if ctx.failures else 0
