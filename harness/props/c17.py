"""C17 — the info file locates every match and reconstructs every read.
Correspondence: pipeline level with --info-file. Oracle: rows parsed and replayed against the input reads."""
import pipe
import pipeprop
import oracle_align as OA
from pipeprop import rid, revcomp, case_input
from core import Failure

LEVEL = "proof"
FOCUS = ("info", "adapters", "times", "revcomp", "cut", "quality", "nextseq")


def five_prime_removal_possible(argv, is_rc=False):
    """does the command line remove bases, before adapter trimming, from the end that is the 5' end in the orientation the
    info file shows (for rows flagged as reverse-complemented that is the read's 3' end)?"""
    for i, t in enumerate(argv):
        if t == "-u" and ((int(argv[i + 1]) > 0) != is_rc):
            return True
        if t == "-q":
            v = argv[i + 1].split(",")
            front, back = (int(v[0]), int(v[1])) if len(v) == 2 else (0, int(v[0]))
            if (back if is_rc else front) > 0:
                return True
        if t == "--nextseq-trim" and is_rc:
            return True
    return False


def oracle(ctx, case, res, real):
    argv = case["argv"]
    if "--info-file" not in argv:
        return
    if "error" in real:
        if real["error"] != "cmdline":
            pipeprop.crash_failures(ctx, "C17", case, real)
        return
    if any(o in argv for o in ("-x", "-y", "--rename", "--strip-suffix", "--length-tag")):
        return
    import cutadapt.cli as cli
    import cutadapt.adapters as A
    parser = cli.get_argument_parser()
    _, in_args = pipe.inputs_of(case)
    args = parser.parse_args(list(argv) + in_args)
    import logging
    logging.disable(logging.CRITICAL)
    try:
        ads, _ = cli.adapters_from_args(args)
    finally:
        logging.disable(logging.NOTSET)
    by_name = {}
    for a in ads:
        by_name[a.name] = a
    inp = case_input(case)
    rows = [l.split("\t") for l in real["texts"]["info.txt"]]
    groups = {}
    order = []
    for r in rows:
        k = rid(r[0])
        if k not in groups:
            order.append(k)
        groups.setdefault(k, []).append(r)
    ids = [rid(r[0]) for r in case["reads1"]]
    if [k for k in order] != [k for k in ids if k in groups] or set(ids) - set(groups):
        ctx.failures.append(Failure("C17/row-per-read", "not every input read has a row in the info file (in input order)", inp, order, ids))
        return
    for name, s, q in case["reads1"]:
        rs_ = groups[rid(name)]
        if rs_[0][1] == "-1":
            if len(rs_) != 1:
                ctx.failures.append(Failure("C17/unmatched-rows", "a read without match has more than one row", inp, rs_, None))
            continue
        is_rc = rs_[0][-1] == "1"
        cur_s, cur_q = (revcomp(s), (q or "")[::-1]) if is_rc else (s, q or "")
        if is_rc:
            ctx.count("rc-read")
        for r in rs_:
            if len(r) < 12:
                ctx.failures.append(Failure("C17/row-shape", "match row has too few fields", inp, r, None))
                break
            errors, start, end = int(r[1]), int(r[2]), int(r[3])
            left, mid, right, aname, ql, qm, qr = r[4], r[5], r[6], r[7], r[8], r[9], r[10]
            linked_part = None
            if aname.endswith(";1") or aname.endswith(";2"):
                linked_part = aname[-1]
                aname = aname[:-2]
            # `lowercase` upper-cases the read first: compare case-insensitively for that action only
            same = (lambda a, b: a.upper() == b.upper()) if "lowercase" in argv else (lambda a, b: a == b)
            if not same(left + mid + right, cur_s) or len(left) != start or len(left) + len(mid) != end:
                ctx.failures.append(Failure("C17/paired-revcomp-swapped-mates" if case["paired"] and is_rc else "C17/fields-do-not-concatenate", "the three sequence fields do not concatenate to the current read at the reported coordinates",
                                            inp, r, cur_s))
                break
            if q is not None and ((ql + qm + qr) != cur_q or len(ql) != start or len(qm) != len(mid)):
                ctx.failures.append(Failure("C17/paired-revcomp-swapped-mates" if case["paired"] and is_rc else "C17/quality-fields", "the quality fields are not split at the same coordinates", inp, r, cur_q))
                break
            ad = by_name.get(aname)
            if ad is not None:
                part = ad
                if isinstance(ad, A.LinkedAdapter):
                    part = ad.front_adapter if linked_part == "1" else ad.back_adapter
                aseq = part.sequence
                eq = lambda a, b: OA.doc_match(a, b, part.adapter_wildcards, part.read_wildcards)  # noqa
                c = 1 if part.indels else 100000
                best = None
                if len(aseq) <= 14 and len(mid) <= 20:
                    for as_ in range(len(aseq) + 1):
                        for ae in range(as_, len(aseq) + 1):
                            d = OA.dist(aseq[as_:ae], mid, eq, c)
                            if best is None or d < best:
                                best = d
                            if d == errors:
                                break
                    ok = any(OA.dist(aseq[as_:ae], mid, eq, c) == errors for as_ in range(len(aseq) + 1) for ae in range(as_, len(aseq) + 1)
                             if ae - as_ >= max(1, len(mid) - errors))
                    if not ok:
                        if case["paired"] and is_rc:
                            sig = "C17/paired-revcomp-swapped-mates"
                        elif five_prime_removal_possible(argv, is_rc):
                            sig = "C17/middle-field-after-5prime-removal"
                        else:
                            sig = "C17/middle-not-aligned-stretch"
                        ctx.failures.append(Failure(sig, "the middle field is not the stretch aligned to the named adapter with the reported number of errors",
                                                    inp, r, dict(adapter=aseq, errors=errors)))
                        break
                ctx.nontriv(("row", name, tuple(r[:4])))
                before = isinstance(part, A.FrontAdapter) or (isinstance(part, A.AnywhereAdapter) and start == 0)
                if isinstance(part, A.AnywhereAdapter):
                    before = start == 0
                if before:
                    cur_s, cur_q = cur_s[end:], cur_q[end:]
                else:
                    cur_s, cur_q = cur_s[:start], cur_q[:start]


def run(ctx):
    pipeprop.run(ctx, "C17", FOCUS, oracle, 300, 5000,
                 "random command lines with --info-file, adapters of all types incl. linked, --times, --revcomp and the modifications that run before "
                 "adapter trimming (-u +/-, -q a,b, --nextseq-trim); non-trivial = distinct match row checked", nontrivial=lambda c, r: False)
    # rows of matches found through the adapter index (default mode with several anchored adapters)
    def extras(rng):
        e = ["--info-file", "{dir}/info.txt"]
        if rng.random() < 0.3:
            e += ["--times", "2"]
        if rng.random() < 0.3:
            e += ["--action", rng.choice(["mask", "none", "lowercase", "retain"])] if "--times" not in e else ["--action", rng.choice(["mask", "none"])]
        return e
    pipeprop.indexed_sweep(ctx, oracle, 60, 1500, extras)
    # occurrences with a net insertion or deletion (aligned read bases != aligned adapter bases) for every 5'/3' adapter type, `rightmost` included:
    # the coordinates in the row must be those of the stretch of the *read*
    rng = ctx.rng
    cases = []
    for _ in range(ctx.scale(40, 600)):
        ad = pipe.rs(rng, rng.randint(11, 14))
        flag, spec = rng.choice([("-g", ad + ";rightmost"), ("-g", ad + ";rightmost"), ("-g", ad), ("-a", ad), ("-b", ad), ("-g", "^" + ad), ("-a", ad + "$")])
        argv = ["--no-index", flag, "a0=" + spec + ";e=0.2", "--info-file", "{dir}/info.txt", "-o", "{dir}/o1.fastq"]
        reads = []
        for i in range(8):
            occ = list(ad)
            for _e in range(rng.choice([1, 1, 2])):
                j = rng.randrange(1, len(occ) - 1)
                if rng.random() < 0.5:
                    del occ[j]
                else:
                    occ.insert(j, rng.choice("ACGT"))
            occ = "".join(occ)
            left, right = pipe.rs(rng, rng.randint(0, 8)), pipe.rs(rng, rng.randint(0, 8))
            if "^" in spec:
                left = ""
            if "$" in spec:
                right = ""
            s_ = left + occ + right
            if "rightmost" in spec and rng.random() < 0.5:
                s_ = left + occ + pipe.rs(rng, 3) + ad + right
            reads.append((f"r{i}", s_, "I" * len(s_)))
            if "^" in spec and rng.random() < 0.6:
                # an exact copy, then a read a little *shorter* than the anchored adapter (a deletion, often a further substitution near the end):
                # what the aligner reports for a read must not depend on the read it saw before
                reads.append((f"r{i}e", ad + pipe.rs(rng, rng.randint(0, 5)), None))
                sh = list(ad)
                del sh[rng.randrange(1, len(sh) - 2)]
                if rng.random() < 0.7:
                    j = len(sh) - 1 - rng.randint(0, 1)
                    sh[j] = rng.choice([c for c in "ACGT" if c != sh[j]])
                reads.append((f"r{i}s", "".join(sh), None))
        reads = [(n_, s_, "I" * len(s_)) for n_, s_, _ in reads]
        cases.append(dict(argv=argv, paired=False, reads1=reads, reads2=None, with_qual=True, interleaved_in=False))
    for case, res, real, model in pipe.run_cases(ctx, cases):
        ctx.count("directed-net-indel")
        oracle(ctx, case, res, real)
    # a linked adapter found with both parts (two rows, `;1` and `;2`) in one round and a further match in a later round (`--times 2/3`): the rows of the
    # later round are split from what the *previous round* left - the read advances once per round, not once per row
    cases = []
    for _ in range(ctx.scale(40, 600)):
        f_, b_, c_ = pipe.rs(rng, rng.randint(9, 12)), pipe.rs(rng, rng.randint(9, 12)), pipe.rs(rng, rng.randint(10, 12))
        anch = rng.choice(["", "^"])
        linked = f"a0={anch}{f_}...{b_}"
        other = rng.choice([("-a", "a1=" + c_), ("-g", "a1=" + c_), ("-b", "a1=" + c_)])
        argv = ["--no-index", rng.choice(["-a", "-g"]), linked, other[0], other[1], "--times", str(rng.choice([2, 2, 3])),
                "--info-file", "{dir}/info.txt", "-o", "{dir}/o1.fastq"]
        if rng.random() < 0.3:
            argv += ["--action", rng.choice(["mask", "none"])]
        reads = []
        for i in range(8):
            i1, i2 = pipe.rs(rng, rng.randint(4, 12)), pipe.rs(rng, rng.randint(4, 12))
            kind = rng.random()
            if kind < 0.6:
                s_ = f_ + i1 + c_ + i2 + b_ + pipe.rs(rng, rng.randint(0, 6))      # both parts, the other adapter between them
            elif kind < 0.8:
                s_ = f_ + i1 + c_ + i2                                            # 5' part only
            else:
                s_ = f_ + i1 + b_ + i2
            if not anch and rng.random() < 0.4:
                s_ = pipe.rs(rng, rng.randint(1, 5)) + s_
            reads.append((f"r{i}", s_, "".join(chr(33 + rng.randint(2, 40)) for _ in s_)))
        cases.append(dict(argv=argv, paired=False, reads1=reads, reads2=None, with_qual=True, interleaved_in=False))
    for case, res, real, model in pipe.run_cases(ctx, cases):
        ctx.count("directed-linked-then-later-round")
        oracle(ctx, case, res, real)
    # the info file of a run with worker processes and several chunks per worker (many reads with a match early in the file, few later: the text a
    # worker produces for a chunk shrinks from chunk to chunk): still one row group per read, in input order, each reconstructing its read
    for _ in range(ctx.scale(3, 20)):
        ad = pipe.rs(rng, 12)
        n = rng.randint(120, 200)
        reads = []
        for i in range(n):
            body = pipe.rs(rng, rng.randint(20, 40), "AC" if ad[0] in "GT" else "GT")
            s_ = body + ad + pipe.rs(rng, rng.randint(0, 6)) if rng.random() < (1.0 - i / n) else body
            reads.append((f"r{i}", s_, "I" * len(s_)))
        size = sum(len(n_) + 2 * len(s_) + 6 for n_, s_, _ in reads)
        case = dict(argv=["--no-index", "-a", "a0=" + ad, "--info-file", "{dir}/info.txt", "-o", "{dir}/o1.fastq"], paired=False, reads1=reads, reads2=None,
                    with_qual=True, interleaved_in=False, cores=2, buffer_size=max(400, size // rng.randint(5, 9)))
        res, real = pipe.run_real(case)
        ctx.evaluations += 1
        ctx.count("multicore-info-file")
        before = len(ctx.failures)
        oracle(ctx, case, res, real)
        for f in ctx.failures[before:]:
            f.input = dict(f.input, cores=2, buffer_size=case["buffer_size"])


def extended_search(ctx):
    pipeprop.run(ctx, "C17", FOCUS, oracle, 2000, 2000, ctx.rule, nontrivial=lambda c, r: False)


replay = pipeprop.generic_replay("C17", oracle)
