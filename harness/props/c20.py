"""C20 — per-adapter statistics describe exactly the matches that were applied.
Correspondence: `eranges` (function level) and pipeline level (per-adapter EndStatistics of the Statistics object).
Oracle: (a) allowed-error ranges vs int(L * rate); (b) JSON report `adapters_read1/2` vs a tally of the --info-file rows."""
import pipe
import pipeprop
from pipeprop import case_input
from core import Failure, correspond, bits

LEVEL = "proof"
FOCUS = ("adapters", "info", "times", "action", "revcomp", "nolinked")
RATES = [0.0, 0.05, 0.1, 0.12, 0.15, 0.2, 0.25, 0.3, 1 / 3, 0.34, 0.4, 0.5, 0.57, 0.9]


def allowed_at(ranges, L):
    for i, r in enumerate(ranges):
        if L <= r:
            return i
    return None


def error_ranges_cases(ctx):
    from cutadapt.report import ErrorRanges
    cases = []
    for length in range(1, ctx.scale(41, 65)):
        for rate in RATES:
            er = ErrorRanges(length, rate)
            lens = er.lengths()
            cases.append((f"eranges {length} {bits(rate)}", str(lens)))
            ctx.nontriv(("er", length, rate)) if len(lens) > 1 else None
            bad = [L for L in range(1, length + 1) if allowed_at(lens, L) != int(L * rate)]
            if bad:
                ctx.failures.append(Failure("C20/error-ranges", "the 'allowed errors' ranges do not state int(L * max_error_rate) for every match length",
                                            dict(length=length, error_rate=rate), dict(lengths=lens, text=str(er), wrong_at=bad[:5]),
                                            [int(L * rate) for L in range(1, length + 1)]))
    ctx.sample(dict(op_line=cases[40][0], impl=cases[40][1]))
    correspond(ctx, "eranges", cases)


def tally_oracle(ctx, case, res, real):
    """tally of the info-file rows (single-end, adapters without linked) vs the JSON report"""
    argv = case["argv"]
    if "error" in real or case["paired"] or "--info-file" not in argv or any("..." in t for t in argv):
        return
    if any(o in argv for o in ("-x", "-y", "--rename", "--strip-suffix", "--length-tag")):
        return
    if any(o in argv for o in ("-u", "-q", "--nextseq-trim")):
        return   # info-file sequence fields are unreliable after 5'/3' removal before adapter trimming (C17's subject)
    res2, real2 = pipe.run_real(case, want_json=True)
    if res2.json is None or "error" in real2:
        return
    rows = [l.split("\t") for l in real2["texts"]["info.txt"]]
    compare_tally(ctx, case_input(case), argv, rows, res2.json)


def compare_tally(ctx, inp, argv, rows, j):
    tally = {}
    nreads_with = set()
    for r in rows:
        if r[1] == "-1":
            continue
        name, errors, start, end, left, mid, right, aname = r[0], int(r[1]), int(r[2]), int(r[3]), r[4], r[5], r[6], r[7]
        nreads_with.add(name)
        tally.setdefault(aname, []).append((errors, left, mid, right, start))
    if (j["read_counts"]["read1_with_adapter"] or 0) != len(nreads_with):
        ctx.failures.append(Failure("C20/with-adapters", "read1_with_adapter differs from the number of reads with a match row", inp,
                                    j["read_counts"]["read1_with_adapter"], len(nreads_with)))
    for a in j["adapters_read1"]:
        rowsa = tally.get(a["name"], [])
        if a["total_matches"] != len(rowsa):
            ctx.failures.append(Failure("C20/total-matches", "total_matches differs from the number of applied matches", inp, a["total_matches"], len(rowsa)))
            continue
        for end_key, is5 in (("five_prime_end", True), ("three_prime_end", False)):
            e = a[end_key]
            if e is None:
                continue
            both = a["five_prime_end"] is not None and a["three_prime_end"] is not None   # anywhere adapter
            hist = {}
            adj = {}
            for errors, left, mid, right, start in rowsa:
                five = (start == 0) if both else is5
                if five != is5:
                    continue
                rem = len(left) + len(mid) if is5 else len(mid) + len(right)
                hist.setdefault(rem, {}).setdefault(errors, 0)
                hist[rem][errors] += 1
                if not is5:
                    b = left[-1:] if left else ""
                    b = b if b in ("A", "C", "G", "T") else ""
                    adj[b] = adj.get(b, 0) + 1
            got = {row["len"]: {i: c for i, c in enumerate(row["counts"]) if c} for row in e["trimmed_lengths"]}
            if got != hist:
                ctx.failures.append(Failure("C20/length-histogram", f"trimmed_lengths of {a['name']} ({end_key}) differ from the tally of applied matches",
                                            inp, got, hist))
            if not is5 and e["adjacent_bases"] is not None:
                gadj = {("" if k == "" else k): v for k, v in e["adjacent_bases"].items() if v}
                if gadj != adj:
                    ctx.failures.append(Failure("C20/adjacent-bases", "adjacent_bases differ from the tally", inp, gadj, adj))
            if e["error_lengths"] is not None:
                L = len(e["sequence"]) - (e["sequence"].count("N") if any(c in "NRYSWKMBDHV" for c in e["sequence"]) else 0)
                bad = [x for x in range(1, L + 1) if allowed_at(e["error_lengths"], x) != int(x * e["error_rate"])]
                if bad:
                    ctx.failures.append(Failure("C20/error-ranges", "reported error_lengths do not state int(L * rate)", inp, e["error_lengths"], bad[:5]))
        if "--revcomp" in argv:
            nrc = sum(1 for r in rows if r[1] != "-1" and r[7] == a["name"] and r[-1] == "1")
            if (a["on_reverse_complement"] or 0) != nrc:
                ctx.failures.append(Failure("C20/on-reverse-complement", "on_reverse_complement differs from the tally", inp, a["on_reverse_complement"], nrc))
    ctx.count("tally-checked")


def paired_r2_tally(ctx, case):
    """paired-end run (possibly with worker processes): the per-adapter statistics of the R2 adapters against the tally of the matches that a
    single-end run with the same adapters applies to the R2 reads (matching looks at one read at a time; statistics are taken before filters)"""
    res2, real2 = pipe.run_real(case, want_json=True)
    if res2.json is None or "error" in real2:
        return
    flip = {"-A": "-a", "-G": "-g", "-B": "-b"}
    argv = case["argv"]
    ref = ["--no-index"] if "--no-index" in argv else []
    for i, t in enumerate(argv):
        if t in flip:
            ref += [flip[t], argv[i + 1]]
        elif t == "--times":
            ref += [t, argv[i + 1]]
    ref += ["--info-file", "{dir}/info.txt", "-o", "{dir}/o1.fastq"]
    rc = dict(argv=ref, paired=False, reads1=case["reads2"], reads2=None, with_qual=True, interleaved_in=False)
    _, realr = pipe.run_real(rc)
    if "error" in realr:
        return
    rows = [l.split("\t") for l in realr["texts"]["info.txt"]]
    j = res2.json
    jj = dict(read_counts=dict(read1_with_adapter=j["read_counts"]["read2_with_adapter"]), adapters_read1=j["adapters_read2"])
    inp = dict(case_input(case), cores=case.get("cores"), buffer_size=case.get("buffer_size"), side="R2")
    compare_tally(ctx, inp, ref, rows, jj)


def linked_tally(ctx):
    """linked adapters: the statistics of the 5' end hold the matches of the 5' part (its own removed length and its own error count), those of the
    3' end the matches of the 3' part - recomputed with the two parts searched one after the other, as documented"""
    import logging
    import cutadapt.cli as cli
    rng = ctx.rng
    def mut(t, k):
        t = list(t)
        for _ in range(k):
            j = rng.randrange(len(t))
            t[j] = rng.choice([c for c in "ACGT" if c != t[j]])
        return "".join(t)
    for _ in range(ctx.scale(6, 60)):
        F, B = rng.choice([("ACGGATTCAGGCTTAC", "GCTTAGGACCATTGCA"), ("AAAGGGCCCTTTGGAC", "TTAGGCATCGGATCCA")])
        spec = rng.choice(["", "^"]) + F + "..." + B + rng.choice(["", "$"])
        argv = ["--no-index", rng.choice(["-a", "-g"]), "lnk=" + spec, "-e", rng.choice(["0.15", "0.2"]), "-o", "{dir}/o1.fastq"]
        reads = []
        for i in range(rng.randint(20, 40)):
            ins = pipe.rs(rng, rng.randint(5, 15))
            f = mut(F, rng.choice([0, 1, 1, 2])) if rng.random() < 0.85 else ""
            b = mut(B, rng.choice([0, 0, 1, 2])) if rng.random() < 0.85 else ""
            s_ = (pipe.rs(rng, rng.randint(0, 3)) if not spec.startswith("^") and rng.random() < 0.5 else "") + f + ins + b + \
                 (pipe.rs(rng, rng.randint(0, 4)) if not spec.endswith("$") and rng.random() < 0.5 else "")
            reads.append((f"r{i}", s_, "I" * len(s_)))
        case = dict(argv=argv, paired=False, reads1=reads, reads2=None, with_qual=True, interleaved_in=False)
        res2, real2 = pipe.run_real(case, want_json=True)
        ctx.evaluations += 1
        if res2.json is None or "error" in real2:
            continue
        parser = cli.get_argument_parser()
        args = parser.parse_args([t for t in argv if t != "{dir}/o1.fastq" and t != "-o"] + ["in.fastq"])
        logging.disable(logging.CRITICAL)
        try:
            pipe.patch_prefilter()
            ads, _ = cli.adapters_from_args(args)
        finally:
            logging.disable(logging.NOTSET)
        la = ads[0]
        front, back, nmatch, adj = {}, {}, 0, {}
        for n_, s_, _q in reads:
            fm = la.front_adapter.match_to(s_)
            if la.front_required and fm is None:
                continue
            rest = s_[fm.rstop:] if fm is not None else s_
            bm = la.back_adapter.match_to(rest)
            if bm is None and (la.back_required or fm is None):
                continue
            nmatch += 1
            if fm is not None:
                front.setdefault(fm.rstop, {}).setdefault(fm.errors, 0)
                front[fm.rstop][fm.errors] += 1
            if bm is not None:
                rem = len(rest) - bm.rstart
                back.setdefault(rem, {}).setdefault(bm.errors, 0)
                back[rem][bm.errors] += 1
                c = rest[bm.rstart - 1: bm.rstart] if bm.rstart > 0 else ""
                c = c if c in ("A", "C", "G", "T") else ""
                adj[c] = adj.get(c, 0) + 1
        a = res2.json["adapters_read1"][0]
        inp = dict(case_input(case), linked=True)
        ctx.count("linked-tally-run")
        if front or back:
            ctx.nontriv(("linked-tally", tuple(argv), len(reads)))
        nparts = sum(c for d_ in front.values() for c in d_.values()) + sum(c for d_ in back.values() for c in d_.values())
        if a["total_matches"] != nparts:
            ctx.failures.append(Failure("C20/total-matches", "total_matches of a linked adapter differs from the number of 5' part matches plus 3' part matches that "
                                        "were applied", inp, a["total_matches"], nparts))
            continue
        for key, exp in (("five_prime_end", front), ("three_prime_end", back)):
            e = a[key] or {}
            got = {row["len"]: {i: c for i, c in enumerate(row["counts"]) if c} for row in (e.get("trimmed_lengths") or [])}
            if got != exp:
                ctx.failures.append(Failure("C20/length-histogram", f"trimmed_lengths of the linked adapter ({key}) differ from the tally of the matches of that part "
                                            "(removed length and the part's own error count)", inp, got, exp))
        gadj = {k: v for k, v in ((a["three_prime_end"] or {}).get("adjacent_bases") or {}).items() if v}
        if gadj != adj:
            ctx.failures.append(Failure("C20/adjacent-bases", "adjacent_bases of the linked adapter's 3' part differ from the tally", inp, gadj, adj))


def pair_adapters_tally(ctx):
    """--pair-adapters with a combinatorial dual-index layout (every R1 adapter and every R2 adapter occurs in two pairs): the statistics of the j-th
    R1 adapter and of the j-th R2 adapter count exactly the pairs to which adapter pair j was applied (by construction: exact copies, -O 8)"""
    rng = ctx.rng
    for _ in range(ctx.scale(5, 50)):
        A = [pipe.rs(rng, 12) for _ in range(2)]
        B = [pipe.rs(rng, 12) for _ in range(2)]
        ranks = [(0, 0), (0, 1), (1, 0), (1, 1)]
        rng.shuffle(ranks)
        argv = ["--no-index", "-O", "8", "--pair-adapters"]
        for j, (x, y) in enumerate(ranks):
            argv += ["-a", f"p{j}={A[x]}"]
        for j, (x, y) in enumerate(ranks):
            argv += ["-A", f"q{j}={B[y]}"]
        argv += ["-o", "{dir}/o1.fastq", "-p", "{dir}/o2.fastq"]
        r1, r2, count = [], [], [0, 0, 0, 0]
        for i in range(rng.randint(30, 60)):
            b1, b2 = pipe.rs(rng, rng.randint(10, 20), "AC"), pipe.rs(rng, rng.randint(10, 20), "AC")
            if rng.random() < 0.85:
                j = rng.randrange(4)
                x, y = ranks[j]
                b1, b2 = b1 + A[x], b2 + B[y]
                count[j] += 1
            r1.append((f"r{i}", b1, "I" * len(b1)))
            r2.append((f"r{i}", b2, "5" * len(b2)))
        size = sum(len(n) + 2 * len(s_) + 6 for n, s_, _ in r1)
        case = dict(argv=argv, paired=True, reads1=r1, reads2=r2, with_qual=True, interleaved_in=False)
        if rng.random() < 0.5:
            case["cores"], case["buffer_size"] = rng.choice([2, 3]), max(300, size // 4)
        res2, real2 = pipe.run_real(case, want_json=True)
        ctx.evaluations += 1
        ctx.count("pair-adapters-tally-run")
        if res2.json is None or "error" in real2:
            continue
        inp = dict(case_input(case), cores=case.get("cores"), pair_adapters=True)
        got1 = [a["total_matches"] for a in res2.json["adapters_read1"]]
        got2 = [a["total_matches"] for a in res2.json["adapters_read2"]]
        if got1 != count or got2 != count:
            ctx.failures.append(Failure("C20/total-matches", "with --pair-adapters the statistics of the j-th R1 / R2 adapter differ from the number of pairs to which adapter "
                                        "pair j was applied", inp, dict(read1=got1, read2=got2), count))
        else:
            ctx.nontriv(("pair-adapters-tally", tuple(argv)))


def run(ctx):
    error_ranges_cases(ctx)
    linked_tally(ctx)
    pair_adapters_tally(ctx)
    pipeprop.run(ctx, "C20", FOCUS, tally_oracle, 300, 5000,
                 "function level: ErrorRanges for all lengths 1..40(64) x 14 rates; pipeline level: random command lines with adapters, --info-file, --times, "
                 "actions, --revcomp; non-trivial = distinct case with at least one applied match / a range list with more than one entry",
                 nontrivial=lambda c, r: (r.get("with_adapters1", 0) + r.get("with_adapters2", 0)) > 0)
    # statistics of matches found through the adapter index (default mode with several anchored adapters)
    def extras(rng):
        e = ["--info-file", "{dir}/info.txt"]
        if rng.random() < 0.3:
            e += ["--times", "2"]
        if rng.random() < 0.3:
            e += ["--action", rng.choice(["mask", "none", "lowercase"])]
        return e
    pipeprop.indexed_sweep(ctx, tally_oracle, 60, 1500, extras)
    # "the reads of that run": the tally must also hold when the run used several worker processes (statistics of the workers are merged)
    rng = ctx.rng
    comp = str.maketrans("ACGT", "TGCA")
    for _ in range(ctx.scale(6, 60)):
        ads = [("-a", "a0=AAAGGGCCC"), ("-g", "a1=GATTACAGA"), ("-b", "a2=TTAGGCATC"), ("-a", "a3=CCGGTTAAC;e=0.2")]
        use = rng.sample(ads, rng.randint(1, 3))
        argv = ["--no-index"] + [t for fl, sp in use for t in (fl, sp)]
        if rng.random() < 0.7:
            argv.append("--revcomp")
        if rng.random() < 0.5:
            argv += ["--times", "2"]
        argv += ["--info-file", "{dir}/info.txt", "-o", "{dir}/o1.fastq"]
        plain = [sp.split("=")[1].split(";")[0] for fl, sp in use]
        reads = []
        for i in range(rng.randint(30, 60)):
            s_ = pipe.embed(rng, pipe.rs(rng, rng.randint(8, 30)), plain)
            if rng.random() < 0.3:
                s_ = pipe.embed(rng, s_, plain)
            if rng.random() < 0.5:
                s_ = s_.translate(comp)[::-1]
            reads.append((f"r{i}", s_, "I" * len(s_)))
        size = sum(len(n) + 2 * len(s_) + 6 for n, s_, _ in reads)
        case = dict(argv=argv, paired=False, reads1=reads, reads2=None, with_qual=True, interleaved_in=False,
                    cores=rng.choice([2, 3]), buffer_size=max(200, size // rng.randint(3, 6)))
        tally_oracle(ctx, case, None, {})
        ctx.count("tally-multicore-run")
    # paired-end with worker processes: adapters for R2 only, for both reads, for R1 only
    for k in range(ctx.scale(8, 60)):
        ads2 = rng.sample([("-A", "b0=AAAGGGCCC"), ("-G", "b1=GATTACAGA"), ("-B", "b2=TTAGGCATC")], rng.randint(1, 3))
        # every other case: adapters for R2 only (no R1 statistics at all), always with several worker processes and several chunks
        r2_only = k % 2 == 0
        ads1 = [] if r2_only else rng.sample([("-a", "a0=CCGGTTAAC"), ("-g", "a1=TGGAATTCTC")], rng.choice([0, 1, 2]))
        argv = ["--no-index"] + [t for fl, sp in ads1 + ads2 for t in (fl, sp)]
        if rng.random() < 0.4:
            argv += ["--times", "2"]
        argv += ["-o", "{dir}/o1.fastq", "-p", "{dir}/o2.fastq"]
        p2 = [sp.split("=")[1] for fl, sp in ads2]
        p1 = [sp.split("=")[1] for fl, sp in ads1]
        r1, r2 = [], []
        for i in range(rng.randint(30, 60)):
            a = pipe.embed(rng, pipe.rs(rng, rng.randint(8, 30)), p1) if p1 and rng.random() < 0.7 else pipe.rs(rng, rng.randint(8, 30))
            b = pipe.embed(rng, pipe.rs(rng, rng.randint(8, 30)), p2)
            if rng.random() < 0.3:
                b = pipe.embed(rng, b, p2)
            r1.append((f"r{i}", a, "I" * len(a)))
            r2.append((f"r{i}", b, "I" * len(b)))
        size = sum(len(n) + 2 * len(s_) + 6 for n, s_, _ in r1)
        case = dict(argv=argv, paired=True, reads1=r1, reads2=r2, with_qual=True, interleaved_in=False,
                    cores=rng.choice([2, 3, 4]) if r2_only else rng.choice([1, 2, 3, 4]), buffer_size=max(200, size // rng.randint(4, 8)))
        paired_r2_tally(ctx, case)
        ctx.count("tally-paired-r2-run")


def extended_search(ctx):
    pipeprop.run(ctx, "C20", FOCUS, tally_oracle, 2000, 2000, ctx.rule)


def replay(ctx, rp):
    fl = rp.get("failure") or {}
    inp = fl.get("input") or {}
    if "length" in inp:
        from cutadapt.report import ErrorRanges
        lens = ErrorRanges(inp["length"], inp["error_rate"]).lengths()
        bad = [L for L in range(1, inp["length"] + 1) if allowed_at(lens, L) != int(L * inp["error_rate"])]
        print("implementation:", lens, "wrong at lengths:", bad)
        return 1 if bad else 0
    if inp.get("side") == "R2" or inp.get("cores"):
        case = dict(argv=inp["argv"], paired=inp.get("reads2") is not None, reads1=[tuple(r) for r in inp["reads1"]],
                    reads2=[tuple(r) for r in inp["reads2"]] if inp.get("reads2") else None, with_qual=True, interleaved_in=False,
                    cores=inp.get("cores"), buffer_size=inp.get("buffer_size"))
        (paired_r2_tally if case["paired"] else (lambda c, k: tally_oracle(c, k, None, {})))(ctx, case)
        print("oracle failures:", [f.signature for f in ctx.failures])
        return 1 if ctx.failures else 0
    return pipeprop.generic_replay("C20", tally_oracle)(ctx, rp)
