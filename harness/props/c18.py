"""C18 — adapter specifications mean what the documented notation says.

Three layers:
 (a) generators: `gen_doc_spec` builds specifications from the grammar in doc/guide.rst (adapter types, restrictions,
     search parameters incl. abbreviations, names, brace repeats, linked adapters, file:/^file:/file$:) together with a
     structured description; `gen_malformed` mutates them and adds hand-written malformed templates;
     `gen_undocumented` covers combinations the guide is silent about (correspondence only, counted as observations);
 (b) correspondence: the real `make_adapters_from_one_specification` / `expand_braces` / `parse_search_parameters` against the
     Lean model (`parsespec`, `expandbraces`, `parseparams` driver operations); adapter objects are canonicalised attribute by
     attribute (class, sequence, name unless auto-generated, max_error_rate as IEEE bit pattern, min_overlap, indels,
     read_wildcards, adapter_wildcards, force_anywhere; linked: both parts + front_required/back_required);
 (c) oracle `reference()`: written from doc/guide.rst only; says which class/sequence/name/rate/overlap/indels/requiredness a
     documented specification must give, or that it must be rejected (exit status 2 at the command line, sampled with run_cli).
"""
import itertools
import os
import re
import shutil
import tempfile
from fractions import Fraction

import core
from core import Failure, correspond, hx, bits

LEVEL = "proof"
AUTO = "\x00auto"
# Combinations the guide does not spell out but a reader would expect to work or to be rejected cleanly (file-level `anywhere` /
# `rightmost` / `required`, `anywhere` inside a linked part) end in an uncaught TypeError (traceback, exit status 1).  They are
# recorded as observations; set to True to report them as property failures (signatures C18/uncaught-typeerror-*).
OBSERVATIONS_AS_FAILURES = True

# ------------------------------------------------------------------------------------------------
# implementation side


class Impl:
    def __init__(self):
        import cutadapt.adapters as ad
        import cutadapt.parser as pa
        self.ad, self.pa = ad, pa
        ad._generate_adapter_name = lambda: AUTO        # make auto-generated names recognisable
        self.real_kmer_finder = ad.KmerFinder
        self.tmp = tempfile.mkdtemp(prefix="cv-c18-", dir="/var/tmp")
        self.nfile = 0

    def fast(self, on):
        """KmerFinder construction costs 1.8 ms and cannot influence any compared attribute (its ValueError is caught in
        `_make_kmer_finder`); the bulk of the stream runs with a stub, a sample runs with the real class."""
        self.ad.KmerFinder = (lambda *a, **k: self.ad.MockKmerFinder()) if on else self.real_kmer_finder

    def close(self):
        self.fast(False)
        shutil.rmtree(self.tmp, ignore_errors=True)

    def fasta(self, records):
        """write a FASTA file, return (path, records as dnaio reads them)"""
        import dnaio
        self.nfile += 1
        p = os.path.join(self.tmp, f"a{self.nfile % 50}.fa")
        with open(p, "w") as f:
            for h, s in records:
                f.write(f">{h}\n{s}\n")
        with dnaio.open(p) as r:
            got = [(rec.name, rec.sequence) for rec in r]
        return p, got


ERR_SITES = [
    ("KeyError", "Unknown parameter", "unknownParameter"),
    ("ValueError", "No value given", "noValue"),
    ("ValueError", "could not convert string to float", "badNumber"),
    ("KeyError", "Key '", "duplicateKey"),
    ("ValueError", "'optional' and 'required' cannot", "optionalRequired"),
    ("ValueError", "'indels' and 'noindels'", "indelsNoindels"),
    ("ValueError", '"{" must be used after', "braceAfterChar"),
    ("ValueError", '"}" cannot be used here', "braceCloseHere"),
    ("ValueError", "Value ", "braceValue"),
    ("ValueError", "invalid literal for int()", "braceInt"),
    ("ValueError", '"}" expected', "braceExpectedClose"),
    ("ValueError", 'Expected "{"', "braceExpectedOpen"),
    ("ValueError", "Unterminated expression", "braceUnterminated"),
    ("ValueError", "No ellipsis", "ellipsisAnywhere"),
    ("ValueError", "Invalid adapter specification", "invalidSpec"),
    ("ValueError", "You cannot use multiple placement", "multipleRestrictions"),
    ("ValueError", "Allowed placement restrictions for a 5'", "front5"),
    ("ValueError", "Allowed placement restrictions for a 3'", "back3"),
    ("ValueError", "Placement restrictions (with X", "anywhereRestriction"),
    ("ValueError", "Setting 'min_overlap='", "anchoredMinOverlap"),
    ("ValueError", "'rightmost' only allowed", "rightmost"),
    ("ValueError", "'anywhere' (-b) adapters may not be linked", "linkedAnywhere"),
    ("ValueError", "'required' and 'optional' can only", "requiredOutsideLinked"),
    ("ValueError", "Adapter sequence is empty", "emptySequence"),
    ("InvalidCharacter", "", "invalidCharacter"),
    ("ValueError", "Cannot have only N", "onlyN"),
    ("ValueError", "max_error_rate must be between", "rateRange"),
    ("TypeError", "", "typeError"),
]
CMDLINE_CLASSES = ("KeyError", "ValueError", "InvalidCharacter")


def err_str(e):
    cls = type(e).__name__
    msg = str(e.args[0]) if e.args else ""
    for c, pre, site in ERR_SITES:
        if c == cls and msg.startswith(pre):
            return f"error:{cls}:{site}"
    return f"error:{cls}:?{msg[:40]}"


def vrepr(v):
    return repr(v)


def canon_single(a, with_name=True):
    name = "~" if not with_name else ("*" if a.name == AUTO else hx(a.name))
    rate = a.max_error_rate
    return ";".join([
        type(a).__name__, hx(a.sequence), name, "e=%d" % bits(float(rate)), "o=" + vrepr(a.min_overlap),
        "indels=" + vrepr(a.indels), "rw=" + vrepr(a.read_wildcards), "aw=" + ("1" if a.adapter_wildcards else "0"),
        "fa=" + ("1" if getattr(a, "_force_anywhere", False) else "0")])


def canon(a):
    if type(a).__name__ == "LinkedAdapter":
        name = "*" if a.name == AUTO else hx(a.name)
        return (f"LinkedAdapter;{name};fr={vrepr(a.front_required)};br={vrepr(a.back_required)};"
                f"[{canon_single(a.front_adapter, False)}];[{canon_single(a.back_adapter, False)}]")
    return canon_single(a)


TYPE = {"a": "back", "g": "front", "b": "anywhere"}


class G:
    """global options: -e literal, -O, --match-read-wildcards, not -N, not --no-indels"""

    def __init__(self, e="0.1", O=3, rw=False, aw=True, indels=True):
        self.e, self.O, self.rw, self.aw, self.indels = e, O, rw, aw, indels

    def params(self):
        return dict(max_errors=float(self.e), min_overlap=self.O, read_wildcards=self.rw, adapter_wildcards=self.aw,
                    indels=self.indels)

    def line(self):
        return f"f:{self.e} i:{self.O} {int(self.rw)} {int(self.aw)} {int(self.indels)}"

    def argv(self):
        a = ["-e", self.e, "-O", str(self.O)]
        if self.rw:
            a.append("--match-read-wildcards")
        if not self.aw:
            a.append("-N")
        if not self.indels:
            a.append("--no-indels")
        return a

    def key(self):
        return (self.e, self.O, self.rw, self.aw, self.indels)

    def default(self):
        return self.key() == ("0.1", 3, False, True, True)


def impl_make(impl, letter, spec, g):
    """returns (canonical string, list of adapters or None, exception or None)"""
    try:
        ads = list(impl.pa.make_adapters_from_one_specification(spec, TYPE[letter], g.params()))
    except Exception as e:  # noqa
        return err_str(e), None, e
    return (" ".join(canon(a) for a in ads) if ads else "none"), ads, None


def spec_line(letter, spec, g, records=None):
    line = f"parsespec {letter} {hx(spec)} {g.line()}"
    if records:
        line += " " + " ".join(f"{hx(h)}:{hx(s)}" for h, s in records)
    return line


# ------------------------------------------------------------------------------------------------
# (a) grammar from doc/guide.rst

E_NAMES = ["e", "max_errors", "max_error_rate"]          # "e, max_error_rate and max_errors are all equivalent"
O_NAMES = ["o", "min_overlap"]
E_VALUES = ["0", "0.05", "0.1", "0.15", "0.2", "0.25", "0.5", "0.99", "1", "1.0", "1.5", "2", "2.5", "3", "4", "7", "0.0", "0.125"]
O_VALUES = ["1", "2", "3", "4", "5", "6", "8", "10", "20", "100"]
SEQ_ALPHABET = "ACGT" * 8 + "N" * 4 + "RYSWKMBDHV" + "acgtn" + "UuIi"


class Part:
    """one adapter as written: [name=][^|X]RUNS[$|X][;param[=value]]*"""

    def __init__(self, name, restr, runs, params):
        self.name, self.restr, self.runs, self.params = name, restr, runs, params

    def render(self):
        pre = {"^": "^", "XL": "X"}.get(self.restr, "")
        suf = {"$": "$", "XR": "X"}.get(self.restr, "")
        s = "".join(c + ("" if n is None else "{%d}" % n) for c, n in self.runs)
        s = pre + s + suf
        if self.name is not None:
            s = self.name + "=" + s
        for k, v in self.params:
            s += ";" + k + ("" if v is None else "=" + v)
        return s

    def seq(self):
        return "".join(c * (1 if n is None else n) for c, n in self.runs)

    def features(self):
        f = []
        if self.name is not None:
            f.append("name")
        if self.restr:
            f.append("restr" + self.restr)
        if any(n is not None for c, n in self.runs):
            f.append("braces")
        f += ["p:" + k for k, v in self.params]
        return f


def gen_runs(rng, maxruns=8):
    runs = []
    for _ in range(rng.randint(1, maxruns)):
        c = rng.choice(SEQ_ALPHABET)
        n = None if rng.random() < 0.75 else rng.choice([0, 1, 2, 3, 4, 5, 10, 12])
        runs.append((c, n))
    return runs


def gen_name(rng):
    # no leading "-": argparse would take the whole specification for an option
    return rng.choice("abcXYZ019_") + "".join(rng.choice("abcXYZ019_-") for _ in range(rng.randint(0, 5)))


def gen_params(rng, allowed_flags, p_each=0.3, dup=0.03):
    ps = []
    if rng.random() < p_each:
        ps.append((rng.choice(E_NAMES), rng.choice(E_VALUES)))
    if rng.random() < p_each:
        ps.append((rng.choice(O_NAMES), rng.choice(O_VALUES)))
    for fl in allowed_flags:
        if rng.random() < p_each * 0.6:
            ps.append((fl, None))
    if ps and rng.random() < dup:
        k, v = rng.choice(ps)
        alt = {**{n: E_NAMES for n in E_NAMES}, **{n: O_NAMES for n in O_NAMES}}.get(k, [k])
        ps.append((rng.choice(alt), v if v is None else rng.choice(E_VALUES if k in E_NAMES else O_VALUES)))
    rng.shuffle(ps)
    return ps


def gen_part(rng, restrs, flags):
    return Part(gen_name(rng) if rng.random() < 0.3 else None, rng.choice(restrs), gen_runs(rng), gen_params(rng, flags))


def gen_globals(rng):
    if rng.random() < 0.4:
        return G()
    return G(rng.choice(["0.1", "0.2", "0", "0.05", "1", "2", "2.5", "0.3"]), rng.choice([1, 2, 3, 3, 5, 8]),
             rng.random() < 0.3, rng.random() < 0.8, rng.random() < 0.7)


class DocSpec:
    """a specification of the documented grammar: kind in single|linked|file"""

    def __init__(self, letter, kind, parts=None, anchor="", fparams=None, records=None):
        self.letter, self.kind, self.parts = letter, kind, parts
        self.anchor, self.fparams, self.records = anchor, fparams, records   # records: list of (header, [parts])

    def render_body(self, parts):
        return "...".join(p.render() for p in parts)


ALL_RESTR = ["", "", "", "^", "$", "XL", "XR"]
FLAGS = ["indels", "noindels", "anywhere", "rightmost", "required", "optional"]


def gen_doc_spec(rng):
    """mostly valid documented combinations, a share of documented-invalid ones"""
    letter = rng.choice("aaaagggb")
    r = rng.random()
    kind = "single" if r < 0.55 else ("linked" if r < 0.8 else "file")

    def one(letter, in_file=False):
        lk = rng.random() < (0.3 if in_file else 0.0) or (kind == "linked" and not in_file)
        valid_bias = rng.random() < 0.8
        if lk:
            fr = rng.choice(["", "", "^", "XL"]) if valid_bias else rng.choice(ALL_RESTR)
            br = rng.choice(["", "", "$", "XR"]) if valid_bias else rng.choice(ALL_RESTR)
            fl = ["indels", "noindels", "required", "optional"]
            a = Part(gen_name(rng) if (rng.random() < 0.3 and not in_file) else None, fr, gen_runs(rng, 5), gen_params(rng, fl))
            b = Part(gen_name(rng) if (rng.random() < 0.1 and not in_file) else None, br, gen_runs(rng, 5), gen_params(rng, fl))
            return [a, b]
        if valid_bias:
            restr = rng.choice({"a": ["", "", "$", "XR"], "g": ["", "", "^", "XL"], "b": [""]}[letter])
            fl = ["indels", "noindels"]
            if restr == "" and letter in "ag":
                fl.append("anywhere")
            if restr == "" and letter == "g":
                fl.append("rightmost")
        else:
            restr = rng.choice(ALL_RESTR)
            fl = FLAGS
        p = Part(gen_name(rng) if (rng.random() < 0.3 and not in_file) else None, restr, gen_runs(rng), gen_params(rng, fl))
        return [p]

    if kind != "file":
        return DocSpec(letter, kind, one(letter))
    anchor = rng.choice(["", "", "^", "$"]) if rng.random() < 0.8 else rng.choice(["^", "$"])
    if rng.random() < 0.8:
        anchor = {"a": rng.choice(["", "$"]), "g": rng.choice(["", "^"]), "b": ""}[letter]
    fparams = gen_params(rng, ["indels", "noindels"], p_each=0.4)
    records = []
    for i in range(rng.randint(1, 3)):
        hdr = rng.choice(["", "ad%d" % i, "ad%d some description" % i, "x_%d\tdesc" % i])
        records.append((hdr, one(letter, in_file=True)))
    return DocSpec(letter, "file", anchor=anchor, fparams=fparams, records=records)


# ------------------------------------------------------------------------------------------------
# (c) independent oracle, from doc/guide.rst only

UNDET = "undetermined"


def norm_params(params):
    """documented parameter names -> canonical; returns dict or 'error' (documented: each parameter at most once,
    indels/noindels and required/optional exclude each other)"""
    d = {}
    for k, v in params:
        ck = "e" if k in E_NAMES else "o" if k in O_NAMES else k
        if ck in d:
            return "error"
        d[ck] = v
    if "indels" in d and "noindels" in d:
        return "error"
    if "required" in d and "optional" in d:
        return "error"
    return d


def ref_single(letter, part, base, in_linked=None):
    """What the guide says about one adapter (`in_linked`: None, 'front' or 'back').
    base: dict e (Fraction), o (int), indels (bool): file-level over global settings.
    Returns dict | 'error' | UNDET."""
    if not part.seq() and part.restr in ("XL", "XR"):
        # nothing left after x{0}, so that the restriction X *is* the adapter: all-X sequences are accepted "for backwards
        # compatibility" (parameters ignored), which the guide does not describe
        return UNDET
    d = norm_params(part.params)
    if d == "error":
        return "error"
    side = {"a": "3", "g": "5", "b": "b"}[letter] if in_linked is None else {"front": "5", "back": "3"}[in_linked]
    restr = part.restr
    # table "Adapter types": -a ADAPTER, -a ADAPTERX, -a ADAPTER$, -g ADAPTER, -g XADAPTER, -g ^ADAPTER, -b ADAPTER
    if side == "3" and restr in ("^", "XL"):
        return "error"
    if side == "5" and restr in ("$", "XR"):
        return "error"
    if side == "b" and restr:
        return "error"
    # "The minimum overlap length cannot be set for anchored adapters"
    if "o" in d and restr in ("^", "$"):
        return "error"
    if "rightmost" in d:
        if in_linked:
            return UNDET
        if not (side == "5" and restr == ""):
            return "error"          # 'rightmost' is described for regular 5' adapters only
    if ("required" in d or "optional" in d) and not in_linked:
        return "error"              # "Linked adapter required/optional"
    if "anywhere" in d and (in_linked or side == "b" or restr):
        return UNDET                # the guide describes `anywhere` for regular 5'/3' adapters only
    seq = part.seq().upper().replace("U", "T").replace("I", "N")
    if not seq:
        return "error"
    if set(seq) <= {"N"}:
        return UNDET
    cls = {("3", ""): "BackAdapter", ("3", "$"): "SuffixAdapter", ("3", "XR"): "NonInternalBackAdapter",
           ("5", ""): "FrontAdapter", ("5", "^"): "PrefixAdapter", ("5", "XL"): "NonInternalFrontAdapter",
           ("b", ""): "AnywhereAdapter"}[(side, restr)]
    if "rightmost" in d:
        cls = "RightmostFrontAdapter"
    e = Fraction(d["e"]) if "e" in d else base["e"]
    non_n = len(seq) - seq.count("N")
    rate = e if e < 1 else e / non_n       # "a value of 1 or greater ... divided by the number of non-N characters"
    indels = False if "noindels" in d else True if "indels" in d else base["indels"]
    if rate > 1 and restr in ("^", "$") and not indels:
        return UNDET
    o = int(d["o"]) if "o" in d else base["o"]
    overlap = len(seq) if restr in ("^", "$") else min(o, len(seq))
    req = True if "required" in d else False if "optional" in d else None
    return dict(cls=cls, seq=seq, name=part.name, rate=rate, overlap=overlap, indels=indels,
                anywhere="anywhere" in d, required=req, restr=restr)


def ref_adapter(letter, parts, base, name=None):
    """one adapter or linked adapter; name: from the FASTA header"""
    if len(parts) == 1:
        r = ref_single(letter, parts[0], base)
        if isinstance(r, dict) and name is not None:
            r["name"] = name
        return r
    if letter == "b":
        return "error"          # linked adapters are -a and -g only
    f = ref_single(letter, parts[0], base, "front")
    b = ref_single(letter, parts[1], base, "back")
    if f == "error":
        return "error"
    if b == "error":
        # the front half may be undetermined while the back half is certainly invalid
        return "error"
    if f == UNDET or b == UNDET:
        return UNDET
    req = []
    for h in (f, b):
        if h["required"] is not None:
            req.append(h["required"])
        elif letter == "g":
            req.append(True)            # "-g ... both adapters are required (even if they are not anchored)"
        elif h["restr"] in ("^", "$"):
            req.append(True)            # "-a: the adapters that are anchored become required"
        elif h["restr"] == "":
            req.append(False)           # "the non-anchored adapters become optional"
        else:
            req.append(None)            # non-internal parts: the guide does not say
    nm = name if name is not None else parts[0].name
    return dict(linked=True, front=f, back=b, front_required=req[0], back_required=req[1], name=nm)


def base_of(g, fparams=None):
    base = dict(e=Fraction(g.e), o=g.O, indels=g.indels)
    if fparams is not None:
        d = norm_params(fparams)
        if d == "error":
            return "error"
        if "e" in d:
            base["e"] = Fraction(d["e"])
        if "o" in d:
            base["o"] = int(d["o"])
        if "noindels" in d:
            base["indels"] = False
        if "indels" in d:
            base["indels"] = True
    return base


def reference(ds, g):
    """expected result of a documented specification: list of dicts | 'error' | UNDET"""
    if ds.kind != "file":
        r = ref_adapter(ds.letter, ds.parts, base_of(g))
        return r if not isinstance(r, dict) else [r]
    base = base_of(g, ds.fparams)
    if base == "error":
        return "error"
    out = []
    for hdr, parts in ds.records:
        parts = [Part(p.name, p.restr, p.runs, p.params) for p in parts]
        if ds.anchor == "^":
            if parts[0].restr:
                return UNDET            # a record that carries its own restriction: the guide does not say
            parts[0].restr = "^"
        elif ds.anchor == "$":
            if parts[-1].params:
                return UNDET            # see observation file$-with-record-parameters
            if parts[-1].restr:
                return UNDET
            parts[-1].restr = "$"
        words = hdr.split()
        r = ref_adapter(ds.letter, parts, base, name=words[0] if words else None)
        if r == "error":
            return "error"
        if r == UNDET:
            return UNDET
        out.append(r)
    return out


def check_single(exp, a, where, fails):
    def bad(sig, got, want):
        fails.append((sig, where, got, want))
    if type(a).__name__ != exp["cls"]:
        bad("C18/class", type(a).__name__, exp["cls"])
        return
    if a.sequence != exp["seq"]:
        bad("C18/sequence", a.sequence, exp["seq"])
    want = Fraction(exp["rate"])
    if abs(Fraction(float(a.max_error_rate)) - want) > Fraction(1, 10 ** 12):
        bad("C18/error-rate", float(a.max_error_rate), str(want))
    if a.min_overlap != exp["overlap"]:
        bad("C18/min-overlap", a.min_overlap, exp["overlap"])
    if bool(a.indels) != exp["indels"]:
        bad("C18/indels", a.indels, exp["indels"])
    if bool(getattr(a, "_force_anywhere", False)) != exp["anywhere"]:
        bad("C18/anywhere", getattr(a, "_force_anywhere", None), exp["anywhere"])


def check_against_reference(exp, ads, exc, g):
    """list of (signature, where, got, expected)"""
    fails = []
    if exp == UNDET:
        return fails
    if exp == "error":
        if exc is None:
            fails.append(("C18/invalid-accepted", "", "adapters built", "rejection"))
        elif type(exc).__name__ not in CMDLINE_CLASSES:
            fails.append(("C18/invalid-crash", "", type(exc).__name__, "KeyError/ValueError/InvalidCharacter"))
        return fails
    if exc is not None:
        fails.append(("C18/valid-rejected", "", f"{type(exc).__name__}: {exc.args[0] if exc.args else ''}"[:120], "adapters"))
        return fails
    if len(ads) != len(exp):
        fails.append(("C18/adapter-count", "", len(ads), len(exp)))
        return fails
    for i, (e, a) in enumerate(zip(exp, ads)):
        if e.get("linked"):
            if type(a).__name__ != "LinkedAdapter":
                fails.append(("C18/class", i, type(a).__name__, "LinkedAdapter"))
                continue
            check_single(e["front"], a.front_adapter, f"{i}.front", fails)
            check_single(e["back"], a.back_adapter, f"{i}.back", fails)
            for side in ("front_required", "back_required"):
                if e[side] is not None and bool(getattr(a, side)) != e[side]:
                    fails.append(("C18/required", f"{i}.{side}", getattr(a, side), e[side]))
            nm = e["name"]
        else:
            check_single(e, a, i, fails)
            nm = e["name"]
        got = None if a.name == AUTO else a.name
        if got != nm:
            fails.append(("C18/name", i, got, nm))
        for sub in ([a.front_adapter, a.back_adapter] if e.get("linked") else [a]):
            if bool(sub.read_wildcards) != g.rw:
                fails.append(("C18/read-wildcards", i, sub.read_wildcards, g.rw))
    return fails


# ------------------------------------------------------------------------------------------------
# malformed and undocumented streams (correspondence only)

MALFORMED_TEMPLATES = [
    "ACGT;o=3;o=4", "ACGT;e=0.1;max_errors=0.2", "ACGT;e=0.1;error_rate=0.2", "ACGT;optional;required", "ACGT;indels;noindels",
    "^ACGT$", "^XACGT", "ACGTX$", "XACGTX", "$ACGT", "ACGT^", "X^ACGT", "^ACGT;o=3", "ACGT$;min_overlap=2", "ACGT;rightmost",
    "ACGT;foo", "ACGT;foo=1", "ACGT;o=", "ACGT;e=", "ACGT;=3", "ACGT;", "ACGT;;", ";", "", "=", "n=", "=ACGT", "a=b=ACGT",
    "ACGT;o=abc", "ACGT;e=x1", "ACGT;o=3 ; e = 0.2 ", " ACGT ", " n = ACGT ", "ACGT ;o=3", "AC GT", "ACGT;o =3", "ACGT;O=3",
    "{3}ACGT", "A{3", "A{3}{2}", "A{}", "A{x}", "A{{3}}", "A}3{", "}", "{", "A{10001}", "A{10000}", "A{0}", "A{0}C{0}", "ACGT{3}X",
    "X{3}ACGT", "^{3}ACGT", "A{3}$", "AC{2}G{3}T;o=100", "A{3}}", "A{3}C}", "A{3x}", "A{3}x{", "n{2}=ACGT",
    "...", "ACGT...", "...ACGT", "ACGT......TTT", "ACGT...TTT...GGG", "....ACGT", "ACGT....", "ACGT;o=3...", "...ACGT;o=3",
    "ACGT;required", "ACGT;optional", "ACGT...TTT;required;optional", "ACGT;optional...TTT;required", "^ACGT;required...TTT",
    "ACGT$...TTT", "ACGT...^TTT", "XACGT...TTTX", "ACGTX...XTTT", "^ACGT;o=3...TTT", "ACGT...TTT$;o=3", "n1=ACGT...n2=TTT",
    "ACGT;anywhere", "^ACGT;anywhere", "ACGTX;anywhere", "ACGT;anywhere=0", "ACGT;anywhere=1", "ACGT;rightmost=0",
    "ACGT;indels=0", "ACGT;noindels=0", "ACGT;e", "ACGT;o", "ACGT;o=2.5", "ACGT;o=4.0", "ACGT;o=7.5", "ACGT;o=0", "ACGT;e=0",
    "ACGT;e=5", "^ACGT;noindels;e=5", "^ACGT;noindels;e=4", "ACGT$;noindels;e=4.5", "NNNN", "NNNN;e=2", "^NNNN;noindels", "nnnn", "IIII",
    "XXX", "XXX;o=5;required", "xxx", "XxX", "X", "x", "^", "$", "^$", "^X", "X$", "XX$", "ACGT;anywhere...TTT", "ACGT...TTT;anywhere",
    "ACGT;rightmost...TTT", "ACGT...TTT;rightmost", "ACZT", "AC-GT", "ACGT.TTT", "ACGT..TTT", "file", "file;o=3", "File:x",
    "ACGT;e=0.1.2", "ACGT;e=.5", "ACGT;e=5.", "ACGT;e=.", "ACGT;e=00.50", "ACGT;o=007", "ACGT;e=1;o=1", "N{5}ACGT;e=1", "ACGTN{20};e=2",
    "ACGT;required=0...TTT", "ACGT;optional=0...TTT", "^ACGT;optional...TTT$;optional", "ACGT;o=3;rightmost;anywhere",
]


def mutate(rng, s):
    toks = ["^", "$", "X", "x", "{", "}", ";", "=", ".", "...", " ", "N", "A", "3", "0.5", ";o=3", ";e=2", ";anywhere", ";required",
            ";optional", ";noindels", ";indels", ";rightmost", ";o=", ";e", "{2}", "{0}", "n=", "\t", "Z", "u", "^", "$", "X", "...", "{3}"]
    for _ in range(rng.randint(1, 3)):
        op = rng.random()
        # mostly in the part before the parameters (edits inside the parameters nearly always give "Unknown parameter")
        head = s.find(";") if ";" in s and rng.random() < 0.7 else len(s)
        i = rng.randint(0, head)
        if op < 0.5:
            s = s[:i] + rng.choice(toks) + s[i:]
        elif op < 0.75 and s:
            j = min(len(s), i + rng.randint(1, 3))
            s = s[:i] + s[j:]
        elif s:
            j = min(len(s), i + rng.randint(1, 4))
            s = s[:j] + s[i:j] + s[j:]
    return s


def is_filespec(s):
    return s.startswith("file:") or s.startswith("^file:") or s.startswith("file$:")


# ------------------------------------------------------------------------------------------------
# function-level streams

def impl_expand(pa, s):
    try:
        return hx(pa.expand_braces(s))
    except Exception as e:  # noqa
        return err_str(e)


def impl_params(pa, s):
    try:
        d = pa.parse_search_parameters(s)
    except Exception as e:  # noqa
        return err_str(e)
    return ",".join(f"{k}={v!r}" for k, v in sorted(d.items())) if d else "{}"


def run_corr(ctx, op, cases):
    """correspondence, leaving out inputs that the model declares outside its fragment (counted)"""
    outs = core.run_driver([c[0] for c in cases])
    keep = []
    for c, o in zip(cases, outs):
        if o.startswith("error:unsupported"):
            ctx.count(f"{op}:outside-model-fragment")
        else:
            keep.append(c)
    correspond(ctx, op, keep)
    return len(keep)


# ------------------------------------------------------------------------------------------------

def behaviour_cases(ctx, n):
    """End to end: the parameters written after `;` (and the global ones they override) must govern the *search* that is carried out, also
    when cutadapt collects the adapters into its index (default mode). Anchored 5' adapters with their own `e=` / `indels` / `noindels`;
    every reported match (info file) is checked against the documented meaning of the specification of the adapter it names."""
    import clirun
    rng = ctx.rng

    def edit(a, b):
        prev = list(range(len(b) + 1))
        for i, x in enumerate(a, 1):
            cur = [i]
            for j, y in enumerate(b, 1):
                cur.append(min(prev[j] + 1, cur[j - 1] + 1, prev[j - 1] + (x != y)))
            prev = cur
        return prev[-1]
    for _ in range(n):
        k = rng.randint(2, 3)
        g_e = rng.choice([None, "0.1", "0.2"])
        g_noindels = rng.random() < 0.4
        ads, argv = [], []
        for i in range(k):
            seq = "".join(rng.choice("ACGT") for _ in range(rng.randint(8, 12)))
            e = rng.choice([None, "0", "0.1", "0.2", "1", "2"])
            fl = rng.choice([None, "indels", "noindels"])
            spec = f"a{i}=^{seq}" + (f";e={e}" if e else "") + (f";{fl}" if fl else "")
            rate = float(e if e is not None else (g_e or "0.1"))
            if rate >= 1:
                rate = rate / len(seq)
            indels = (fl == "indels") if fl else not g_noindels
            ads.append(dict(name=f"a{i}", seq=seq, k=int(rate * len(seq)), indels=indels, spec=spec))
            argv += ["-g", spec]
        if g_e:
            argv += ["-e", g_e]
        if g_noindels:
            argv.append("--no-indels")
        reads = []
        for j in range(8):
            a = rng.choice(ads)
            t = list(a["seq"])
            for _e in range(rng.choice([0, 1, 1, 2])):
                p_ = rng.randrange(len(t))
                y = rng.random()
                if y < 0.4:
                    t[p_] = rng.choice("ACGT")
                elif y < 0.7:
                    del t[p_]
                else:
                    t.insert(p_, rng.choice("ACGT"))
                if not t:
                    t = ["A"]
            s_ = "".join(t) + "".join(rng.choice("ACGT") for _ in range(rng.randint(0, 15)))
            reads.append((f"r{j}", s_, "I" * len(s_)))
        res = clirun.run_cli(argv + ["--info-file", "{dir}/info.txt", "-o", "{dir}/o.fastq", "{dir}/in.fastq"], {"in.fastq": clirun.fastq(reads)},
                             want_json=False)
        ctx.evaluations += 1
        if res.status != 0:
            ctx.failures.append(Failure("C18/behaviour-run-failed", "cutadapt failed on valid specifications", dict(argv=argv), res.stderr[-300:], 0))
            continue
        by = {a["name"]: a for a in ads}
        for line in clirun.text_of(res.files["info.txt"]).splitlines():
            f = line.split("\t")
            if f[1] == "-1":
                continue
            a = by[f[7]]
            errors, matched = int(f[1]), f[5]
            ctx.count("behaviour:match-checked")
            if errors > 0:
                ctx.nontriv(("behav", a["spec"], matched))
            bad = None
            if errors > a["k"]:
                bad = f"{errors} errors reported, the specification allows {a['k']}"
            elif not a["indels"] and (len(matched) != len(a["seq"]) or sum(x != y for x, y in zip(matched.upper(), a["seq"])) != errors):
                bad = "the specification forbids indels, but the removed prefix is not a same-length copy with that many mismatches"
            elif a["indels"] and edit(matched.upper(), a["seq"]) != errors:
                bad = "reported errors differ from the edit distance to the adapter"
            if bad:
                ctx.failures.append(Failure("C18/search-ignores-specification", "the search carried out for an adapter does not obey the parameters of its "
                                            "specification: " + bad, dict(argv=argv, read=f[0], adapter=a["spec"]), dict(errors=errors, matched=matched), None))


def run(ctx):
    behaviour_cases(ctx, ctx.scale(60, 1500))
    rng = ctx.rng
    impl = Impl()
    try:
        _run(ctx, rng, impl)
    finally:
        impl.close()


def _run(ctx, rng, impl):
    from clirun import run_cli
    ctx.rule = ("specifications generated from the grammar of doc/guide.rst (option letter x restriction x parameter subsets with "
                "abbreviations/duplicates x name= x x{n} repeats x linked x file:/^file:/file$: with record- and file-level parameters "
                "x global options), a malformed stream (templates + random edits) and undocumented combinations; non-trivial = distinct "
                "(option, specification, globals, FASTA records) with at least one of restriction/parameter/name/braces/linked/file")
    cases = []          # (line, impl)
    n_doc = ctx.scale(30000, 120000)
    n_mal = ctx.scale(16000, 80000)
    n_real_kmer = ctx.scale(1500, 5000)
    cli_budget = ctx.scale(80, 400)
    cli_cases = []
    observations = {}

    def observe(sig, example):
        ctx.count("observation:" + sig)
        observations.setdefault(sig, example)

    def do_spec(letter, spec, g, ds=None, records=None, stream="doc"):
        """run implementation, queue correspondence line, apply the oracle when a DocSpec is given"""
        line_records = None
        orig_spec = spec
        if records is not None:
            path, got = impl.fasta(records)
            line_records = got
            anchor, rest = spec
            spec = {"": "file:", "^": "^file:", "$": "file$:"}[anchor] + path + rest
        out, ads, exc = impl_make(impl, letter, spec, g)
        cases.append((spec_line(letter, spec, g, line_records), out))
        ctx.count(f"{stream}:{'ok' if exc is None else out.split(':', 2)[2]}")
        if ds is not None:
            exp = reference(ds, g)
            ctx.evaluations += 1
            ctx.count("oracle:" + (exp if isinstance(exp, str) else "adapters"))
            for sig, where, got, want in check_against_reference(exp, ads, exc, g):
                ctx.failures.append(Failure(sig, "real parser contradicts the documented notation",
                                            dict(option="-" + letter, spec=spec, globals=g.argv(), records=records, where=where), got, want))
            if exp != UNDET and len(cli_cases) < cli_budget and (exp == "error" or rng.random() < 0.15):
                cli_cases.append((letter, orig_spec, g, records, exp == "error"))
        return out, ads, exc

    # --- documented grammar -------------------------------------------------------------------
    impl.fast(True)
    for i in range(n_doc):
        if i == n_doc - n_real_kmer:
            impl.fast(False)
        ds = gen_doc_spec(rng)
        g = gen_globals(rng)
        if ds.kind == "file":
            recs = [(h, ds.render_body(parts)) for h, parts in ds.records]
            rest = "".join(";" + k + ("" if v is None else "=" + v) for k, v in ds.fparams)
            do_spec(ds.letter, (ds.anchor, rest), g, ds, recs)
            feats = ["file" + ds.anchor] + ["fp:" + k for k, v in ds.fparams] + [f for h, ps in ds.records for p in ps for f in p.features()]
            key = (ds.letter, ds.anchor, rest, tuple(recs), g.key())
        else:
            spec = ds.render_body(ds.parts)
            do_spec(ds.letter, spec, g, ds)
            feats = ([ds.kind] if ds.kind == "linked" else []) + [f for p in ds.parts for f in p.features()]
            key = (ds.letter, spec, g.key())
        ctx.count("kind:" + ds.kind + ":-" + ds.letter)
        for f in set(feats):
            ctx.count("feature:" + f)
        if feats:
            ctx.nontriv(key)
        if i < 4:
            ctx.sample(dict(option="-" + ds.letter, spec=cases[-1][0].split()[2], impl=cases[-1][1][:160]))
    impl.fast(True)

    # --- systematic cross product: option x restriction x parameter subset x name (documented part of DESIGN's 1 560) --------
    for letter, restr, nm in itertools.product("agb", ["", "^", "$", "XL", "XR"], [None, "ad1"]):
        plist = [[], [("e", "0.2")], [("max_errors", "2")], [("max_error_rate", "1.5")], [("o", "2")], [("min_overlap", "5")],
                 [("noindels", None)], [("indels", None)], [("anywhere", None)], [("rightmost", None)], [("required", None)],
                 [("optional", None)], [("e", "0.2"), ("o", "4")], [("o", "4"), ("noindels", None), ("e", "3")]]
        for ps in plist:
            for runs in ([("A", None), ("C", None), ("G", None), ("T", None), ("N", 3), ("A", None)],):
                ds = DocSpec(letter, "single", [Part(nm, restr, runs, ps)])
                for g in (G(), G("0.2", 5, True, True, False), G("2", 3, False, False, True)):
                    do_spec(letter, ds.render_body(ds.parts), g, ds, stream="cross")
                    ctx.nontriv((letter, ds.render_body(ds.parts), g.key()))

    # --- undocumented combinations: correspondence + observations -----------------------------------------------------------
    und = []
    for letter in "ag":
        und += [(letter, "ACGTAC;anywhere...TTTTGG", None), (letter, "ACGTAC...TTTTGG;anywhere", None),
                (letter, "XACGTAC...TTTTGG", None), (letter, "ACGTAC...TTTTGGX", None), (letter, "ACGTAC;rightmost...TTTTGG", None),
                (letter, "ACGTAC...", None), (letter, "...ACGTAC", None)]
        for fl in ("anywhere", "rightmost", "required", "optional"):
            und.append((letter, ("", ";" + fl), [("r1", "ACGTAC")]))
            und.append((letter, ("", ";" + fl), [("r1", "ACGTAC...TTTTGG")]))
    und += [("a", ("$", ""), [("r1", "ACGTAC;noindels")]), ("a", ("$", ""), [("r1", "ACGTAC;o=3")]), ("a", ("$", ""), [("r1", "ACGTAC;e=0.2")]),
            ("a", ("$", ""), [("r1", "ACGTAC")]), ("g", ("^", ""), [("r1", "ACGTAC;noindels")]), ("g", ("^", ""), [("r1", "n=ACGTAC")])]
    for letter, spec, recs in und:
        for g in (G(), G("0.2", 2, False, True, False)):
            out, ads, exc = do_spec(letter, spec, g, None, recs, stream="undocumented")
            shown = spec if recs is None else {"": "file:", "^": "^file:", "$": "file$:"}[spec[0]] + "F.fa" + spec[1]
            ex = dict(option="-" + letter, spec=shown, records=recs, result=out[:200])
            if exc is not None and type(exc).__name__ not in CMDLINE_CLASSES:
                what = "file-level-flag" if recs is not None and spec[1] else "linked-part-anywhere" if recs is None else "other"
                observe(f"uncaught-{type(exc).__name__}:{what}", ex)
                if OBSERVATIONS_AS_FAILURES and what != "other":
                    ctx.failures.append(Failure(f"C18/uncaught-typeerror-{what}", "documented search parameter ends in an uncaught TypeError",
                                                ex, out, "adapters or a command-line error (exit status 2)"))
            if recs is not None and spec[0] == "$" and ";" in recs[0][1] and exc is not None:
                observe("file$-with-record-parameters-rejected", ex)
            if recs is None and ads and type(ads[0]).__name__ == "LinkedAdapter" and letter == "a" and ("X" in spec):
                a = ads[0]
                observe(f"-a linked non-internal part required={a.front_required if spec.startswith('X') else a.back_required}", ex)

    # --- malformed stream -----------------------------------------------------------------------------------------------------
    pool = [c[0] for c in cases[:2000]]
    for i in range(n_mal):
        letter = rng.choice("aaggb")
        g = G() if rng.random() < 0.6 else gen_globals(rng)
        if i < len(MALFORMED_TEMPLATES) * 3:
            spec = MALFORMED_TEMPLATES[i // 3]
            letter = "agb"[i % 3]
        else:
            base = rng.choice(MALFORMED_TEMPLATES) if rng.random() < 0.4 else gen_doc_spec_string(rng)
            spec = mutate(rng, base)
        if is_filespec(spec) or any(ord(c) > 126 or c in "\r\n" for c in spec):
            continue
        do_spec(letter, spec, g, None, stream="malformed")
        if spec:
            ctx.nontriv((letter, spec, g.key()))
    for c in cases[-3:]:
        ctx.sample(dict(op_line=c[0], impl=c[1][:160]))

    # --- exhaustive small scopes ------------------------------------------------------------------------------------------------
    eb, pp = [], []
    depth = ctx.scale(6, 8)
    for ln in range(0, depth + 1):
        for t in itertools.product("A{}2x", repeat=ln):
            s = "".join(t)
            eb.append((f"expandbraces {hx(s)}", impl_expand(impl.pa, s)))
    ctx.notes.append(f"exhaustive sub-scope: expand_braces on all strings over {{A,{{,}},2,x}} up to length {depth}")
    ptoks = ["e", "o", "=", ";", "0.5", "3", " ", "indels", "noindels", "optional", "required", "max_errors", "x", "anywhere", "rightmost"]
    pdepth = ctx.scale(4, 5)
    for ln in range(0, pdepth + 1):
        for t in itertools.product(ptoks, repeat=ln):
            s = "".join(t)
            pp.append((f"parseparams {hx(s)}", impl_params(impl.pa, s)))
    ctx.notes.append(f"exhaustive sub-scope: parse_search_parameters on all concatenations of up to {pdepth} tokens of {ptoks}")
    if ctx.tier == "thorough":
        stoks = ["A", "CG", "X", "^", "$", "...", ";", "=", "o=2", "e=2", "{2}", "N", "n", "required", "anywhere", " "]
        for ln in range(0, 5):
            for t in itertools.product(stoks, repeat=ln):
                s = "".join(t)
                if is_filespec(s):
                    continue
                for letter in "agb":
                    do_spec(letter, s, G(), None, stream="exhaustive")
        ctx.notes.append(f"exhaustive sub-scope: make_adapter on all concatenations of up to 4 tokens of {stoks}, all three options")
        ctx.exhaustive = True
    # random brace / parameter strings
    for _ in range(ctx.scale(3000, 40000)):
        s = "".join(rng.choice("ACGTN{}{}0123459 x") for _ in range(rng.randint(0, 14)))
        eb.append((f"expandbraces {hx(s)}", impl_expand(impl.pa, s)))
        if "{" in s:
            ctx.nontriv(("eb", s))
        ks = ["e", "max_errors", "max_error_rate", "error_rate", "o", "min_overlap", "indels", "noindels", "anywhere", "required", "optional",
              "rightmost", "foo", ""]
        fields = []
        for _ in range(rng.randint(0, 4)):
            k = rng.choice(ks)
            r = rng.random()
            v = "" if r < 0.4 else "=" + rng.choice(E_VALUES + O_VALUES + ["", " ", "abc", "00.50", "007", ".5", "5."])
            pad = rng.choice(["", "", " ", "  "])
            fields.append(pad + k + rng.choice(["", "", " "]) + v + pad)
        s = ";".join(fields)
        pp.append((f"parseparams {hx(s)}", impl_params(impl.pa, s)))
        if fields:
            ctx.nontriv(("pp", s))

    # --- correspondence ---------------------------------------------------------------------------------------------------------
    run_corr(ctx, "parsespec", cases)
    run_corr(ctx, "expandbraces", eb)
    run_corr(ctx, "parseparams", pp)

    # --- command line: exit status 2 for documented invalid combinations, 0 for valid ones ---------------------------------------
    fq = "@r1\nACGTACGTTTTTGGGGACGT\n+\nIIIIIIIIIIIIIIIIIIII\n"
    for letter, spec, g, records, must_fail in cli_cases:
        inputs = {"in.fq": fq}
        if records is not None:
            inputs["ad.fa"] = "".join(f">{h}\n{s}\n" for h, s in records)
            spec = {"": "file:", "^": "^file:", "$": "file$:"}[spec[0]] + "{in:ad.fa}" + spec[1]
        res = run_cli(g.argv() + ["-" + letter, spec, "-o", "{out:out.fq}", "{in:in.fq}"], inputs, want_json=False)
        ctx.evaluations += 1
        ctx.count(f"cli:status={res.status}")
        want = 2 if must_fail else 0
        if res.status != want:
            ctx.failures.append(Failure("C18/exit-status", "exit status of the command line differs from the documented outcome",
                                        dict(argv=g.argv() + ["-" + letter, spec], records=records), res.status if res.exc is None else res.exc, want))
        elif must_fail and not res.stderr.strip():
            ctx.failures.append(Failure("C18/no-error-message", "rejected without an error message", dict(argv=["-" + letter, spec]), "", "message"))
    for sig, ex in observations.items():
        ctx.notes.append(f"observation (undocumented combination, not counted as violation): {sig}: {ex}")
    independence_cases(ctx, ctx.scale(150, 2500))


def independence_cases(ctx, n):
    """every specification is interpreted by itself: what `-a S1 -g S2 -b S3` (and `-A/-G/-B`) build is what S1, S2, S3 build when each is the only
    specification on the command line - parameters after ';' (of a `file:` specification too) and names belong to their own specification"""
    import logging
    import tempfile
    import os
    import shutil
    import cutadapt.cli as cli
    import pipe
    pipe.patch_prefilter()
    rng = ctx.rng
    parser = cli.get_argument_parser()
    d = tempfile.mkdtemp(prefix="cv-c18-", dir="/var/tmp")
    def build(argv):
        args = parser.parse_args(argv + ["in.fastq"])
        logging.disable(logging.CRITICAL)
        try:
            a1, a2 = cli.adapters_from_args(args)
        except cli.CommandLineError as e:
            return "cmdline-error"
        finally:
            logging.disable(logging.NOTSET)
        def desc(a):
            j = pipe.adapter_json(a)
            if j.get("name", "").isdigit():
                j["name"] = "<auto>"
            return j
        return [desc(a) for a in a1], [desc(a) for a in a2]
    try:
        for k in range(n):
            glob = []
            if rng.random() < 0.5:
                glob += ["-e", rng.choice(["0.1", "0.2", "0", "1"])]
            if rng.random() < 0.5:
                glob += ["-O", str(rng.choice([1, 3, 5, 8]))]
            if rng.random() < 0.3:
                glob.append("--no-indels")
            if rng.random() < 0.2:
                glob.append("--match-read-wildcards")
            specs = []
            for i in range(rng.randint(2, 4)):
                flag = rng.choice(["-a", "-g", "-b", "-a", "-g", "-A", "-G"])
                seq = pipe.rs(rng, rng.randint(6, 14))
                par = rng.choice(["", "", ";e=0.3", ";o=4", ";min_overlap=9", ";noindels", ";e=0;o=2", ";max_errors=2", ";anywhere"])
                if par == ";anywhere" and flag in ("-b",):
                    par = ""
                kind = rng.random()
                if kind < 0.3:
                    fn = os.path.join(d, f"ad{k}_{i}.fa")
                    with open(fn, "w") as f:
                        for r in range(rng.randint(1, 3)):
                            f.write(f">rec{r}\n{pipe.rs(rng, rng.randint(6, 12))}\n")
                    fpar = rng.choice(["", ";min_overlap=7", ";e=0.25", ";noindels", ";o=2;e=0"])
                    spec = rng.choice(["file:", "^file:", "file$:"]) + fn + fpar
                    if spec.startswith("^") and flag in ("-a", "-A"):
                        flag = "-g" if flag == "-a" else "-G"
                    if spec.startswith("file$") and flag in ("-g", "-G", "-b"):
                        flag = "-a"
                elif kind < 0.45 and flag != "-b":
                    spec = f"n{i}=" + seq + par.replace(";anywhere", "") + "..." + pipe.rs(rng, 7) + rng.choice(["", ";o=3", ";e=0.2"])
                else:
                    spec = rng.choice(["", f"n{i}="]) + seq + par
                specs.append((flag, spec))
            whole = build(glob + [t for fs in specs for t in fs])
            parts = [build(glob + list(fs)) for fs in specs]
            ctx.evaluations += 1
            ctx.count("independence-cases")
            if whole == "cmdline-error" or any(p == "cmdline-error" for p in parts):
                if (whole == "cmdline-error") != any(p == "cmdline-error" for p in parts):
                    ctx.failures.append(Failure("C18/specifications-not-independent", "a list of specifications is rejected although each one alone is accepted (or the reverse)",
                                                dict(argv=glob + [t for fs in specs for t in fs]), whole if whole == "cmdline-error" else "accepted",
                                                [p if p == "cmdline-error" else "accepted" for p in parts]))
                continue
            exp = ([a for p in parts for a in p[0]], [a for p in parts for a in p[1]])
            if whole != exp:
                bad = [(w, e) for w, e in zip(whole[0] + whole[1], exp[0] + exp[1]) if w != e][:2]
                ctx.failures.append(Failure("C18/specifications-not-independent", "an adapter built from a list of specifications differs from the adapter its own specification "
                                            "builds alone (search parameters or names leak from one specification into another)",
                                            dict(argv=glob + [t for fs in specs for t in fs]), [b[0] for b in bad] or [len(whole[0]), len(whole[1])],
                                            [b[1] for b in bad] or [len(exp[0]), len(exp[1])]))
            if len(specs) >= 3:
                ctx.nontriv(("indep", tuple(t for fs in specs for t in fs)))
    finally:
        shutil.rmtree(d, ignore_errors=True)


def gen_doc_spec_string(rng):
    ds = gen_doc_spec(rng)
    if ds.kind == "file":
        return ds.render_body(ds.records[0][1])
    return ds.render_body(ds.parts)


def extended_search(ctx):
    old = ctx.tier
    ctx.tier = "thorough"
    try:
        run(ctx)
    finally:
        ctx.tier = old


def replay(ctx, rp):
    """re-run the recorded input through implementation, model and oracle"""
    fl = rp.get("failure") or {}
    inp = fl.get("input") or {}
    impl = Impl()
    try:
        if "spec" in inp and inp.get("records") is None:
            letter = inp["option"][1]
            argv = inp.get("globals") or []
            g = G()
            it = iter(argv)
            for a in it:
                if a == "-e":
                    g.e = next(it)
                elif a == "-O":
                    g.O = int(next(it))
                elif a == "--match-read-wildcards":
                    g.rw = True
                elif a == "-N":
                    g.aw = False
                elif a == "--no-indels":
                    g.indels = False
            out, ads, exc = impl_make(impl, letter, inp["spec"], g)
            model = core.run_driver([spec_line(letter, inp["spec"], g)])[0]
            print("implementation:", out)
            print("model         :", model)
            print("recorded      : got", fl.get("got"), "expected", fl.get("expected"), "signature", fl.get("signature"))
            return 1 if (out != model or fl.get("signature")) else 0
        for d in rp.get("correspondence_diffs", [])[:5]:
            print("recorded difference:", d)
            print("model now:", core.run_driver([d["line"]])[0])
        return 1 if rp.get("correspondence_diffs") else 2
    finally:
        impl.close()
