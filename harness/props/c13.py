"""C13 — quality trimming. Correspondence: qtrim / nextseq ops (function level) and QualityTrimmer /
NextseqQualityTrimmer classes; oracle: brute-force BWA specification written from the property text."""
import itertools

from core import Failure, correspond, hx

LEVEL = "proof"


def spec3(q, cut):
    """largest index among n and the reachable ones that maximises S(i) = sum_{t>=i}(cut - q_t)"""
    n = len(q)
    S = [0] * (n + 1)
    for i in range(n - 1, -1, -1):
        S[i] = S[i + 1] + cut - q[i]
    reach = [n]
    for i in range(n - 1, -1, -1):
        if S[i] < 0:
            break
        reach.append(i)
    mx = max(S[i] for i in reach)
    return max(i for i in reach if S[i] == mx)


def spec5(q, cut):
    n = len(q)
    P = [0] * (n + 1)
    for i in range(n):
        P[i + 1] = P[i] + cut - q[i]
    reach = [0]
    for i in range(1, n + 1):
        if P[i] < 0:
            break
        reach.append(i)
    mx = max(P[i] for i in reach)
    return min(i for i in reach if P[i] == mx)


def spec_qtrim(q, cf, cb):
    a, b = spec5(q, cf), spec3(q, cb)
    return (a, b) if a < b else (0, 0)


def gen_quals(rng, n, base):
    mode = rng.random()
    if base > 33 and rng.random() < 0.3:
        # characters below the quality base (Solexa range with --quality-base 64): negative quality values, which the
        # BWA rule trims even with cutoff 0
        lo = 33 - base
        if rng.random() < 0.5:
            return [rng.randint(lo, 126 - base) for _ in range(n)]
        k = rng.randint(0, n)
        j = rng.randint(0, n - k)
        return [rng.randint(lo, 3) for _ in range(k)] + [rng.randint(5, 40) for _ in range(n - k - j)] + [rng.randint(lo, 3) for _ in range(j)]
    if mode < 0.25:   # all printable quality characters
        return [rng.randint(base, 126) - base for _ in range(n)]
    if mode < 0.6:    # small values around typical cutoffs: ties and early stops
        return [rng.randint(0, 14) for _ in range(n)]
    if mode < 0.8:    # good start, bad tail
        k = rng.randint(0, n)
        return [rng.randint(20, 41) for _ in range(k)] + [rng.randint(0, 12) for _ in range(n - k)]
    return [rng.choice([2, 2, 10, 30, 40]) for _ in range(n)]


def check_case(ctx, quals, cf, cb, base, seq, cases_q, cases_n, impl):
    from dnaio import SequenceRecord
    qs = "".join(chr(x + base) for x in quals)
    got = impl["qti"](qs, cf, cb, base)
    cases_q.append((f"qtrim {hx(qs)} {cf} {cb} {base}", f"{got[0]} {got[1]}"))
    exp = spec_qtrim(quals, cf, cb)
    if tuple(got) != exp:
        ctx.failures.append(Failure("C13/quality-trim-index", "quality_trim_index deviates from the BWA specification",
                                    dict(qualities=qs, cutoff_front=cf, cutoff_back=cb, base=base), list(got), list(exp)))
    # consequence proved for the model (C13.trim3_idempotent): 3' trimming of the already trimmed read removes nothing more
    # (5' cutoff -1000: no quality is below it, so the 5' scan stops at once and only the 3' side acts)
    stop1 = impl["qti"](qs, -1000, cb, base)[1]
    again = tuple(impl["qti"](qs[:stop1], -1000, cb, base))
    if again != (0, stop1):
        ctx.failures.append(Failure("C13/trim3-not-idempotent", "3' quality trimming of an already trimmed read removes more bases "
                                    "(so the first run did not remove the BWA-defined end)",
                                    dict(qualities=qs, cutoff_front=-1000, cutoff_back=cb, base=base, twice=True), list(again), [0, stop1]))
    # C13.trim5_idempotent: the same at the 5' end (3' cutoff -1000: only the 5' side acts)
    r5 = tuple(impl["qti"](qs, cf, -1000, base))
    if r5 != (0, 0):
        rest = qs[r5[0]:]
        again5 = tuple(impl["qti"](rest, cf, -1000, base))
        if again5 != (0, len(rest)):
            ctx.failures.append(Failure("C13/trim5-not-idempotent", "5' quality trimming of an already trimmed read removes more bases",
                                        dict(qualities=qs, cutoff_front=cf, cutoff_back=-1000, base=base, twice=True), list(again5), [0, len(rest)]))
    # modifier: counter and slice
    rec = SequenceRecord("r", seq, qs)
    qt = impl["QualityTrimmer"](cf, cb, base)
    out = qt(rec, impl["ModificationInfo"](rec))
    if (out.sequence, out.qualities) != (seq[exp[0]:exp[1]], qs[exp[0]:exp[1]]) or qt.trimmed_bases != len(seq) - len(out.sequence):
        ctx.failures.append(Failure("C13/quality-trimmer-modifier", "QualityTrimmer output or trimmed_bases counter wrong",
                                    dict(seq=seq, qualities=qs, cutoff_front=cf, cutoff_back=cb, base=base),
                                    [out.sequence, out.qualities, qt.trimmed_bases], [seq[exp[0]:exp[1]], qs[exp[0]:exp[1]]]))
    # nextseq
    got_n = impl["nti"](rec, cb, base)
    cases_n.append((f"nextseq {hx(seq)} {hx(qs)} {cb} {base}", f"{got_n}"))
    q2 = [cb - 1 if c == "G" else x for c, x in zip(seq, quals)]
    exp_n = spec3(q2, cb)
    if got_n != exp_n:
        ctx.failures.append(Failure("C13/nextseq-trim-index", "nextseq_trim_index deviates from the specification",
                                    dict(seq=seq, qualities=qs, cutoff=cb, base=base), got_n, exp_n))
    nt = impl["NextseqQualityTrimmer"](cb, base)
    out = nt(rec, impl["ModificationInfo"](rec))
    if (out.sequence, out.qualities) != (seq[:exp_n], qs[:exp_n]) or nt.trimmed_bases != len(seq) - exp_n:
        ctx.failures.append(Failure("C13/nextseq-trimmer-modifier", "NextseqQualityTrimmer output or counter wrong",
                                    dict(seq=seq, qualities=qs, cutoff=cb, base=base), [out.sequence, out.qualities, nt.trimmed_bases], None))
    if exp != (0, len(quals)) and exp != (0, 0):
        ctx.nontriv(("q", qs, cf, cb, base))
    ctx.count("len=%d" % min(len(quals) // 10 * 10, 60))
    ctx.count("result=" + ("unchanged" if exp == (0, len(quals)) else "empty" if exp == (0, 0) else "both-ends" if exp[0] > 0 and exp[1] < len(quals) else "one-end"))


def _impl():
    from cutadapt.qualtrim import quality_trim_index, nextseq_trim_index
    from cutadapt.modifiers import QualityTrimmer, NextseqQualityTrimmer
    from cutadapt.info import ModificationInfo
    return dict(qti=quality_trim_index, nti=nextseq_trim_index, QualityTrimmer=QualityTrimmer,
                NextseqQualityTrimmer=NextseqQualityTrimmer, ModificationInfo=ModificationInfo)


def cli_cases(ctx, n):
    """pipeline level: -q a,b / -Q / --nextseq-trim / --quality-base 64 at the command line vs the specification"""
    from clirun import run_cli, fastq, parse_fastx
    rng = ctx.rng
    for _ in range(n):
        base = rng.choice([33, 33, 64])
        reads = []
        for i in range(rng.randint(1, 6)):
            ln = rng.randint(0, 30)
            q = gen_quals(rng, ln, base)
            reads.append((f"r{i}", "".join(rng.choice("ACGGT") for _ in range(ln)), q))
        cf, cb = rng.randint(0, 25), rng.randint(0, 25)
        mode = rng.choice(["q2", "q1", "nextseq", "both"])
        ns = rng.randint(5, 25)
        argv = ["--quality-base", str(base)] if base != 33 else []
        if mode == "q2":
            argv += ["-q", f"{cf},{cb}"]
        elif mode == "q1":
            argv += ["-q", str(cb)]
            cf = 0
        elif mode == "nextseq":
            argv += ["--nextseq-trim", str(cb)]
        else:   # both trimmers in one run (NextSeq first, then -q): the reported figure is the sum of what both removed
            argv += ["-q", f"{cf},{cb}", "--nextseq-trim", str(ns)]
        # --zero-cap comes *after* quality trimming in the documented order: the trimming sees the read's real (possibly negative) qualities; only the
        # qualities that are written are capped at zero
        zcap = rng.random() < 0.3
        if zcap:
            argv.append("--zero-cap")
        argv += ["-o", "{out:out.fastq}", "{in:in.fastq}"]
        inp = fastq([(n_, s, "".join(chr(x + base) for x in q)) for n_, s, q in reads])
        r = run_cli(argv, {"in.fastq": inp})
        ctx.evaluations += 1
        if r.status != 0:
            ctx.failures.append(Failure("C13/cli-error", "cutadapt failed on well-formed input", dict(argv=argv, input=inp), r.status, 0))
            continue
        out = parse_fastx(r.files["out.fastq"].decode())
        removed = 0
        for (n_, s, q), (on, os_, oq) in zip(reads, out):
            qs = "".join(chr(x + base) for x in q)
            if mode == "nextseq":
                q2 = [cb - 1 if c == "G" else x for c, x in zip(s, q)]
                a, b = 0, spec3(q2, cb)
            elif mode == "both":
                q2 = [ns - 1 if c == "G" else x for c, x in zip(s, q)]
                stop = spec3(q2, ns)
                a, b = spec_qtrim(q[:stop], cf, cb)
            elif mode == "q1" and cb == 0:
                # a literal cutoff "0" switches quality trimming off (documented for `-Q 0`; `make_quality_trimmers` builds no trimmer),
                # also for reads with negative quality values; `-q 0,0` does build one
                a, b = 0, len(s)
            else:
                a, b = spec_qtrim(q, cf, cb)
            removed += len(s) - (b - a)
            if zcap:
                qs = "".join(chr(base) if ord(c) < base else c for c in qs)
            if (os_, oq) != (s[a:b], qs[a:b]):
                ctx.failures.append(Failure("C13/cli-output", "command-line quality trimming deviates from the specification",
                                            dict(argv=argv, input=inp, read=n_), [os_, oq], [s[a:b], qs[a:b]]))
        rep = r.json["basepair_counts"] if r.json else None
        # `-q 0` builds no trimmer at all: the report then says null (nothing was trimmed)
        if r.json and (r.json["basepair_counts"]["quality_trimmed"] or 0) != removed:
            ctx.failures.append(Failure("C13/cli-quality-trimmed-count", "reported quality-trimmed bases differ from bases removed",
                                        dict(argv=argv, input=inp), rep, removed))
        ctx.count("cli:" + mode)


def run(ctx):
    rng = ctx.rng
    impl = _impl()
    ctx.rule = ("function-level cases: random quality strings (all printable characters; small values with ties and early stops; "
                "good-then-bad), lengths 0-60, cutoffs -5..45, base 33/64, plus exhaustive small scope in thorough; "
                "non-trivial = distinct (qualities, cutoffs, base) whose result is neither 'unchanged' nor 'empty'")
    cases_q, cases_n = [], []
    n = ctx.scale(6000, 150000)
    for _ in range(n):
        base = rng.choice([33, 33, 64])
        ln = rng.choice([0, 1, 2, 3]) if rng.random() < 0.1 else rng.randint(0, 60)
        quals = gen_quals(rng, ln, base)
        quals = [min(q, 126 - base) for q in quals]
        cf = rng.randint(-5, 45) if rng.random() < 0.5 else rng.randint(0, 14)
        cb = rng.randint(-5, 45) if rng.random() < 0.5 else rng.randint(0, 14)
        seq = "".join(rng.choice("ACGGTNg") for _ in range(ln))
        check_case(ctx, quals, cf, cb, base, seq, cases_q, cases_n, impl)
    if ctx.tier == "thorough":
        # exhaustive: all quality strings of length <= 6 over 4 values x cutoffs
        for ln in range(0, 7):
            for quals in itertools.product([0, 5, 10, 20], repeat=ln):
                for cf, cb in [(0, 10), (10, 10), (6, 11), (10, 0), (21, 5)]:
                    seq = ("GAGGCG" * 2)[:ln]
                    check_case(ctx, list(quals), cf, cb, 33, seq, cases_q, cases_n, impl)
        ctx.exhaustive = False
        ctx.notes.append("exhaustive sub-scope: all quality strings of length <= 6 over {0,5,10,20} x 5 cutoff pairs")
    for c in cases_q[:3] + cases_n[:2]:
        ctx.sample(dict(op_line=c[0], impl=c[1]))
    correspond(ctx, "qtrim", cases_q)
    correspond(ctx, "nextseq", cases_n)
    cli_cases(ctx, ctx.scale(40, 600))


def extended_search(ctx):
    ctx.tier_saved = ctx.tier
    impl = _impl()
    cq, cn = [], []
    for ln in range(0, 8):
        for quals in itertools.product([0, 5, 10, 20], repeat=ln):
            for cf, cb in [(0, 10), (10, 10), (6, 11)]:
                check_case(ctx, list(quals), cf, cb, 33, ("GAGGCGAG")[:ln], cq, cn, impl)
            if ctx.failures:
                return
    cli_cases(ctx, 300)


def replay(ctx, rp):
    impl = _impl()
    fl = rp.get("failure") or {}
    inp = fl.get("input", {})
    print("replay input:", inp)
    if "qualities" in inp and "cutoff_front" in inp:
        base = inp["base"]
        q = [ord(c) - base for c in inp["qualities"]]
        got = impl["qti"](inp["qualities"], inp["cutoff_front"], inp["cutoff_back"], base)
        exp = spec_qtrim(q, inp["cutoff_front"], inp["cutoff_back"])
        print("implementation:", got, "specification:", exp)
        return 0 if tuple(got) == exp else 1
    print("nothing to replay for this kind of file; re-run the check")
    return 2
