"""C16 — --revcomp keeps the orientation that matches strictly better.
Correspondence: pipeline level with --revcomp. Oracle: the adapter stage recomputed with the real AdapterCutter objects on the
read and on its reverse complement (what the stage returns *without* --revcomp), combined by the documented rule."""
import pipe
import pipeprop
from pipeprop import rid, revcomp, case_input
from core import Failure

LEVEL = "proof"
FOCUS = ("revcomp", "adapters", "action", "times", "nolinked")


def simple(argv):
    allowed = {"--no-index", "-a", "-g", "-b", "--action", "--times", "--revcomp", "-o", "-e", "-O", "--no-indels", "-N", "--match-read-wildcards", "--rename"}
    toks = [t for t in argv if t.startswith("-") and not t.lstrip("-").replace(".", "").isdigit()]
    return all(t in allowed for t in toks) and "--revcomp" in argv


def oracle(ctx, case, res, real):
    argv = case["argv"]
    if "--revcomp" not in argv:
        return
    inp = case_input(case)
    if "error" in real:
        if real["error"] == "assertion":
            ctx.failures.append(Failure("C16/assertion-reverse-without-match", "--revcomp stage is not total: `assert reverse_matches` fails "
                                        "(forward matches with negative total score, reverse complement without match)", inp, "AssertionError", None))
        elif real["error"] != "cmdline":
            pipeprop.crash_failures(ctx, "C16", case, real)
        return
    if case["paired"]:
        return paired_oracle(ctx, case, real)
    if not simple(argv):
        return
    import dnaio
    import cutadapt.cli as cli
    from cutadapt.modifiers import AdapterCutter
    parser = cli.get_argument_parser()
    _, in_args = pipe.inputs_of(case)
    args = parser.parse_args(list(argv) + in_args)
    import logging
    logging.disable(logging.CRITICAL)
    try:
        ads, _ = cli.adapters_from_args(args)
    finally:
        logging.disable(logging.NOTSET)
    action = None if args.action == "none" else args.action
    # no filtering option is allowed here, so the output holds the reads in input order (a --rename template may change the ids)
    recs_in_order = [r for fn, side, recs in pipeprop.output_roles(case, real) for r in recs]
    rename = "--rename" in argv
    if len(recs_in_order) != len(case["reads1"]):
        ctx.failures.append(Failure("C16/read-missing", "the output does not hold one record per input read", inp, len(recs_in_order), len(case["reads1"])))
        return
    if "{name" in argv[argv.index("-o") + 1]:
        # demultiplexed: several files, so the order across files is not the input order; find the records by id
        if rename:
            return
        by_id = {rid(r[0]): r for r in recs_in_order}
        if any(rid(n) not in by_id for n, _, _ in case["reads1"]):
            ctx.failures.append(Failure("C16/read-missing", "read missing from the output", inp, sorted(by_id), None))
            return
        outs = {i: by_id[rid(n)] for i, (n, _, _) in enumerate(case["reads1"])}
    else:
        outs = {i: r for i, r in enumerate(recs_in_order)}
    nrc = 0
    for ri, (name, s, q) in enumerate(case["reads1"]):
        cutter = AdapterCutter(ads, args.times, action, args.index)
        fwd, fm = cutter.match_and_trim(dnaio.SequenceRecord(name, s, q))
        rev, rm = cutter.match_and_trim(dnaio.SequenceRecord(name, s, q).reverse_complement())
        fs, rsc = sum(m.score for m in fm), sum(m.score for m in rm)
        use_rc = bool(rm) and rsc > fs
        exp = rev if use_rc else fwd
        nrc += use_rc
        got = outs[ri]
        exp_name = name + (" rc" if use_rc and not rename else "")
        if rename:
            tmpl = argv[argv.index("--rename") + 1]
            if tmpl != "{id} {adapter_name} {rc}":
                exp_name = None
            else:
                an = (rm if use_rc else fm)[-1].adapter.name if (rm if use_rc else fm) else "no_adapter"
                exp_name = f"{rid(name)} {an} {'rc' if use_rc else ''}"
        if (got[1], got[2]) != (exp.sequence, exp.qualities) or (exp_name is not None and got[0] != exp_name):
            ctx.failures.append(Failure("C16/wrong-orientation", "--revcomp result differs from 'forward unless the reverse complement has a match and a strictly higher score'",
                                        inp, list(got), [exp_name, exp.sequence, exp.qualities, dict(forward_score=fs, reverse_score=rsc)]))
        if use_rc:
            ctx.nontriv(("rc", name, s))
        if fs == rsc and fm:
            ctx.count("tie-with-matches")
    if real.get("reverse_complemented") != nrc:
        ctx.failures.append(Failure("C16/count", "reverse_complemented counter differs from the number of reads output in reverse-complement orientation",
                                    inp, real.get("reverse_complemented"), nrc))


def paired_oracle(ctx, case, real):
    """paired --revcomp: the pair as given against the pair with its mates swapped; the orientation with the strictly higher *total* match
    score (all matches of both reads, all rounds) is kept, ties and 'no match when swapped' keep the pair as given"""
    argv = case["argv"]
    allowed = {"--no-index", "-a", "-g", "-b", "-A", "-G", "-B", "--action", "--times", "--revcomp", "-o", "-p", "-e", "-O", "--no-indels"}
    toks = [t for t in argv if t.startswith("-") and not t.lstrip("-").replace(".", "").isdigit()]
    if not all(t in allowed for t in toks) or "{name" in argv[argv.index("-o") + 1]:
        return
    import dnaio
    import logging
    import cutadapt.cli as cli
    from cutadapt.modifiers import AdapterCutter
    parser = cli.get_argument_parser()
    _, in_args = pipe.inputs_of(case)
    args = parser.parse_args(list(argv) + in_args)
    logging.disable(logging.CRITICAL)
    try:
        ads1, ads2 = cli.adapters_from_args(args)
    finally:
        logging.disable(logging.NOTSET)
    action = None if args.action == "none" else args.action
    got1 = [tuple(r) for r in real["files"].get("o1.fastq", [])]
    got2 = [tuple(r) for r in real["files"].get("o2.fastq", [])]
    if len(got1) != len(case["reads1"]) or len(got2) != len(case["reads2"]):
        return
    inp = case_input(case)
    nrc = 0
    for k, ((n1, s1, q1), (n2, s2, q2)) in enumerate(zip(case["reads1"], case["reads2"])):
        def trim(ads, n, s_, q_):
            if not ads:
                return dnaio.SequenceRecord(n, s_, q_), []
            return AdapterCutter(ads, args.times, action, args.index).match_and_trim(dnaio.SequenceRecord(n, s_, q_))
        f1, fm1 = trim(ads1, n1, s1, q1)
        f2, fm2 = trim(ads2, n2, s2, q2)
        w1, wm1 = trim(ads1, n2, s2, q2)
        w2, wm2 = trim(ads2, n1, s1, q1)
        fs = sum(m.score for m in fm1) + sum(m.score for m in fm2)
        ws = sum(m.score for m in wm1) + sum(m.score for m in wm2)
        use = bool(wm1 or wm2) and ws > fs
        nrc += use
        e1, e2 = (w1, w2) if use else (f1, f2)
        exp = ((e1.name + (" rc" if use else ""), e1.sequence, e1.qualities), (e2.name + (" rc" if use else ""), e2.sequence, e2.qualities))
        if (got1[k], got2[k]) != exp:
            ctx.failures.append(Failure("C16/wrong-orientation-paired", "paired --revcomp result differs from 'as given unless the swapped pair has a match and a strictly "
                                        "higher total score over both reads'", inp, [list(got1[k]), list(got2[k])],
                                        [list(exp[0]), list(exp[1]), dict(as_given_score=fs, swapped_score=ws)]))
        if use:
            ctx.nontriv(("rc-pair", s1, s2))
        if fm1 and fm2:
            ctx.count("paired:both-mates-match-as-given")
        if wm1 and wm2:
            ctx.count("paired:both-mates-match-swapped")
    ctx.count("paired-oracle")
    if real.get("reverse_complemented") != nrc:
        ctx.failures.append(Failure("C16/count", "reverse_complemented counter differs from the number of pairs output swapped", inp,
                                    real.get("reverse_complemented"), nrc))


def directed_paired(ctx):
    """adapters on both reads; pairs in which both mates match in both orientations with different per-mate scores (one mismatch here, a
    partial occurrence there), so that only the total over both reads decides"""
    rng = ctx.rng
    cases = []
    for _ in range(ctx.scale(40, 500)):
        A1, A2 = rng.choice([("AAAGGGCCCTTTGATC", "GATTACAGATTCCGGA"), ("ACGTTGCAAGGTCCAT", "TTGCACCGTAAGGCTA")])
        f1, f2 = rng.choice([("-a", "-A"), ("-g", "-G"), ("-a", "-G"), ("-b", "-A")])
        argv = ["--no-index"] if rng.random() < 0.6 else []
        argv += [f1, "a0=" + A1, f2, "b0=" + A2, "--revcomp"]
        if rng.random() < 0.3:
            argv += ["--times", "2"]
        if rng.random() < 0.3:
            argv += ["--action", rng.choice(["mask", "lowercase", "none"])]
        argv += ["-o", "{dir}/o1.fastq", "-p", "{dir}/o2.fastq"]
        def inst(ad):
            k = rng.random()
            x = ad
            if k < 0.35:
                j = rng.randrange(len(x))
                x = x[:j] + rng.choice("ACGT") + x[j + 1:]
            elif k < 0.55:
                x = x[: rng.randint(5, len(x))] if rng.random() < 0.5 else x[rng.randint(1, 8):]
            elif k < 0.65:
                return ""
            return x
        def mate():
            body = pipe.rs(rng, rng.randint(4, 12))
            parts = [inst(rng.choice([A1, A2])) for _ in range(rng.randint(1, 2))]
            s_ = body + pipe.rs(rng, rng.randint(0, 3)).join(parts) if rng.random() < 0.5 else parts[0] + body + "".join(parts[1:])
            return s_, "".join(chr(33 + rng.randint(2, 40)) for _ in s_)
        r1, r2 = [], []
        for i in range(6):
            a, b = mate(), mate()
            r1.append((f"r{i}", *a))
            r2.append((f"r{i}", *b))
        cases.append(dict(argv=argv, paired=True, reads1=r1, reads2=r2, with_qual=True, interleaved_in=False))
    return cases


def directed(ctx):
    rng = ctx.rng
    cases = []
    for _ in range(ctx.scale(25, 300)):
        ad = rng.choice(["AAAGGGCCC", "GCCCCCCCCG", "GATTACAGA"])
        spec = rng.choice([ad, ad + "$", "^" + ad])
        flag = "-g" if spec.startswith("^") else rng.choice(["-a", "-a", "-g", "-b"])
        argv = ["--no-index", flag, "a0=" + spec.lstrip("^") if flag != "-g" else "a0=" + spec, "--revcomp", "-e", rng.choice(["0.1", "0.3", "0.9"])]
        if rng.random() < 0.5:
            argv.append("--no-indels")
        if rng.random() < 0.3:
            argv += ["--action", rng.choice(["mask", "lowercase", "none", "retain"])]
        elif rng.random() < 0.3:
            argv += ["--times", "2"]
        if rng.random() < 0.2:
            argv += ["--rename", "{id} {adapter_name} {rc}"]
        argv += ["-o", "{dir}/o1.fastq"]
        reads = []
        for i in range(6):
            s = pipe.rs(rng, rng.randint(0, 25))
            k = rng.random()
            core = ad if k < 0.4 else revcomp(ad) if k < 0.8 else pipe.rs(rng, len(ad), "ACGT" if rng.random() < 0.5 else ad)
            if rng.random() < 0.4:
                j = rng.randrange(len(core))
                core = core[:j] + rng.choice("ACGT") + core[j + 1:]
            pos = rng.choice([0, len(s), rng.randint(0, len(s))])
            s = s[:pos] + core + s[pos:] if rng.random() < 0.9 else s
            if rng.random() < 0.2:   # palindromic situation: adapter on both strands
                s = ad + pipe.rs(rng, 5) + revcomp(ad)
            reads.append((f"r{i}", s, "".join(chr(33 + rng.randint(2, 40)) for _ in s)))
        cases.append(dict(argv=argv, paired=False, reads1=reads, reads2=None, with_qual=True, interleaved_in=False))
    # several adapters and several rounds: the *summed* score over all rounds decides, e.g. one perfect copy of the longest adapter on the
    # given strand against two shorter matches on the other strand
    for _ in range(ctx.scale(40, 500)):
        A, B = rng.choice([("GCTTAGGACCATTCGA", "TTGCACCGTAAG"), ("AAAGGGCCCTTT", "GATTACAGA"), ("ACGTTGCAAGGT", "CCATGGTTAACC")])
        fa, fb = rng.choice(["-a", "-a", "-b"]), rng.choice(["-a", "-a", "-g"])
        argv = ["--no-index", fa, "a0=" + A, fb, "a1=" + B, "--revcomp", "--times", str(rng.randint(2, 3))]
        if rng.random() < 0.3:
            argv += ["--action", rng.choice(["mask", "lowercase", "none"])]
        if rng.random() < 0.2:
            argv += ["--rename", "{id} {adapter_name} {rc}"]
        argv += ["-o", "{dir}/o1.fastq"]
        reads = []
        for i in range(6):
            blocks = [pipe.rs(rng, rng.randint(4, 9))]
            for _b in range(rng.randint(1, 4)):
                blocks.append(rng.choice([A, B, revcomp(A), revcomp(B), revcomp(A), revcomp(B)]))
                blocks.append(pipe.rs(rng, rng.randint(0, 7)))
            s = "".join(blocks)
            reads.append((f"r{i}", s, "".join(chr(33 + rng.randint(2, 40)) for _ in s)))
        cases.append(dict(argv=argv, paired=False, reads1=reads, reads2=None, with_qual=True, interleaved_in=False))
    # the known corner: very tolerant adapter, forward match with negative score
    cases.append(dict(argv=["--no-index", "--revcomp", "-e", "0.9", "--no-indels", "-a", "a0=GCCCCCCCCG$", "-o", "{dir}/o1.fastq"], paired=False,
                      reads1=[("r0", "ATTTTTTTTG", "IIIIIIIIII")], reads2=None, with_qual=True, interleaved_in=False))
    return cases


def run(ctx):
    pipeprop.run(ctx, "C16", FOCUS, oracle, 150, 3000,
                 "random command lines with --revcomp (single and paired) plus directed single-end cases with the adapter on either strand, high error "
                 "rates (negative scores), ties, every action and --times; non-trivial = distinct read that is output reverse-complemented",
                 nontrivial=lambda c, r: False)
    for case, res, real, model in pipe.run_cases(ctx, directed(ctx) + directed_paired(ctx) + norevcomp_cases(ctx)):
        ctx.count("directed")
        oracle(ctx, case, res, real)
        norevcomp_oracle(ctx, case, real)
    multicore_count(ctx)


def norevcomp_cases(ctx):
    """black-box form of the property: every record written with --revcomp is what the same command *without* --revcomp writes for the read as
    given or for its reverse complement (and then carries ` rc`) - whatever the action and whatever the case of the input letters"""
    rng = ctx.rng
    cases = []
    for _ in range(ctx.scale(20, 300)):
        ad = rng.choice(["AAAGGGCCCTTTG", "GATTACAGATTCC"])
        flag = rng.choice(["-a", "-a", "-g", "-b"])
        argv = (["--no-index"] if rng.random() < 0.5 else []) + [flag, "a0=" + ad, "--revcomp"]
        if rng.random() < 0.8:
            argv += ["--action", rng.choice(["lowercase", "lowercase", "mask", "none", "trim", "retain"])]
        argv += ["-o", "{dir}/o1.fastq"]
        reads = []
        for i in range(8):
            body = pipe.rs(rng, rng.randint(8, 20))
            k = rng.random()
            s_ = body + ad + pipe.rs(rng, rng.randint(0, 3)) if k < 0.3 else revcomp(body + ad + pipe.rs(rng, rng.randint(0, 3))) if k < 0.6 else body
            if rng.random() < 0.6:
                s_ = "".join(c.lower() if rng.random() < 0.4 else c for c in s_)       # soft-masked input
            reads.append((f"r{i}", s_, "".join(chr(33 + rng.randint(2, 40)) for _ in s_)))
        cases.append(dict(argv=argv, paired=False, reads1=reads, reads2=None, with_qual=True, interleaved_in=False, norevcomp=True))
    return cases


def norevcomp_oracle(ctx, case, real):
    if not case.get("norevcomp") or "error" in real:
        return
    comp = str.maketrans("ACGTacgt", "TGCAtgca")
    plain = [t for t in case["argv"] if t != "--revcomp"]
    _, fwd = pipe.run_real(dict(case, argv=plain))
    _, rev = pipe.run_real(dict(case, argv=plain, reads1=[(n_, s_.translate(comp)[::-1], q_[::-1]) for n_, s_, q_ in case["reads1"]]))
    if "error" in fwd or "error" in rev:
        return
    f = {rid(r[0]): tuple(r) for r in fwd["files"].get("o1.fastq", [])}
    v = {rid(r[0]): tuple(r) for r in rev["files"].get("o1.fastq", [])}
    ctx.count("norevcomp-checked")
    for r in real["files"].get("o1.fastq", []):
        k = rid(r[0])
        want = (v[k][0] + " rc", v[k][1], v[k][2]) if r[0].endswith(" rc") else f[k]
        if tuple(r) != want:
            ctx.failures.append(Failure("C16/not-what-it-returns-without-revcomp", "a record written with --revcomp differs from what the same command without --revcomp "
                                        "writes for that orientation of the read", case_input(case), list(r), list(want)))
            return


def multicore_count(ctx):
    """"the read is counted as reverse-complemented" also when several worker processes each reverse-complement reads and their counters are
    merged: the reported count equals the number of reads written with the ` rc` suffix"""
    rng = ctx.rng
    for _ in range(ctx.scale(4, 30)):
        ad = rng.choice(["AAAGGGCCCTTTG", "GATTACAGATTCC"])
        reads = []
        for i in range(rng.randint(40, 70)):
            body = pipe.rs(rng, rng.randint(10, 25))
            k = rng.random()
            s_ = body + ad if k < 0.35 else revcomp(body + ad) if k < 0.8 else body
            reads.append((f"r{i}", s_, "I" * len(s_)))
        size = sum(len(n) + 2 * len(s_) + 6 for n, s_, _ in reads)
        case = dict(argv=["-a", "a0=" + ad, "--revcomp", "-o", "{dir}/o1.fastq"], paired=False, reads1=reads, reads2=None, with_qual=True,
                    interleaved_in=False, cores=rng.choice([2, 3, 4]), buffer_size=max(300, size // rng.randint(4, 8)))
        res, real = pipe.run_real(case)
        ctx.evaluations += 1
        ctx.count("multicore-count-run")
        if "error" in real:
            ctx.failures.append(Failure("C16/multicore-run-failed", "--revcomp with several worker processes fails on a well-formed input",
                                        dict(case_input(case), cores=case["cores"], buffer_size=case["buffer_size"]), real["error"], None))
            continue
        nrc = sum(1 for r in real["files"].get("o1.fastq", []) if r[0].endswith(" rc"))
        if real.get("reverse_complemented") != nrc:
            ctx.failures.append(Failure("C16/count", "reverse_complemented counter (merged over the worker processes) differs from the number of reads output in "
                                        "reverse-complement orientation", dict(case_input(case), cores=case["cores"], buffer_size=case["buffer_size"]),
                                        real.get("reverse_complemented"), nrc))


def extended_search(ctx):
    for case, res, real, model in pipe.run_cases(ctx, [c for _ in range(6) for c in directed(ctx) + directed_paired(ctx)]):
        oracle(ctx, case, res, real)


def _replay_oracle(ctx, case, res, real):
    oracle(ctx, case, res, real)
    if not case["paired"] and "--revcomp" in case["argv"]:
        norevcomp_oracle(ctx, dict(case, norevcomp=True), real)


replay = pipeprop.generic_replay("C16", _replay_oracle)
