"""C16 — --revcomp keeps the orientation that matches strictly better.
Correspondence: pipeline level with --revcomp. Oracle: the adapter stage recomputed with the real AdapterCutter objects on the
read and on its reverse complement (what the stage returns *without* --revcomp), combined by the documented rule."""
import pipe
import pipeprop
from pipeprop import rid, revcomp, case_input
from core import Failure

LEVEL = "proof"
FOCUS = ("revcomp", "adapters", "action", "times", "nolinked")


def simple(argv):
    allowed = {"--no-index", "-a", "-g", "-b", "--action", "--times", "--revcomp", "-o", "-e", "-O", "--no-indels", "-N", "--match-read-wildcards", "--rename"}
    toks = [t for t in argv if t.startswith("-") and not t.lstrip("-").replace(".", "").isdigit()]
    return all(t in allowed for t in toks) and "--revcomp" in argv


def oracle(ctx, case, res, real):
    argv = case["argv"]
    if "--revcomp" not in argv:
        return
    inp = case_input(case)
    if "error" in real:
        if real["error"] == "assertion":
            ctx.failures.append(Failure("C16/assertion-reverse-without-match", "--revcomp stage is not total: `assert reverse_matches` fails "
                                        "(forward matches with negative total score, reverse complement without match)", inp, "AssertionError", None))
        elif real["error"] != "cmdline":
            pipeprop.crash_failures(ctx, "C16", case, real)
        return
    if case["paired"] or not simple(argv):
        return
    import dnaio
    import cutadapt.cli as cli
    from cutadapt.modifiers import AdapterCutter
    parser = cli.get_argument_parser()
    _, in_args = pipe.inputs_of(case)
    args = parser.parse_args(list(argv) + in_args)
    import logging
    logging.disable(logging.CRITICAL)
    try:
        ads, _ = cli.adapters_from_args(args)
    finally:
        logging.disable(logging.NOTSET)
    action = None if args.action == "none" else args.action
    # no filtering option is allowed here, so the output holds the reads in input order (a --rename template may change the ids)
    recs_in_order = [r for fn, side, recs in pipeprop.output_roles(case, real) for r in recs]
    rename = "--rename" in argv
    if len(recs_in_order) != len(case["reads1"]):
        ctx.failures.append(Failure("C16/read-missing", "the output does not hold one record per input read", inp, len(recs_in_order), len(case["reads1"])))
        return
    if "{name" in argv[argv.index("-o") + 1]:
        # demultiplexed: several files, so the order across files is not the input order; find the records by id
        if rename:
            return
        by_id = {rid(r[0]): r for r in recs_in_order}
        if any(rid(n) not in by_id for n, _, _ in case["reads1"]):
            ctx.failures.append(Failure("C16/read-missing", "read missing from the output", inp, sorted(by_id), None))
            return
        outs = {i: by_id[rid(n)] for i, (n, _, _) in enumerate(case["reads1"])}
    else:
        outs = {i: r for i, r in enumerate(recs_in_order)}
    nrc = 0
    for ri, (name, s, q) in enumerate(case["reads1"]):
        cutter = AdapterCutter(ads, args.times, action, args.index)
        fwd, fm = cutter.match_and_trim(dnaio.SequenceRecord(name, s, q))
        rev, rm = cutter.match_and_trim(dnaio.SequenceRecord(name, s, q).reverse_complement())
        fs, rsc = sum(m.score for m in fm), sum(m.score for m in rm)
        use_rc = bool(rm) and rsc > fs
        exp = rev if use_rc else fwd
        nrc += use_rc
        got = outs[ri]
        exp_name = name + (" rc" if use_rc and not rename else "")
        if rename:
            tmpl = argv[argv.index("--rename") + 1]
            if tmpl != "{id} {adapter_name} {rc}":
                exp_name = None
            else:
                an = (rm if use_rc else fm)[-1].adapter.name if (rm if use_rc else fm) else "no_adapter"
                exp_name = f"{rid(name)} {an} {'rc' if use_rc else ''}"
        if (got[1], got[2]) != (exp.sequence, exp.qualities) or (exp_name is not None and got[0] != exp_name):
            ctx.failures.append(Failure("C16/wrong-orientation", "--revcomp result differs from 'forward unless the reverse complement has a match and a strictly higher score'",
                                        inp, list(got), [exp_name, exp.sequence, exp.qualities, dict(forward_score=fs, reverse_score=rsc)]))
        if use_rc:
            ctx.nontriv(("rc", name, s))
        if fs == rsc and fm:
            ctx.count("tie-with-matches")
    if real.get("reverse_complemented") != nrc:
        ctx.failures.append(Failure("C16/count", "reverse_complemented counter differs from the number of reads output in reverse-complement orientation",
                                    inp, real.get("reverse_complemented"), nrc))


def directed(ctx):
    rng = ctx.rng
    cases = []
    for _ in range(ctx.scale(25, 300)):
        ad = rng.choice(["AAAGGGCCC", "GCCCCCCCCG", "GATTACAGA"])
        spec = rng.choice([ad, ad + "$", "^" + ad])
        flag = "-g" if spec.startswith("^") else rng.choice(["-a", "-a", "-g", "-b"])
        argv = ["--no-index", flag, "a0=" + spec.lstrip("^") if flag != "-g" else "a0=" + spec, "--revcomp", "-e", rng.choice(["0.1", "0.3", "0.9"])]
        if rng.random() < 0.5:
            argv.append("--no-indels")
        if rng.random() < 0.3:
            argv += ["--action", rng.choice(["mask", "lowercase", "none", "retain"])]
        elif rng.random() < 0.3:
            argv += ["--times", "2"]
        if rng.random() < 0.2:
            argv += ["--rename", "{id} {adapter_name} {rc}"]
        argv += ["-o", "{dir}/o1.fastq"]
        reads = []
        for i in range(6):
            s = pipe.rs(rng, rng.randint(0, 25))
            k = rng.random()
            core = ad if k < 0.4 else revcomp(ad) if k < 0.8 else pipe.rs(rng, len(ad), "ACGT" if rng.random() < 0.5 else ad)
            if rng.random() < 0.4:
                j = rng.randrange(len(core))
                core = core[:j] + rng.choice("ACGT") + core[j + 1:]
            pos = rng.choice([0, len(s), rng.randint(0, len(s))])
            s = s[:pos] + core + s[pos:] if rng.random() < 0.9 else s
            if rng.random() < 0.2:   # palindromic situation: adapter on both strands
                s = ad + pipe.rs(rng, 5) + revcomp(ad)
            reads.append((f"r{i}", s, "".join(chr(33 + rng.randint(2, 40)) for _ in s)))
        cases.append(dict(argv=argv, paired=False, reads1=reads, reads2=None, with_qual=True, interleaved_in=False))
    # several adapters and several rounds: the *summed* score over all rounds decides, e.g. one perfect copy of the longest adapter on the
    # given strand against two shorter matches on the other strand
    for _ in range(ctx.scale(40, 500)):
        A, B = rng.choice([("GCTTAGGACCATTCGA", "TTGCACCGTAAG"), ("AAAGGGCCCTTT", "GATTACAGA"), ("ACGTTGCAAGGT", "CCATGGTTAACC")])
        fa, fb = rng.choice(["-a", "-a", "-b"]), rng.choice(["-a", "-a", "-g"])
        argv = ["--no-index", fa, "a0=" + A, fb, "a1=" + B, "--revcomp", "--times", str(rng.randint(2, 3))]
        if rng.random() < 0.3:
            argv += ["--action", rng.choice(["mask", "lowercase", "none"])]
        if rng.random() < 0.2:
            argv += ["--rename", "{id} {adapter_name} {rc}"]
        argv += ["-o", "{dir}/o1.fastq"]
        reads = []
        for i in range(6):
            blocks = [pipe.rs(rng, rng.randint(4, 9))]
            for _b in range(rng.randint(1, 4)):
                blocks.append(rng.choice([A, B, revcomp(A), revcomp(B), revcomp(A), revcomp(B)]))
                blocks.append(pipe.rs(rng, rng.randint(0, 7)))
            s = "".join(blocks)
            reads.append((f"r{i}", s, "".join(chr(33 + rng.randint(2, 40)) for _ in s)))
        cases.append(dict(argv=argv, paired=False, reads1=reads, reads2=None, with_qual=True, interleaved_in=False))
    # the known corner: very tolerant adapter, forward match with negative score
    cases.append(dict(argv=["--no-index", "--revcomp", "-e", "0.9", "--no-indels", "-a", "a0=GCCCCCCCCG$", "-o", "{dir}/o1.fastq"], paired=False,
                      reads1=[("r0", "ATTTTTTTTG", "IIIIIIIIII")], reads2=None, with_qual=True, interleaved_in=False))
    return cases


def run(ctx):
    pipeprop.run(ctx, "C16", FOCUS, oracle, 150, 3000,
                 "random command lines with --revcomp (single and paired) plus directed single-end cases with the adapter on either strand, high error "
                 "rates (negative scores), ties, every action and --times; non-trivial = distinct read that is output reverse-complemented",
                 nontrivial=lambda c, r: False)
    for case, res, real, model in pipe.run_cases(ctx, directed(ctx)):
        ctx.count("directed")
        oracle(ctx, case, res, real)


def extended_search(ctx):
    for case, res, real, model in pipe.run_cases(ctx, [c for _ in range(6) for c in directed(ctx)]):
        oracle(ctx, case, res, real)


replay = pipeprop.generic_replay("C16", oracle)
