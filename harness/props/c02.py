"""C02 — admissible occurrences are found; exact copies never survive.
Correspondence: as C01 (`matchto` on the eight adapter classes). Oracle: brute-force enumeration of all admissible occurrences."""
import itertools

import gens
import oracle_align as OA
from core import Failure, correspond

LEVEL = "proof"
CANNOT_SKIP_START = ("back", "niback", "suffix", "prefix", "rightmost")


def exact_copy_positions(a, read):
    """positions p where read[p:p+m] matches the whole adapter without error"""
    m = len(a.sequence)
    eq = lambda x, y: OA.doc_match(x, y, a.adapter_wildcards, a.read_wildcards)  # noqa
    return [p for p in range(0, len(read) - m + 1) if all(eq(x, y) for x, y in zip(a.sequence, read[p:p + m]))]


_REAL = {}


def real_adapter(cfg):
    """the same adapter with its real k-mer prefilter (the theorems are about the aligner; C07 relates the two)"""
    key = repr(sorted(cfg.items()))
    if key not in _REAL:
        if len(_REAL) > 2000:
            _REAL.clear()
        _REAL[key] = gens.make_adapter(cfg, mock_kmer=False)[0]
    return _REAL[key]


def one_case(ctx, cfg, a, read, cases):
    mt = a.match_to(read)
    cases.append((gens.matchto_line(cfg, read), gens.show_match(mt)))
    ty = cfg["ty"]
    inp = dict(cfg=cfg, read=read)
    restricted = a.indels and ty not in CANNOT_SKIP_START
    occ = OA.admissible_occurrence(ty, a, read, exact_only=restricted, min_overlap=OA.doc_min_overlap(cfg, len(a.sequence)))
    if occ is not None:
        ctx.count("admissible")
        if occ[4] > 0 or (occ[3] == len(read) and occ[1] < len(a.sequence)):
            ctx.nontriv(("occ", ty, a.sequence, cfg["max_errors"], a.min_overlap, a.indels, a.adapter_wildcards, a.read_wildcards, read))
        if mt is None:
            ctx.failures.append(Failure("C02/occurrence-missed", "an admissible occurrence exists but no match is reported", inp, None, list(occ)))
            return
        # what the user gets: aligner behind the k-mer prefilter
        ar = real_adapter(cfg)
        if ar is not None and ar.match_to(read) is None:
            ctx.failures.append(Failure("C02/occurrence-missed-by-prefilter", "an admissible occurrence exists and the aligner finds a match, but the k-mer prefilter rejects the read",
                                        inp, None, list(occ)))
    if mt is None:
        return
    m, n = len(a.sequence), len(read)
    copies = exact_copy_positions(a, read)
    if copies and a.min_overlap <= m:
        if ty == "back" and mt.rstart > copies[0]:
            ctx.failures.append(Failure("C02/back-cut-after-leftmost-copy", "regular 3' adapter cut after the leftmost error-free copy", inp, gens.show_match(mt), copies[0]))
        if ty == "front" and mt.rstop > copies[0] + m:
            ctx.failures.append(Failure("C02/front-cut-after-leftmost-copy-end", "regular 5' adapter cut after the end of the leftmost copy", inp, gens.show_match(mt), copies[0] + m))
        if ty == "rightmost" and mt.rstop < copies[-1] + m:
            ctx.failures.append(Failure("C02/rightmost-cut-before-rightmost-copy-end", "rightmost 5' adapter cut before the end of the rightmost copy", inp, gens.show_match(mt), copies[-1] + m))
        if ty == "prefix" and 0 in copies and (mt.astart, mt.astop, mt.rstart, mt.rstop, mt.errors) != (0, m, 0, m, 0):
            ctx.failures.append(Failure("C02/anchored5-not-exact", "error-free anchored 5' adapter not removed exactly", inp, gens.show_match(mt), None))
        if ty == "suffix" and (n - m) in copies and (mt.astart, mt.astop, mt.rstart, mt.rstop, mt.errors) != (0, m, n - m, n, 0):
            ctx.failures.append(Failure("C02/anchored3-not-exact", "error-free anchored 3' adapter not removed exactly", inp, gens.show_match(mt), None))
        ctx.count("exact-copy-present")


def random_cases(ctx, n):
    rng = ctx.rng
    cases = []
    done = 0
    while done < n:
        cfg = gens.gen_adapter_cfg(rng, maxlen=8)
        cfg["seq"] = cfg["seq"][:8]
        if cfg["max_errors"] >= 1:
            cfg["max_errors"] = 0.25
        a, err = gens.make_adapter(cfg)
        if a is None:
            continue
        for _ in range(6):
            read = gens.gen_read(rng, a.sequence, maxlen=14)[:18]
            if rng.random() < 0.3:   # two copies, one sloppy: exercises the leftmost / rightmost clauses
                c1 = gens.concretize(rng, a.sequence)
                c2 = gens.mutate(rng, c1, 1)
                parts = [gens.rand_seq(rng, rng.randint(0, 4)), rng.choice([c1, c2]), gens.rand_seq(rng, rng.randint(0, 3)), rng.choice([c1, c2]), gens.rand_seq(rng, rng.randint(0, 3))]
                read = "".join(parts)[:22]
            one_case(ctx, cfg, a, read, cases)
            done += 1
    for c in cases[:4]:
        ctx.sample(dict(op_line=c[0], impl=c[1]))
    correspond(ctx, "matchto", cases)


def small_scope(ctx, max_adapter, max_read, cap=None):
    cases = []
    cnt = 0
    for m in range(1, max_adapter + 1):
        for seq in itertools.product("ACN", repeat=m):
            seq = "".join(seq)
            if seq.count("N") == m:
                continue
            for ty in gens.TYPES:
                for rate in (0.0, 0.34, 0.5):
                    for indels in (True, False):
                        cfg = dict(ty=ty, seq=seq, max_errors=rate, min_overlap=1, read_wildcards=False, adapter_wildcards=True, indels=indels, force_anywhere=False)
                        a, err = gens.make_adapter(cfg)
                        if a is None:
                            continue
                        for n in range(0, max_read + 1):
                            for read in itertools.product("ACN", repeat=n):
                                one_case(ctx, cfg, a, "".join(read), cases)
                                cnt += 1
                        if cap and cnt > cap:
                            correspond(ctx, "matchto", cases)
                            return
    correspond(ctx, "matchto", cases)


def cli_cases(ctx, n):
    """the first clause through the command line, with several adapter specifications of which an earlier one carries its own search parameters
    (a `file:` specification too): an error-free partial copy of a *later* regular 3' adapter at the end of the read, at least as long as the
    global minimum overlap, must be removed - what an earlier specification asks for itself does not concern the others"""
    import clirun
    import pipe
    rng = ctx.rng
    for _ in range(n):
        ad = pipe.rs(rng, rng.randint(12, 18))
        other = pipe.rs(rng, rng.randint(10, 14))
        O = rng.choice([3, 3, 4, 5])
        first = rng.choice(["file", "file", "named"])
        strict = rng.choice([";min_overlap=10", ";o=11;e=0", ";e=0;min_overlap=9"])
        inputs = {}
        if first == "file":
            inputs["p.fa"] = f">p1\n{other}\n>p2\n{pipe.rs(rng, 11)}\n"
            spec1 = "file:{in:p.fa}" + strict
        else:
            spec1 = "first=" + other + strict
        reads = []
        for i in range(10):
            body = pipe.rs(rng, rng.randint(15, 30), "AC" if "G" in ad[:3] or "T" in ad[:3] else "GT")
            k = rng.randint(O, 9)
            reads.append((f"r{i}", body + ad[:k], len(body), k))
        inputs["in.fastq"] = clirun.fastq([(n_, s_, "I" * len(s_)) for n_, s_, _, _ in reads])
        argv = ["-O", str(O), "-a", spec1, "-a", "second=" + ad, "-o", "{out:out.fastq}", "{in:in.fastq}"]
        res = clirun.run_cli(argv, inputs, want_json=False)
        ctx.evaluations += 1
        ctx.count("cli-several-specifications")
        shown = dict(argv=[t.replace("{in:p.fa}", "p.fa") for t in argv], adapter_file=inputs.get("p.fa"), reads=[(n_, s_) for n_, s_, _, _ in reads])
        if res.status != 0:
            ctx.failures.append(Failure("C02/cli-run-failed", "a valid command line with several adapter specifications fails", shown, res.stderr[-300:], 0))
            continue
        out = {a: b for a, b, _ in clirun.parse_fastx(clirun.text_of(res.files.get("out.fastq", b"")))}
        for n_, s_, keep, k in reads:
            if len(out.get(n_, s_)) > keep:
                ctx.failures.append(Failure("C02/occurrence-missed", f"an error-free copy of the first {k} bases of the regular 3' adapter at the end of the read (minimum overlap "
                                            f"{O}) is not removed", shown, dict(read=n_, output=out.get(n_)), dict(keep_at_most=keep)))
                break
        else:
            ctx.nontriv(("cli-specs", tuple(shown["argv"])))


def run(ctx):
    cli_cases(ctx, ctx.scale(12, 150))
    ctx.rule = ("eight adapter classes, adapters up to 8 (IUPAC), reads up to 22 with embedded exact/sloppy copies (single and double), all admissible occurrences "
                "enumerated by brute force; non-trivial = distinct case with an admissible occurrence that has >= 1 error or is a partial match at the read end")
    random_cases(ctx, ctx.scale(9000, 200000))
    if ctx.tier == "thorough":
        small_scope(ctx, 3, 5)
        ctx.notes.append("small scope enumerated: adapters <= 3 over {A,C,N} x reads <= 5 over {A,C,N} x 8 types x 3 rates x indels")


def extended_search(ctx):
    random_cases(ctx, 100000)
    if not ctx.failures:
        small_scope(ctx, 3, 5, cap=300000)


def replay(ctx, rp):
    fl = rp.get("failure") or {}
    inp = fl.get("input", {})
    if "cfg" not in inp:
        print("nothing to replay; re-run the check")
        return 2
    a, err = gens.make_adapter(inp["cfg"])
    cases = []
    one_case(ctx, inp["cfg"], a, inp["read"], cases)
    print("implementation:", cases[0][1], "oracle failures:", [f.signature for f in ctx.failures])
    return 1 if ctx.failures else 0
