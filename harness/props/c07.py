"""C07 — the k-mer prefilter never changes which adapter match is found.

Correspondence (model `Cutadapt.Kmer` vs. the code built from the working tree):
  kmerchunks    kmer_heuristic.kmer_chunks
  minimize      kmer_heuristic.minimize_kmer_search_list (incl. NotImplementedError)
  poskmers      kmer_heuristic.create_positions_and_kmers (canonical order: Python set/dict order is per-run)
  finderkind    type of adapter.kmer_finder (MockKmerFinder vs KmerFinder)
  kmerspresent  adapter.kmer_finder.kmers_present(sequence) — whenever the verdict is a function of the read
Oracle = the property: the same adapter configuration with its real finder and with MockKmerFinder must report the
same match (or none) for every read.

Failure signatures: the three classes known from the design phase (anchored-or-noninternal-indel-window,
anywhere-read-inside-adapter, window-beyond-read), two classes found while this check was built
(regular-partial-overlap-indel-window: regular 3'/5'/rightmost adapters with >= 2 allowed errors, found by an adversarial
placement of insertions; nul-in-read-vs-n-wildcard), and C07/other for anything not yet understood."""
import itertools
import json

import gens
from core import Failure, Diff, correspond, hx, bits

LEVEL = "proof"
SIG_INDEL = "C07/anchored-or-noninternal-indel-window"
SIG_INSIDE = "C07/anywhere-read-inside-adapter"


def inner_finder(a):
    """the KmerFinder (or mock finder) itself: adapters that search both overlap directions wrap it in ShortReadsPassKmerFinder"""
    kf = a.kmer_finder
    return getattr(kf, "kmer_finder", kf)
SIG_BEYOND = "C07/window-beyond-read"
SIG_REGULAR = "C07/regular-partial-overlap-indel-window"   # found while building this check: regular adapters are affected too
SIG_NUL = "C07/nul-in-read-vs-n-wildcard"     # found while building this check (not among the design-phase findings)
SIG_OTHER = "C07/other"
NONINTERNAL = ("prefix", "suffix", "nifront", "niback")


# ------------------------------------------------------------------------------------------------ rendering

def pos_key(e):
    return (e[0], e[1] is not None, e[1] or 0)


def show_entries(pk):
    if not pk:
        return "[]"
    return ";".join(f"{s},{e},{'|'.join(hx(k) for k in sorted(ks))}" for s, e, ks in sorted(pk, key=pos_key))


def show_triples(l):
    if not l:
        return "[]"
    return " ".join(f"{hx(k)}:{s}:{e}" for k, s, e in sorted(set(l), key=lambda t: (t[0],) + pos_key(t[1:])))


# ------------------------------------------------------------------------------------------------ function-level correspondence

def chunk_cases(ctx, n):
    from cutadapt.kmer_heuristic import kmer_chunks
    rng = ctx.rng
    cases = []
    for _ in range(n):
        s = gens.rand_seq(rng, rng.randint(0, 30) if rng.random() < 0.9 else rng.randint(30, 200), rng.choice(["ACGT", "AC", "A"]))
        c = rng.randint(1, max(1, len(s) + 2))
        cases.append((f"kmerchunks {hx(s)} {c}", "|".join(hx(k) for k in sorted(kmer_chunks(s, c)))))
    ctx.sample(dict(op_line=cases[0][0], impl=cases[0][1]))
    correspond(ctx, "kmerchunks", cases)


def minimize_cases(ctx, n):
    from cutadapt.kmer_heuristic import minimize_kmer_search_list
    rng = ctx.rng
    cases = []
    for _ in range(n):
        kmers = [gens.rand_seq(rng, rng.randint(1, 3), "AC") for _ in range(rng.randint(1, 4))]
        l = []
        for _ in range(rng.randint(0, 8)):
            mode = rng.random()
            if mode < 0.4:
                pos = (-rng.randint(0, 9), None)
            elif mode < 0.8:
                pos = (0, rng.randint(1, 9))
            elif mode < 0.9:
                pos = (0, None)
            else:
                pos = (rng.choice([-3, 1, 2, 5]), rng.randint(-2, 9))
            l.append((rng.choice(kmers),) + pos)
        try:
            out = show_triples(minimize_kmer_search_list(list(l)))
        except NotImplementedError:
            out = "error:not-implemented"
            ctx.count("minimize:not-implemented")
        cases.append(("minimize " + " ".join(f"{hx(k)}:{s}:{e}" for k, s, e in l), out))
    correspond(ctx, "minimize", cases)


def poskmers_cases(ctx, n):
    from cutadapt.kmer_heuristic import create_positions_and_kmers
    rng = ctx.rng
    cases = []
    for _ in range(n):
        r = rng.random()
        m = rng.randint(1, 8) if r < 0.3 else rng.randint(1, 40) if r < 0.9 else rng.randint(40, 160)
        seq = gens.rand_seq(rng, m, rng.choice(["ACGT", "ACGT", "AC", "ACGTN", "A"]))
        rate = rng.choice(gens.RATES + [0.05, 0.99, 1.0, 1.5] if rng.random() < 0.9 else [rng.random()])
        mo = rng.choice([rng.randint(0, 8), rng.randint(1, m), m, m + 2])
        b, f, i = rng.random() < 0.6, rng.random() < 0.6, rng.random() < 0.6
        ind = rng.random() < 0.5
        try:
            out = show_entries(create_positions_and_kmers(seq, mo, rate, b, f, i, ind))
        except NotImplementedError:
            out = "error:not-implemented"
        cases.append((f"poskmers {hx(seq)} {mo} {bits(rate)} {int(b)} {int(f)} {int(i)} {int(ind)}", out))
        ctx.count(f"poskmers:back={int(b)},front={int(f)},internal={int(i)},indels={int(ind)}")
    for c in cases[:2]:
        ctx.sample(dict(op_line=c[0], impl=c[1]))
    correspond(ctx, "poskmers", cases)


# ------------------------------------------------------------------------------------------------ generators

def gen_cfg(rng):
    r = rng.random()
    if r < 0.45:
        cfg = gens.gen_adapter_cfg(rng)
    elif r < 0.6:
        # regular adapters that allow two or more errors: partial overlaps with several insertions
        ty = rng.choice(["back", "front", "rightmost", "back", "front", "anywhere", "niback", "nifront"])
        rate = rng.choice([0.1, 0.1, 0.15, 0.2, 0.25, 0.3, 0.34])
        m = rng.randint(max(6, int(2 / rate) + 1), 45)
        cfg = dict(ty=ty, seq=gens.rand_seq(rng, m, rng.choice(["ACGT", "ACGT", "ACGT", "ACGTN"])),
                   max_errors=rate, min_overlap=rng.randint(1, 6), read_wildcards=rng.random() < 0.1,
                   adapter_wildcards=rng.random() < 0.8, indels=True, force_anywhere=False)
    elif r < 0.9:
        # the classes the defects live in, with parameters that make the prefilter bite
        ty = rng.choice(["prefix", "suffix", "nifront", "niback", "anywhere", "anywhere", "front", "back", "rightmost"])
        m = rng.randint(4, 24)
        cfg = dict(ty=ty, seq=gens.rand_seq(rng, m, rng.choice(["ACGT", "ACGT", "ACGTN", "AC"])),
                   max_errors=rng.choice([0.1, 0.15, 0.2, 0.25, 0.3, 0.34, 0.5]), min_overlap=rng.randint(1, 6),
                   read_wildcards=rng.random() < 0.2, adapter_wildcards=rng.random() < 0.8,
                   indels=rng.random() < 0.8, force_anywhere=False)
    else:
        # long adapters: several masks per entry, words longer than 64 (-> MockKmerFinder)
        cfg = gens.gen_adapter_cfg(rng)
        cfg["seq"] = gens.rand_seq(rng, rng.randint(50, 170), "ACGT")
        cfg["max_errors"] = rng.choice([0.0, 0.01, 0.05, 0.1, 0.2, 0.3])
    if cfg["ty"] in ("front", "back", "rightmost") and rng.random() < 0.15:
        cfg["force_anywhere"] = True      # `-a "SEQ;anywhere"`
    return cfg


def indel_mutate(rng, s, k):
    cp = list(s)
    for _ in range(k):
        if not cp:
            break
        pos = rng.randrange(len(cp))
        r = rng.random()
        if r < 0.4:
            cp.insert(pos, rng.choice("ACGT"))
        elif r < 0.8:
            del cp[pos]
        else:
            cp[pos] = rng.choice("ACGT")
    return "".join(cp)


def finder_verdict(cfg, a, read):
    return inner_finder(a).kmers_present(read[::-1] if cfg["ty"] == "rightmost" else read)


def overlap_with_insertions(rng, cfg, a, tries=25):
    """A piece of the adapter that ends (3' types) / starts (5' types) `d` characters before a level boundary of the error
    table, with d+1..e insertions, so that the read part is longer than the window computed for that level. Among `tries`
    random placements of the insertions, one that the adapter's own finder rejects is preferred (adversarial search)."""
    seq = gens.concretize(rng, a.sequence)
    m = len(seq)
    rate = a.max_error_rate
    tops = {}
    for i in range(1, m + 1):
        tops[int(i * rate)] = i          # largest length with that many errors
    levels = [e for e in tops if e >= 1]
    if not levels:
        return None
    e = max(levels) if rng.random() < 0.6 else rng.choice(levels)
    d = rng.randint(0, min(e - 1, 2)) if rng.random() < 0.3 else min(e - 1, 1)
    L = tops[e] - d
    if L < 2:
        return None
    nins = rng.randint(d + 1, e)
    five = cfg["ty"] in ("front", "nifront", "prefix", "rightmost")
    base = seq[m - L:] if five else seq[:L]
    junk = gens.rand_seq(rng, rng.randint(0, 8))
    rd = None
    for _ in range(tries):
        piece = list(base)
        for _ in range(nins):
            piece.insert(rng.randint(1, len(piece) - 1), rng.choice("ACGT"))
        rd = "".join(piece) + junk if five else junk + "".join(piece)
        if not hasattr(inner_finder(a), "positions_and_kmers") or not finder_verdict(cfg, a, rd):
            break
    return rd


def gen_read(rng, cfg, a):
    seq = a.sequence
    m = len(seq)
    if a.indels and rng.random() < 0.3:
        rd = overlap_with_insertions(rng, cfg, a)
        if rd is not None:
            return rd
    if "N" in seq and rng.random() < 0.04:
        # a NUL byte (legal ASCII in FASTA/FASTQ) where the adapter has its N wildcard
        cp = "".join("\0" if c == "N" and rng.random() < 0.6 else rng.choice(gens.IUPAC_EXP.get(c, c)) for c in seq)
        return gens.rand_seq(rng, rng.randint(0, 8)) + cp + gens.rand_seq(rng, rng.randint(0, 8))
    if rng.random() < 0.4:
        return gens.gen_read(rng, seq)
    ty = cfg["ty"]
    conc = gens.concretize(rng, seq)
    k = rng.choice([0, 1, 1, 1, 2, 2, 3])
    junk = gens.rand_seq(rng, rng.randint(0, 12))
    mode = rng.random()
    if (ty == "anywhere" or cfg.get("force_anywhere")) and a.indels and rng.random() < 0.3:
        # a read as long as the adapter or up to max_errors - 1 longer, made of an inner stretch of the adapter plus insertions:
        # it can only be placed inside the adapter, and no k-mer has to survive (the short-read pass must let it through; S190)
        e = int(m * a.max_error_rate)
        if e >= 1:
            nins = rng.randint(1, e)
            plen = rng.randint(m, m + e - 1) - nins
            if 2 <= plen <= m:
                i = rng.randint(0, m - plen)
                piece = list(conc[i:i + plen])
                step = max(1, plen // (nins + 1))
                for t in range(nins):
                    pos = min(len(piece) - 1, max(1, (t + 1) * step + t + rng.randint(-1, 1)))
                    piece.insert(pos, rng.choice("ACGT"))
                return "".join(piece)
    if ty == "anywhere" or (cfg.get("force_anywhere") and mode < 0.5):
        if mode < 0.6 and m >= 2:     # read strictly inside the adapter
            i = rng.randint(0, m - 1)
            j = rng.randint(i + 1, m)
            return indel_mutate(rng, conc[i:j], rng.choice([0, 0, 1, 1, 2]))
    if ty in ("suffix", "niback", "back"):
        part = conc if ty == "suffix" or mode < 0.5 else conc[:rng.randint(1, m)]
        return junk + indel_mutate(rng, part, k)
    if ty in ("prefix", "nifront", "front", "rightmost"):
        part = conc if ty == "prefix" or mode < 0.5 else conc[rng.randint(0, m - 1):]
        rd = indel_mutate(rng, part, k) + junk
        if mode > 0.8:                 # read shorter than the 5' windows
            rd = rd[:rng.randint(0, max(1, m - 1))]
        return rd
    p = rng.randint(0, len(junk))
    return junk[:p] + indel_mutate(rng, conc, k) + junk[p:]


# ------------------------------------------------------------------------------------------------ windows behind the read

def heap_demo():
    """Regression test for d940092 (positive `stop` not clamped): the same read content must get the same verdict whatever
    lies next to it on the heap. Before the fix the window of a 5' adapter reached into neighbouring string objects."""
    import random
    from cutadapt.adapters import FrontAdapter
    rng = random.Random(1)
    ad = "".join(rng.choice("ACGT") for _ in range(120))
    a = FrontAdapter(ad, max_errors=0.1, min_overlap=3)
    pk = inner_finder(a).positions_and_kmers
    big = [(s, e, ks) for s, e, ks in pk if e is not None and e >= 100]
    if not big:
        return None
    kmer = big[0][2][0]

    def fresh(s):
        return "".join([s[:3], s[3:]])

    out = {}
    read = "GGGGGGGGGG"
    for label, nb in (("neighbour-holds-kmer", kmer + "TT"), ("neighbour-plain", "T" * len(kmer) + "TT")):
        objs = []
        for _ in range(400):
            objs.append(fresh(read))
            objs.append(fresh(nb))
        vs = [inner_finder(a).kmers_present(r) for r in objs[0::2]]
        out[label] = dict(true=sum(vs), false=len(vs) - sum(vs))
    return dict(adapter="FrontAdapter(%r, max_errors=0.1, min_overlap=3)" % ad, read=read, window=list(big[0][:2]),
                kmer=kmer, verdicts=out, cfg=dict(ty="front", seq=ad, max_errors=0.1, min_overlap=3, read_wildcards=False,
                                                  adapter_wildcards=True, indels=True, force_anywhere=False))


def beyond_check(ctx):
    """(iii) window-beyond-read: the verdict for a read without any k-mer must be False independently of the heap"""
    demo = heap_demo()
    if demo is None:
        ctx.notes.append("heap demonstration not applicable (no long 5' window)")
        return
    ctx.evaluations += 800
    trues = sum(v["true"] for v in demo["verdicts"].values())
    ctx.count("heap-neighbour-probes", 800)
    if trues:
        ctx.failures.append(Failure(
            SIG_BEYOND,
            "kmers_present gives different verdicts for equal reads: the 5' window reaches behind the read, the verdict depends on "
            "memory the program does not own", dict(cfg=demo["cfg"], read=demo["read"]),
            got=json.dumps(demo["verdicts"]), expected="False for every copy of the read",
            extra=dict(heap_dependence_demo=demo)))


# ------------------------------------------------------------------------------------------------ oracle + kmers_present

def classify(cfg, a, read, mt):
    """signature for a read whose match is lost through the prefilter (mt = the match found without it)"""
    m = len(a.sequence)
    if "\0" in read[mt.rstart:mt.rstop] and a.adapter_wildcards and not a.read_wildcards:
        return SIG_NUL
    if cfg["ty"] in NONINTERNAL and a.indels and mt.errors > 0:
        return SIG_INDEL
    if cfg["ty"] in ("back", "front", "rightmost", "anywhere") and a.indels and mt.errors >= 2 and mt.astop - mt.astart < m \
            and (mt.astart == 0 or mt.astop == m):
        return SIG_REGULAR
    if (cfg["ty"] == "anywhere" or cfg.get("force_anywhere")) and mt.astart > 0 and mt.astop < m \
            and mt.rstart == 0 and mt.rstop == len(read):
        return SIG_INSIDE
    return SIG_OTHER


def present_line(cfg, seq_in, beyond):
    return (f"kmerspresent {cfg['ty']} {hx(cfg['seq'])} {bits(cfg['max_errors'])} {cfg['min_overlap']} "
            f"{int(cfg['read_wildcards'])} {int(cfg['adapter_wildcards'])} {int(cfg['indels'])} {hx(seq_in)} {beyond} "
            f"{int(bool(cfg.get('force_anywhere')))}")


def kind_line(cfg):
    return (f"finderkind {cfg['ty']} {hx(cfg['seq'])} {bits(cfg['max_errors'])} {cfg['min_overlap']} "
            f"{int(cfg['read_wildcards'])} {int(cfg['adapter_wildcards'])} {int(cfg['indels'])} "
            f"{int(bool(cfg.get('force_anywhere')))}")


class State:
    def __init__(self):
        self.present, self.kinds, self.pending, self.prefilter = [], [], [], []


def prefilter_line(cfg, read):
    return (f"prefilter {cfg['ty']} {hx(cfg['seq'])} {bits(cfg['max_errors'])} {cfg['min_overlap']} "
            f"{int(cfg['read_wildcards'])} {int(cfg['adapter_wildcards'])} {int(cfg['indels'])} {hx(read)} "
            f"{int(bool(cfg.get('force_anywhere')))}")


def safedomain_line(cfg, read):
    return (f"safedomain {cfg['ty']} {hx(cfg['seq'])} {bits(cfg['max_errors'])} {cfg['min_overlap']} "
            f"{int(cfg['read_wildcards'])} {int(cfg['adapter_wildcards'])} {int(cfg['indels'])} {hx(read)} "
            f"{int(bool(cfg.get('force_anywhere')))}")


def one_read(ctx, st, cfg, real, mock, read, correspond_present=True):
    """oracle on one read (+ the kmers_present correspondence line)"""
    import cutadapt.adapters as A
    mt_real = real.match_to(read)
    mt_mock = mock.match_to(read)
    sr, sm = gens.show_match(mt_real), gens.show_match(mt_mock)
    ctx.evaluations += 1
    is_mock = isinstance(inner_finder(real), A.MockKmerFinder)
    if mt_mock is not None:
        ctx.count("match:" + cfg["ty"])
        if mt_mock.errors > 0 and not is_mock:
            ctx.nontriv(("M", cfg["ty"], cfg["seq"], cfg["max_errors"], cfg["min_overlap"], cfg["indels"], read))
    if sr != sm:
        sig = classify(cfg, real, read, mt_mock) if mt_mock is not None else SIG_OTHER
        fl = Failure(sig, "the match found by the aligner alone is dropped by the k-mer prefilter"
                     if mt_real is None else "prefilter changes the reported match",
                     dict(cfg=cfg, read=read), got=sr, expected=sm,
                     extra=dict(adapter=repr(real),
                                positions_and_kmers=show_entries(inner_finder(real).positions_and_kmers)
                                if not is_mock else "mock"))
        # cross-check with the theorem: a lost match inside `safeDomain` contradicts `prefilter_safe_partial`
        st.pending.append((safedomain_line(cfg, read), fl))
    if is_mock or not correspond_present:
        return
    seq_in = read[::-1] if cfg["ty"] == "rightmost" else read
    verdict = inner_finder(real).kmers_present(seq_in)
    # the verdict match_to acts on: short reads of adapters that search both overlap directions do not reach the KmerFinder
    st.prefilter.append((prefilter_line(cfg, read), str(real.kmer_finder.kmers_present(seq_in))))
    if real.kmer_finder is not inner_finder(real) and len(seq_in) < real.kmer_finder.min_length:
        ctx.count("short-read-bypasses-finder")
    if not verdict:
        ctx.count("prefilter-says-no")
        ctx.nontriv(("F", cfg["ty"], cfg["seq"], cfg["max_errors"], cfg["min_overlap"], cfg["indels"], read))
    if any(e is not None and e > len(seq_in) for s, e, ks in inner_finder(real).positions_and_kmers):
        ctx.count("5'-window-longer-than-read")
    st.present.append((present_line(cfg, seq_in, "-"), str(verdict)))


def flush(ctx, st):
    from core import run_driver
    correspond(ctx, "finderkind", st.kinds)
    correspond(ctx, "kmerspresent", st.present)
    correspond(ctx, "prefilter", st.prefilter)
    if st.pending:
        outs = run_driver([l for l, _ in st.pending])
        for (line, fl), dom in zip(st.pending, outs):
            if dom == "True":
                fl.extra["safeDomain"] = True
                fl.extra["signature_by_shape"] = fl.signature
                fl.what += " — although the read is ASCII without NUL, where prefilter_safe_partial proves equality"
                fl.signature = SIG_OTHER
            elif dom != "False":
                fl.extra["safeDomain"] = dom
                fl.signature = SIG_OTHER
            else:
                fl.extra["safeDomain"] = False
            ctx.count("lost-match:" + fl.signature)
            ctx.failures.append(fl)
        ctx.corr_ops["safedomain-of-failures"] = ctx.corr_ops.get("safedomain-of-failures", 0) + len(st.pending)
    st.present, st.kinds, st.pending, st.prefilter = [], [], [], []


def random_cases(ctx, ncfg, reads_per_cfg):
    import cutadapt.adapters as A
    rng = ctx.rng
    st = State()
    for _ in range(ncfg):
        cfg = gen_cfg(rng)
        real, err = gens.make_adapter(cfg, mock_kmer=False)
        if real is None:
            ctx.count("ctor-" + err)
            continue
        if not real.max_error_rate < 1:
            ctx.count("skipped:rate>=1")
            continue
        mock, _ = gens.make_adapter(cfg, mock_kmer=True)
        is_mock = isinstance(inner_finder(real), A.MockKmerFinder)
        st.kinds.append((kind_line(cfg), "mock" if is_mock else "masks"))
        ctx.count(("cfg:%s:indels=%d" % (cfg["ty"], cfg["indels"])) + (":mock" if is_mock else ""))
        for _ in range(reads_per_cfg):
            one_read(ctx, st, cfg, real, mock, gen_read(rng, cfg, real))
        if len(st.present) > 200000:
            flush(ctx, st)
    for c in st.present[:3]:
        ctx.sample(dict(op_line=c[0], impl=c[1]))
    flush(ctx, st)


def small_scope(ctx, max_adapter, max_read, rates, alphabet="ACG", sample_every=97):
    """all adapters <= max_adapter x all reads <= max_read over `alphabet` x 8 types x rates x indels on/off (min_overlap 1);
    the oracle on every pair, the kmers_present correspondence on every `sample_every`-th"""
    reads = ["".join(r) for n in range(0, max_read + 1) for r in itertools.product(alphabet, repeat=n)]
    st = State()
    k = 0
    for m in range(1, max_adapter + 1):
        for seq in itertools.product(alphabet, repeat=m):
            seq = "".join(seq)
            for ty in gens.TYPES:
                for rate in rates:
                    for indels in (True, False):
                        cfg = dict(ty=ty, seq=seq, max_errors=rate, min_overlap=1, read_wildcards=False,
                                   adapter_wildcards=True, indels=indels, force_anywhere=False)
                        real, err = gens.make_adapter(cfg, mock_kmer=False)
                        mock, _ = gens.make_adapter(cfg, mock_kmer=True)
                        st.kinds.append((kind_line(cfg), "mock" if type(inner_finder(real)).__name__ == "MockKmerFinder" else "masks"))
                        for read in reads:
                            k += 1
                            if k % sample_every == 0:
                                one_read(ctx, st, cfg, real, mock, read)
                                continue
                            mr, mm = real.match_to(read), mock.match_to(read)
                            ctx.evaluations += 1
                            if (mr is None) != (mm is None) or (mr is not None and gens.show_match(mr) != gens.show_match(mm)):
                                one_read(ctx, st, cfg, real, mock, read, correspond_present=False)
                        if len(st.present) > 200000:
                            flush(ctx, st)
    flush(ctx, st)
    ctx.exhaustive = True
    ctx.notes.append(f"small scope enumerated: adapters <= {max_adapter} x reads <= {max_read} over {{{','.join(alphabet)}}} x 8 types x "
                     f"rates {rates} x indels on/off, min_overlap 1: {k} adapter/read pairs through the oracle")


def dedupe_failures(ctx, keep_per_sig=12):
    """keep the evidence small: at most `keep_per_sig` failures per signature, shortest inputs first; the first failures
    listed are one of each signature (unknown ones first), so that the replay file shows every class"""
    by = {}
    for f in ctx.failures:
        by.setdefault(f.signature, []).append(f)
    order = [SIG_OTHER] + sorted(k for k in by if k not in (SIG_OTHER, SIG_INDEL, SIG_INSIDE, SIG_BEYOND, SIG_NUL, SIG_REGULAR)) + \
            [SIG_INDEL, SIG_INSIDE, SIG_BEYOND, SIG_REGULAR, SIG_NUL]
    heads, tails = [], []
    for sig in order:
        fl = sorted(by.get(sig, []), key=lambda f: (len(f.input["cfg"]["seq"]) + len(f.input["read"]), f.input["cfg"]["seq"], f.input["read"]))
        ctx.count("failures:" + sig, len(fl))
        heads.extend(fl[:1])
        tails.extend(fl[1:keep_per_sig])
    ctx.failures = heads + tails


def run(ctx):
    ctx.rule = ("function-level: random sequences/chunk counts, random search lists incl. middle searches, random adapters 1..160 x rates x "
                "min_overlap x (back, front, internal); adapter-level: eight adapter classes (+ ';anywhere'), rates < 1, wildcards, indels on/off, "
                "adapters up to 170 (several masks per entry, words > 64 -> mock finder), reads = random / mutated copies at every offset / "
                "indel-mutated copies at the anchored end / pieces of the adapter / reads shorter than the 5' windows / NUL bytes at N wildcards; "
                "non-trivial = distinct case in which the prefilter rejects the read, or a match with >= 1 error passes a real (non-mock) finder")
    beyond_check(ctx)
    chunk_cases(ctx, ctx.scale(3000, 60000))
    minimize_cases(ctx, ctx.scale(3000, 60000))
    poskmers_cases(ctx, ctx.scale(4000, 100000))
    random_cases(ctx, ctx.scale(5000, 150000), 16)
    if ctx.tier == "thorough":
        small_scope(ctx, 5, 7, [0.0, 0.2, 0.34])
    dedupe_failures(ctx)


def extended_search(ctx):
    random_cases(ctx, 20000, 16)
    dedupe_failures(ctx)


def extra_coverage(ctx):
    return dict(known_finding_classes=[SIG_NUL], fixed_classes_kept_as_regression_tests=[SIG_INDEL, SIG_BEYOND, SIG_REGULAR, SIG_INSIDE],
                note="every lost match is cross-checked against Kmer.asciiNoNul, the domain of prefilter_safe_partial (driver op safedomain): a lost match inside the domain of "
                     "prefilter_safe_partial is reported as C07/other")


def replay(ctx, rp):
    fl = rp.get("failure") or {}
    inp = fl.get("input", {})
    if "cfg" not in inp:
        print("nothing to replay; re-run the check")
        return 2
    cfg, read = inp["cfg"], inp["read"]
    real, _ = gens.make_adapter(cfg, mock_kmer=False)
    mock, _ = gens.make_adapter(cfg, mock_kmer=True)
    sr, sm = gens.show_match(real.match_to(read)), gens.show_match(mock.match_to(read))
    print("with prefilter:", sr, "| aligner alone:", sm)
    bad = sr != sm
    if fl.get("signature") == SIG_BEYOND:
        demo = heap_demo()
        print("verdicts for equal reads next to different heap neighbours:", demo and demo["verdicts"])
        bad = bad or bool(demo and sum(v["true"] for v in demo["verdicts"].values()))
    return 1 if bad else 0
