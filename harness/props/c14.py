"""C14 — poly-A/T, --trim-n, N count, expected errors. Function-level correspondence (polya, nend, ncount, ee with
bit-exact doubles) + oracles written from the property text."""
import itertools
import math
from fractions import Fraction

from core import Failure, correspond, hx, bits

LEVEL = "proof"


def spec_polya(s):
    n = len(s)
    best, bestscore = n, 0
    cands = []
    for i in range(n - 1, -1, -1):
        suf = s[i:]
        err = sum(1 for c in suf if c != "A")
        sc = (len(suf) - err) - 2 * err
        if err * 5 <= len(suf):
            cands.append((sc, i))
    if cands:
        mx = max(sc for sc, i in cands)
        if mx > 0:
            best = max(i for sc, i in cands if sc == mx)   # shorter tail on ties
    if n - best < 3:
        best = n
    return best


def spec_polyt(s):
    n = len(s)
    best = 0
    cands = []
    for t in range(1, n + 1):
        pre = s[:t]
        err = sum(1 for c in pre if c != "T")
        sc = (t - err) - 2 * err
        if err * 5 <= t:
            cands.append((sc, t))
    if cands:
        mx = max(sc for sc, t in cands)
        if mx > 0:
            best = min(t for sc, t in cands if sc == mx)
    if best < 3:
        best = 0
    return best


def spec_trimn(s):
    a = 0
    while a < len(s) and s[a] == "N":
        a += 1
    e = len(s)
    while e > 0 and s[e - 1] == "N":
        e -= 1
    return s[a:e] if a < e else ""


def run(ctx):
    from cutadapt.qualtrim import poly_a_trim_index, expected_errors
    from cutadapt.modifiers import PolyATrimmer, NEndTrimmer
    from cutadapt.predicates import TooManyN
    from cutadapt.info import ModificationInfo
    from dnaio import SequenceRecord
    rng = ctx.rng
    ctx.rule = ("random sequences biased towards A/T tails with errors near the 20% boundary, N-rich reads, all printable quality characters; "
                "non-trivial = distinct input on which something is trimmed / the sum has >= 5 terms / an N is counted")
    polya, nend, ncnt, ee = [], [], [], []
    n = ctx.scale(8000, 200000)
    for _ in range(n):
        ln = rng.randint(0, 40)
        mode = rng.random()
        if mode < 0.5:
            k = rng.randint(0, ln)
            s = "".join(rng.choice("ACGT") for _ in range(ln - k)) + "".join(rng.choice("AAAAAAAAC" if rng.random() < 0.7 else "AAAAG") for _ in range(k))
        elif mode < 0.7:
            s = "".join(rng.choice("AAAT") for _ in range(ln))
        else:
            s = "".join(rng.choice("ACGTNNna") for _ in range(ln))
        if rng.random() < 0.5:
            s2 = "".join({"A": "T", "T": "A"}.get(c, c) for c in s[::-1])
            got = poly_a_trim_index(s2, True)
            polya.append((f"polya {hx(s2)} 1", str(got)))
            exp = spec_polyt(s2)
            if got != exp:
                ctx.failures.append(Failure("C14/poly-t", "poly-T head index deviates from the definition", dict(seq=s2), got, exp))
            rec = SequenceRecord("r", s2, "I" * len(s2))
            out = PolyATrimmer(revcomp=True)(rec, ModificationInfo(rec))
            if out.sequence != s2[exp:] or len(out.qualities) != len(out.sequence):
                ctx.failures.append(Failure("C14/poly-t-modifier", "PolyATrimmer(revcomp) output wrong", dict(seq=s2), out.sequence, s2[exp:]))
            if exp:
                ctx.nontriv(("T", s2))
        else:
            got = poly_a_trim_index(s)
            polya.append((f"polya {hx(s)} 0", str(got)))
            exp = spec_polya(s)
            if got != exp:
                ctx.failures.append(Failure("C14/poly-a", "poly-A tail index deviates from the definition", dict(seq=s), got, exp))
            rec = SequenceRecord("r", s, "I" * len(s))
            out = PolyATrimmer()(rec, ModificationInfo(rec))
            if out.sequence != s[:exp] or len(out.qualities) != len(out.sequence):
                ctx.failures.append(Failure("C14/poly-a-modifier", "PolyATrimmer output wrong", dict(seq=s), out.sequence, s[:exp]))
            if exp < len(s):
                ctx.nontriv(("A", s))
        # --trim-n
        t = "".join(rng.choice("NNNACGn") for _ in range(rng.randint(0, 12)))
        rec = SequenceRecord("r", t, "".join(chr(33 + i) for i in range(len(t))))
        out = NEndTrimmer()(rec, ModificationInfo(rec))
        a = len(t) - len(t.lstrip("N"))
        e = len(t.rstrip("N"))
        nend.append((f"nend {hx(t)}", f"{a} {e}"))
        exp_t = spec_trimn(t)
        pos = t.find(exp_t) if exp_t else 0
        if out.sequence != exp_t or (exp_t and out.qualities != rec.qualities[a:a + len(exp_t)]):
            ctx.failures.append(Failure("C14/trim-n", "--trim-n output deviates from the definition", dict(seq=t), [out.sequence, out.qualities], exp_t))
        if exp_t != t:
            ctx.nontriv(("N", t))
        # N count
        cnt = t.count("N") + t.count("n")
        ncnt.append((f"ncount {hx(t)}", str(cnt)))
        for cutoff in (cnt - 1, cnt, cnt + 0.5):
            if cutoff >= 1:
                pred = TooManyN(cutoff)
                if pred.test(rec, ModificationInfo(rec)) != (cnt > cutoff):
                    ctx.failures.append(Failure("C14/n-count", "TooManyN does not count upper- and lower-case N", dict(seq=t, cutoff=cutoff), None, cnt))
        # expected errors
        base = rng.choice([33, 33, 64])
        ql = rng.randint(0, 45)
        q = "".join(chr(rng.randint(base, 126)) for _ in range(ql))
        if rng.random() < 0.05 and ql:
            i = rng.randrange(ql)
            q = q[:i] + chr(rng.choice([base - 1, 32, 127])) + q[i + 1:]
        try:
            v = expected_errors(q, base)
            ee.append((f"ee {hx(q)} {base}", str(bits(v))))
            exact = sum(Fraction(10) ** 0 * Fraction(1) * Fraction(math.pow(10, -(ord(c) - base) / 10)) for c in q)
            true = sum(10 ** (-(ord(c) - base) / 10) for c in q)
            if abs(v - true) > 1e-9 * max(1, true):
                ctx.failures.append(Failure("C14/expected-errors", "expected errors differ from the sum of 10^(-Q/10)", dict(qualities=q, base=base), v, true))
            if ql >= 5:
                ctx.nontriv(("E", q, base))
        except ValueError:
            ee.append((f"ee {hx(q)} {base}", "ValueError"))
            if all(base <= ord(c) <= 126 for c in q):
                ctx.failures.append(Failure("C14/expected-errors-reject", "valid quality string rejected", dict(qualities=q, base=base), "ValueError", None))
            ctx.count("ee:ValueError")
    if ctx.tier == "thorough":
        for ln in range(0, 9):
            for s in itertools.product("ACa", repeat=ln):
                s = "".join(s)
                got = poly_a_trim_index(s)
                polya.append((f"polya {hx(s)} 0", str(got)))
                if got != spec_polya(s):
                    ctx.failures.append(Failure("C14/poly-a", "poly-A tail index deviates from the definition", dict(seq=s), got, spec_polya(s)))
        ctx.notes.append("exhaustive sub-scope: poly-A on all strings over {A,C,a} up to length 8")
    for c in polya[:2] + nend[:1] + ee[:2]:
        ctx.sample(dict(op_line=c[0], impl=c[1]))
    correspond(ctx, "polya", polya)
    correspond(ctx, "nend", nend)
    correspond(ctx, "ncount", ncnt)
    correspond(ctx, "ee", ee)
    cli_cases(ctx, ctx.scale(80, 1500))


MAXN_CORNERS = [(n_, L_) for L_ in range(2, 121) for n_ in range(1, L_) if (n_ / L_) * L_ != n_]


def cli_cases(ctx, n):
    """the same definitions through the command line (where the options are wired to the functions): --poly-a, --trim-n, --max-n, --max-ee and
    --max-aer one at a time on mixed-case reads, with the action/cores settings that change how the pipeline is assembled; every output
    record is compared with the definition applied to the input read (and the run with the pipeline model)"""
    import pipe
    rng = ctx.rng
    cases = []
    for _ in range(n):
        opt = rng.choice(["--poly-a", "--trim-n", "--max-n", "--max-n", "--max-ee", "--max-aer"])
        val = {"--poly-a": None, "--trim-n": None, "--max-n": rng.choice(["0", "1", "2", "3", "0.1", "0.25", "0.5"]),
               "--max-ee": rng.choice(["0", "0.5", "1", "2.5"]), "--max-aer": rng.choice(["0.001", "0.01", "0.05", "0.2"])}[opt]    # (0 and 1 are refused: the rate must lie strictly between)
        argv = ["--no-index"] if rng.random() < 0.5 else []
        if rng.random() < 0.4:
            argv += ["--action", rng.choice(["none", "lowercase", "mask", "trim"])]
        # options of the adapter search that have nothing to do with these definitions (no adapter is given): they must not change the result
        for o_ in rng.sample([["-O", str(rng.choice([1, 2, 5, 8, 12]))], ["-e", rng.choice(["0", "0.3", "2"])], ["--times", "3"], ["-N"],
                              ["--match-read-wildcards"], ["--no-indels"], ["-O", str(rng.choice([1, 2, 6, 10]))]], rng.choice([0, 1, 2, 2, 3])):
            argv += o_
        argv += [opt] + ([val] if val is not None else [])
        argv += ["-o", "{dir}/o1.fastq"]
        reads = []
        for i in range(8):
            L = rng.randint(0, 24)
            alpha = rng.choice(["ACGTNn", "ACGTacgtNn", "AaNn", "ACGT", "AAAAC", "TTTTG"])
            s_ = "".join(rng.choice(alpha) for _ in range(L))
            if opt == "--poly-a" and rng.random() < 0.7:
                s_ = rng.choice(["", "TTTTTTt", "TTTCTTTT"]) + s_ + rng.choice(["AAAAAA", "AAAaAAAA", "AAACAAAAA", "AAA", ""])
            q_ = "".join(chr(33 + rng.choice([0, 2, 10, 13, 20, 30, 40])) for _ in s_)
            reads.append((f"r{i}", s_, q_))
        if opt == "--max-n" and rng.random() < 0.35:
            # a fraction that the read meets exactly: n N's in L bases with --max-n = n/L ("more than" - the read is kept), at lengths where
            # the double (n/L) times L is not n, i.e. where dividing the count and multiplying the cutoff disagree
            n_, L_ = rng.choice(MAXN_CORNERS)
            val = repr(n_ / L_)
            argv = [t if t != argv[argv.index(opt) + 1] or k != argv.index(opt) + 1 else val for k, t in enumerate(argv)]
            for d_ in (0, 1, -1, 0):
                m_ = min(max(n_ + d_, 0), L_)
                body = list("N" * m_ + "".join(rng.choice("ACGT") for _ in range(L_ - m_)))
                rng.shuffle(body)
                s_ = "".join(body)
                reads.append((f"b{len(reads)}", s_, "I" * len(s_)))
        c = dict(argv=argv, paired=False, reads1=reads, reads2=None, with_qual=True, interleaved_in=False, c14=(opt, val))
        if rng.random() < 0.2:
            c["cores"] = 2
            c["buffer_size"] = 4000        # (must hold the longest record twice over: dnaio refuses smaller buffers with an OverflowError)
        cases.append(c)
    _judge_cli(ctx, cases)


def _replay_cli(ctx, case):
    _judge_cli(ctx, [case])


def _judge_cli(ctx, cases):
    import pipe
    for case, res, real, model in pipe.run_cases(ctx, cases):
        ctx.count("cli")
        if "error" in real:
            ctx.failures.append(Failure("C14/cli-error", "a well-formed run with one of the options fails", dict(argv=case["argv"], reads1=case["reads1"]),
                                        real.get("error"), None))
            continue
        opt, val = case["c14"]
        exp = []
        for n_, s_, q_ in case["reads1"]:
            if opt == "--poly-a":
                a, e = spec_polyt(s_), None
                t_ = s_
                e = spec_polya(t_)
                # PolyATrimmer: poly-A tail at the 3' end only (poly-T heads are the R2/revcomp variant)
                exp.append((n_, s_[:e], q_[:e]))
            elif opt == "--trim-n":
                t_ = spec_trimn(s_)
                a = len(s_) - len(s_.lstrip("N"))
                exp.append((n_, t_, q_[a:a + len(t_)]))
            elif opt == "--max-n":
                cnt = s_.count("N") + s_.count("n")
                v = float(val)
                drop = (len(s_) > 0 and cnt / len(s_) > v) if v < 1 else cnt > v
                if not drop:
                    exp.append((n_, s_, q_))
            else:
                eerr = sum(10 ** (-(ord(c) - 33) / 10) for c in q_)
                v = float(val)
                drop = eerr > v if opt == "--max-ee" else (len(s_) > 0 and eerr / len(s_) > v)
                if abs((eerr if opt == "--max-ee" else (eerr / len(s_) if s_ else 0)) - v) < 1e-9:
                    exp.append(None)      # on the boundary up to rounding: not judged
                    continue
                if not drop:
                    exp.append((n_, s_, q_))
        got = {r[0]: tuple(r) for r in real["files"].get("o1.fastq", [])}
        bad = []
        names_expected = set()
        for e in exp:
            if e is None:
                continue
            names_expected.add(e[0])
            if got.get(e[0]) != e:
                bad.append((e, got.get(e[0])))
        undecided = len([e for e in exp if e is None])
        extra = [k for k in got if k not in names_expected]
        if bad or (extra and not undecided):
            ctx.failures.append(Failure("C14/cli-deviates-from-definition", f"{opt} through the command line deviates from the definition applied to the input reads",
                                        dict(argv=case["argv"], reads1=case["reads1"], cores=case.get("cores")),
                                        [b[1] for b in bad][:3] or extra[:3], [b[0] for b in bad][:3]))
        if any(("n" in s_) for _, s_, _ in case["reads1"]) and opt == "--max-n":
            ctx.count("cli:max-n-with-lowercase-n")


def extended_search(ctx):
    old = ctx.tier
    ctx.tier = "thorough"
    run(ctx)
    ctx.tier = old


def replay(ctx, rp):
    inp = (rp.get("failure") or {}).get("input") or {}
    if "argv" in inp and "reads1" in inp:
        # a command-line case: run it again and compare with the definition
        import pipe
        argv = inp["argv"]
        opt = next((o for o in ("--poly-a", "--trim-n", "--max-n", "--max-ee", "--max-aer") if o in argv), None)
        val = argv[argv.index(opt) + 1] if opt in ("--max-n", "--max-ee", "--max-aer") else None
        case = dict(argv=argv, paired=False, reads1=[tuple(r) for r in inp["reads1"]], reads2=None, with_qual=True, interleaved_in=False, c14=(opt, val))
        if inp.get("cores"):
            case["cores"], case["buffer_size"] = inp["cores"], 4000
        _replay_cli(ctx, case)
        print("oracle failures:", [f.signature for f in ctx.failures])
        return 1 if ctx.failures else 0
    print("re-run the check; failure recorded:", inp)
    return 2
