"""C04 — each read is written once or counted as filtered once; totals add up.
Correspondence: pipeline level (files + statistics). Oracle: record counts of the produced files against the JSON report."""
import pipe
import pipeprop
from pipeprop import rid, case_input
from core import Failure

LEVEL = "proof"
FOCUS = ("filters", "redirect", "demux", "maxaer", "pairfilter", "adapters", "revcomp", "info")


def oracle(ctx, case, res, real):
    argv = case["argv"]
    if real.get("error") == "cmdline":
        return
    res2, real2 = pipe.run_real(case, want_json=True)
    inp = case_input(case)
    if "error" in real2:
        if real2["error"] == "assertion" and "error" not in real:
            ctx.failures.append(Failure("C04/json-report-assertion", "the JSON report asserts written + filtered == n and fails: reads were lost uncounted",
                                        inp, "AssertionError", None))
            return
        pipeprop.crash_failures(ctx, "C04", case, real2)
        return
    j = res2.json
    if j is None:
        return
    rc, bp = j["read_counts"], j["basepair_counts"]
    n = len(case["reads1"])
    demux = "{name" in argv[argv.index("-o") + 1]
    sides = {}
    for fn, side, recs in pipeprop.output_roles(case, real2):
        sides.setdefault(side, []).append((fn, recs))
    written_files = [(fn, recs) for fn, recs in sides.get(0, []) if fn.startswith("o1") or fn.startswith("dm-") or (demux and fn.startswith("ut"))]
    redirected = [(fn, recs) for fn, recs in sides.get(0, []) if (fn, recs) not in written_files]
    nwritten = sum(len(r) for _, r in written_files)
    filt = {k: v for k, v in rc["filtered"].items() if v is not None}
    if rc["input"] != n:
        ctx.failures.append(Failure("C04/input-count", "reported input count differs from the number of input reads", inp, rc["input"], n))
    if rc["output"] != nwritten:
        ctx.failures.append(Failure("C04/output-count", "reported written count differs from the records in the output files", inp, rc["output"], nwritten))
    if rc["input"] != rc["output"] + sum(filt.values()):
        sig = "C04/sum-max-aer-not-reported" if "--max-aer" in argv else "C04/sum"
        ctx.failures.append(Failure(sig, "input != written + sum of the reported filter categories", inp, dict(rc), None))
    ids = [rid(r[0]) for _, recs in sides.get(0, []) for r in recs]
    name_mods = any(o in argv for o in ("-x", "--rename"))
    if not name_mods:
        if len(ids) != len(set(ids)):
            ctx.failures.append(Failure("C04/duplicate", "a read was written more than once", inp, ids, None))
        if not set(ids) <= {rid(r[0]) for r in case["reads1"]}:
            ctx.failures.append(Failure("C04/unknown-read", "a written read has no input read", inp, ids, None))
    nred = sum(len(r) for _, r in redirected)
    if nwritten + nred > n:
        ctx.failures.append(Failure("C04/too-many-records", "more records written than read", inp, nwritten + nred, n))
    wbp = sum(len(r[1]) for _, recs in written_files for r in recs)
    if bp["output_read1"] != wbp:
        ctx.failures.append(Failure("C04/output-bp", "reported written bp differ from the bases in the output files", inp, bp["output_read1"], wbp))
    if bp["input_read1"] != sum(len(r[1]) for r in case["reads1"]):
        ctx.failures.append(Failure("C04/input-bp", "reported input bp wrong", inp, bp["input_read1"], None))
    if case["paired"]:
        w2 = [(fn, recs) for fn, recs in sides.get(1, []) if fn.startswith("o") or fn.startswith("dm-") or (demux and fn.startswith("ut"))]
        wbp2 = sum(len(r[1]) for _, recs in w2 for r in recs)
        if bp["output_read2"] != wbp2:
            ctx.failures.append(Failure("C04/output-bp2", "reported written bp (R2) differ from the output files", inp, bp["output_read2"], wbp2))
    # quality-trimmed / poly-A-trimmed counts are sums over the reads of the bases those stages removed: every stage only removes bases, so
    # (when no read is filtered) their sum cannot exceed input - output, and it equals it when no other length-changing option is used
    if not filt or sum(filt.values()) == 0:
        removed = bp["input"] - bp["output"]
        qt = (bp["quality_trimmed"] or 0) + (bp["poly_a_trimmed"] or 0)
        only_q = not any(o in argv for o in ("-a", "-g", "-b", "-A", "-G", "-B", "-u", "-U", "-l", "-L", "--trim-n"))
        if qt > removed or (only_q and qt != removed):
            ctx.failures.append(Failure("C04/trimmed-bp-not-sum-over-reads", "reported quality-trimmed + poly-A-trimmed bases differ from the bases the reads lost",
                                        inp, dict(quality_trimmed=bp["quality_trimmed"], poly_a_trimmed=bp["poly_a_trimmed"]), dict(input_minus_output=removed)))
    # "with-adapter counts equal the sums over the individual reads": a read counts at most once, whatever --times / --revcomp do
    for key in ("read1_with_adapter", "read2_with_adapter"):
        if (rc.get(key) or 0) > n:
            ctx.failures.append(Failure("C04/with-adapter-count", "more reads counted as 'with adapter' than there are reads", inp, {key: rc.get(key)}, n))
    if "--info-file" in argv and "texts" in real2 and "info.txt" in real2["texts"] and not any(o in argv for o in ("--rename", "-x", "-y", "--strip-suffix")):
        # (with a renaming option the names in the info file need not be distinct any more)
        with_rows = {l.split("\t")[0] for l in real2["texts"]["info.txt"] if l.split("\t")[1] != "-1"}
        if (rc.get("read1_with_adapter") or 0) != len(with_rows):
            ctx.failures.append(Failure("C04/with-adapter-count", "read1_with_adapter differs from the number of reads that have a match row in the info file",
                                        inp, rc.get("read1_with_adapter"), len(with_rows)))
        ctx.count("with-adapter-vs-info-file")
    if not case["paired"] and not demux and sum(filt.values()) == (filt.get("discard_untrimmed") or 0) and \
            ("--discard-untrimmed" in argv or "--untrimmed-output" in argv) and any(t in argv for t in ("-a", "-g", "-b")):
        # single-end, no other filter consumed a read: the reads that reach the main output are exactly the trimmed ones
        if (rc.get("read1_with_adapter") or 0) != nwritten:
            ctx.failures.append(Failure("C04/with-adapter-count", "read1_with_adapter differs from the number of reads that passed the untrimmed filter",
                                        inp, rc.get("read1_with_adapter"), nwritten))
        ctx.count("with-adapter-vs-untrimmed-filter")
    # the text report must account for the same figures: every non-zero filter category of the statistics object is printed
    st = res2.stats
    from cutadapt.report import FILTERS
    missing = [k for k, v in st.filtered.items() if v and k not in FILTERS]
    if missing and "--max-aer" not in argv:
        ctx.failures.append(Failure("C04/category-not-reported", "a filter category with discarded reads is missing from the report", inp, missing, None))


def nontrivial(case, real):
    return sum(real.get("filtered", {}).values()) > 0


def directed_cases(ctx):
    cases = []
    rng = ctx.rng
    for _ in range(ctx.scale(10, 80)):
        r1, r2 = pipe.gen_reads(rng, 6, ["AAAGGGCCC"], ["TTTGGGAAC"], True)
        cases.append(dict(argv=["--no-index", "-g", "a0=AAAGGGCCC", "-G", "b0=TTTGGGAAC", "--discard-untrimmed",
                                "-o", "{dir}/dm-{name1}-{name2}.1.fastq", "-p", "{dir}/dm-{name1}-{name2}.2.fastq"],
                          paired=True, reads1=r1, reads2=r2, with_qual=True, interleaved_in=False))
        r1, _ = pipe.gen_reads(rng, 6, ["AAAGGGCCC"], [], False)
        cases.append(dict(argv=["--no-index", "--max-aer", rng.choice(["0.01", "0.05", "0.2"]), "-o", "{dir}/o1.fastq"],
                          paired=False, reads1=r1, reads2=None, with_qual=True, interleaved_in=False))
        # trimming-only command lines (no filters): the trimmed-bases figures must equal what the reads lost
        r1, r2 = pipe.gen_reads(rng, 6, [], [], True)
        q = rng.choice(["20", "15,10", "20,20", "30,25", "5,35"])
        extra = rng.choice([[], ["--poly-a"], ["--nextseq-trim", "20"]])
        cases.append(dict(argv=["--no-index", "-q", q] + extra + ["-o", "{dir}/o1.fastq"], paired=False, reads1=r1, reads2=None,
                          with_qual=True, interleaved_in=False))
        cases.append(dict(argv=["--no-index", "-q", q, "-Q", rng.choice(["10", "25,25"])] + extra + ["-o", "{dir}/o1.fastq", "-p", "{dir}/o2.fastq"],
                          paired=True, reads1=r1, reads2=r2, with_qual=True, interleaved_in=False))
    # long reads (several hundred to a thousand bases, lengths growing and shrinking from read to read, the two mates independently): the counts
    # of written reads and base pairs are taken per read length
    for _ in range(ctx.scale(4, 40)):
        paired = rng.random() < 0.7
        r1, r2 = [], []
        for i in range(rng.randint(8, 14)):
            l1 = rng.choice([rng.randint(20, 80), rng.randint(400, 700), rng.randint(500, 1100)])
            l2 = rng.choice([rng.randint(20, 80), rng.randint(480, 560), rng.randint(500, 1200)])
            s1, s2 = pipe.rs(rng, l1), pipe.rs(rng, l2)
            r1.append((f"r{i}", s1, "I" * l1))
            r2.append((f"r{i}", s2, "5" * l2))
        argv = ["--no-index"] + rng.choice([[], ["-m", "30"], ["-M", "900"], ["-a", "a0=AAAGGGCCC"]]) + ["-o", "{dir}/o1.fastq"] + (["-p", "{dir}/o2.fastq"] if paired else [])
        cases.append(dict(argv=argv, paired=paired, reads1=r1, reads2=r2 if paired else None, with_qual=True, interleaved_in=False))
    return cases


def run(ctx):
    from props import c06
    c06.stdout_runs(ctx, "C04", ctx.scale(5, 30))
    pipeprop.run(ctx, "C04", FOCUS, oracle, 300, 5000,
                 "random valid command lines with focus on filters, redirect files, discard options, demultiplexing (incl. {name1}/{name2} with "
                 "--discard-untrimmed) and --max-aer, single and paired; non-trivial = distinct case in which at least one read was filtered", nontrivial)
    for case, res, real, model in pipe.run_cases(ctx, directed_cases(ctx)):
        oracle(ctx, case, res, real)
    # runs through the adapter index (default mode with several anchored adapters): filters, discard options, demultiplexing
    def extras(rng):
        e = []
        if rng.random() < 0.4:
            e += ["-m", str(rng.randint(1, 20))]
        x = rng.random()
        demux = rng.random() < 0.4
        if x < 0.25:
            e.append("--discard-untrimmed")
        elif x < 0.4 and not demux:
            e.append("--discard-trimmed")
        elif x < 0.6:
            e += ["--untrimmed-output", "{dir}/ut1.fastq"]
        if rng.random() < 0.2:
            e += ["--action", rng.choice(["mask", "none", "lowercase"])]
        if demux:
            e += ["-o", "{dir}/dm-{name}.1.fastq"]
        return e
    pipeprop.indexed_sweep(ctx, oracle, 60, 1500, extras)


def extended_search(ctx):
    pipeprop.run(ctx, "C04", FOCUS, oracle, 2500, 2500, ctx.rule, nontrivial)


_generic = pipeprop.generic_replay("C04", oracle)


def replay(ctx, rp):
    inp = (rp.get("failure") or {}).get("input") or {}
    if inp.get("kind") != "real-stdout":
        return _generic(ctx, rp)
    import json
    from props import c06
    st, out, files = c06.run_with_stdout(inp["argv"], inp["inputs"], inp["cores"])
    rep = json.loads(files.get("report.json", b"{}") or b"{}")
    got = c06._fq(out)
    want = (rep.get("read_counts", {}).get("output"), rep.get("basepair_counts", {}).get("output"))
    have = (len(got), sum(len(x[1]) for x in got))
    print("status:", st, "| report (reads, bp written):", want, "| standard output holds:", have)
    if st != 0 or want != have:
        ctx.failures.append(Failure("C04/written-differs-from-stdout", "reads / base pairs written according to the report are not what standard output holds",
                                    inp, dict(report=want), dict(stdout=have)))
    return 1 if ctx.failures else 0
