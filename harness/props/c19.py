"""C19 — results do not depend on compression, file layout or how a format is requested.
Model: `Files.outputFormat` (format decision). Correspondence: the `outfmt` op against the format actually written by the real CLI.
Oracle: container x layout x output-name x cores matrix at the command line, decompressed outputs compared with the plain single-core run."""
import bz2
import gzip
import lzma

import clirun
import pipe
from core import Failure, correspond

LEVEL = "proof"
CONTAINERS = ["", ".gz", ".bz2", ".xz", ".zst"]
NAMES = ["fasta", "fa", "fastq", "fq", "out"]


def compress(data, ext, multi=False):
    b = data.encode()
    if ext == ".gz":
        if multi:
            k = b.find(b"\n@", len(b) // 2) + 1 or len(b)
            return gzip.compress(b[:k]) + gzip.compress(b[k:])
        return gzip.compress(b)
    if ext == ".bz2":
        return bz2.compress(b)
    if ext == ".xz":
        return lzma.compress(b)
    if ext == ".zst":
        from backports import zstd
        return zstd.compress(b)
    return b


def fmt_of(text):
    return "fasta" if text.startswith(">") else "fastq" if text.startswith("@") else "empty"


def expected_format(outname, force_fasta_stdout, input_fastq):
    base = outname
    for c in (".gz", ".bz2", ".xz", ".zst"):
        if base.endswith(c):
            base = base[: -len(c)]
            break
    if base.endswith((".fasta", ".fa")):
        return "fasta"
    if base.endswith((".fastq", ".fq")):
        return "fastq"
    return "fastq" if input_fastq else "fasta"


def run_one(argv, inputs, cores):
    res = clirun.run_cli(argv, inputs, want_json=False, cores=cores)
    out = {}
    for fn, data in res.files.items():
        out[fn] = clirun.text_of(data)
    return res, out


def run(ctx):
    rng = ctx.rng
    ctx.rule = ("command-line matrix: input container {plain, gz, multi-member gz, bz2, xz} x input format {FASTQ, FASTA} x output container x layout {single, two files, "
                "interleaved} x output name {.fasta,.fa,.fastq,.fq,other} x cores {1,2}; non-trivial = distinct matrix cell whose output has records")
    cells = []
    for inc in CONTAINERS + [".gz*"]:
        for outc in CONTAINERS:
            for name in NAMES:
                for layout in ("single", "paired", "interleaved", "mixed"):
                    for cores in (1, 2):
                        for infmt in ("fastq", "fasta"):
                            cells.append((inc, outc, name, layout, cores, infmt))
    rng.shuffle(cells)
    cells = cells[: ctx.scale(70, 1200)]
    corr = []
    base_cache = {}
    for inc, outc, name, layout, cores, infmt in cells:
        paired = layout != "single"
        r1, r2 = pipe.gen_reads(rng, 6, ["GATTACAGA"], ["AAAGGGCCC"], paired, with_qual=(infmt == "fastq"))
        if rng.random() < (0.9 if (infmt == "fasta" and cores > 1) else 0.4):
            # record headers may hold any printable character after the id - also the ones that start a record ('>' in FASTA, '@' in FASTQ: HGVS
            # names such as c.20A>T, e-mail-like ids); both mates get the same comment
            cm = [rng.choice([" c.20A>T", " x>y>z", " a@b", " @@", " >", " m.3243A>G 1:N:0", ""]) for _ in r1]
            r1 = [(n_.split()[0] + c_, s_, q_) for (n_, s_, q_), c_ in zip(r1, cm)]
            if r2:
                r2 = [(n_.split()[0] + c_, s_, q_) for (n_, s_, q_), c_ in zip(r2, cm)]
        ser = clirun.fastq if infmt == "fastq" else clirun.fasta
        multi = inc == ".gz*"
        iext = ".gz" if multi else inc
        # "mixed": one interleaved input file, but every output as a pair of files
        if layout in ("interleaved", "mixed"):
            inter = [r for p in zip(r1, r2) for r in p]
            inputs = {f"in.{infmt}{iext}": compress(ser(inter), iext, multi)}
            in_args = ["--interleaved", f"{{dir}}/in.{infmt}{iext}"]
        elif paired:
            inputs = {f"in1.{infmt}{iext}": compress(ser(r1), iext, multi), f"in2.{infmt}{iext}": compress(ser(r2), iext, multi)}
            in_args = [f"{{dir}}/in1.{infmt}{iext}", f"{{dir}}/in2.{infmt}{iext}"]
        else:
            inputs = {f"in.{infmt}{iext}": compress(ser(r1), iext, multi)}
            in_args = [f"{{dir}}/in.{infmt}{iext}"]
        # a FASTA output from FASTQ input is fine; FASTQ output from FASTA input is impossible (no qualities): skip
        if infmt == "fasta" and name in ("fastq", "fq"):
            continue
        common = ["-a", "a0=GATTACAGA", "-m", "3"]
        # the base name may contain further dots (sample.trimmed.fasta.gz, x.R1.fq): only the last extension (below the compression
        # suffix) names the format
        pre = rng.choice(["", "", "", "s.trimmed.", "x.R1.", "a.fa.", "b.fastq.", "v1.2."])
        o1 = f"{pre}o1.{name}{outc}"
        out_args = ["-o", "{dir}/" + o1]
        mixed = layout == "mixed"
        if mixed:
            layout = "paired"          # (from here on the outputs are those of the two-file layout)
        if layout == "paired":
            out_args += ["-p", f"{{dir}}/{pre}o2.{name}{outc}"]
        # a second output stream (reads without adapter) in the same layout as the main one
        with_ut = rng.random() < 0.4
        bout_ut = []
        if with_ut:
            out_args += ["--untrimmed-output", f"{{dir}}/{pre}u1.{name}{outc}"]
            bout_ut = ["--untrimmed-output", "{dir}/baseu1." + name]
            if layout == "paired":
                out_args += ["--untrimmed-paired-output", f"{{dir}}/{pre}u2.{name}{outc}"]
            if paired:
                bout_ut += ["--untrimmed-paired-output", "{dir}/baseu2." + name]
        res, out = run_one(common + out_args + in_args, inputs, cores)
        ctx.evaluations += 1
        cell = dict(input_container=inc, output_container=outc, name=name, stem_prefix=pre, interleaved_input_two_file_output=mixed, layout=layout, cores=cores, input_format=infmt)
        if res.status != 0 and (layout == "interleaved" or mixed) and infmt == "fasta" and cores > 1 and "has no partner" in res.stderr:
            ctx.failures.append(Failure("C19/interleaved-fasta-input-multicore", "interleaved FASTA input fails with more than one core", cell, res.stderr[-200:], 0))
            continue
        if res.status != 0:
            ctx.failures.append(Failure("C19/run-failed", "cutadapt failed on a valid container/layout combination", cell, res.stderr[-300:], 0))
            continue
        # baseline: plain input, plain output, one core, two files
        binputs = {"b1." + infmt: ser(r1)}
        bargs = ["{dir}/b1." + infmt]
        bout = ["-o", "{dir}/base1." + name]
        if paired:
            binputs["b2." + infmt] = ser(r2)
            bargs.append("{dir}/b2." + infmt)
            bout += ["-p", "{dir}/base2." + name]
        bres, bfiles = run_one(common + bout + bout_ut + bargs, binputs, 1)
        brecs1 = clirun.parse_fastx(bfiles["base1." + name])
        brecs2 = clirun.parse_fastx(bfiles["base2." + name]) if paired else None
        missing = [fn_ for fn_ in [o1] + ([f"{pre}o2.{name}{outc}"] if layout == "paired" else []) + ([f"{pre}u1.{name}{outc}"] if with_ut else []) + ([f"{pre}u2.{name}{outc}"] if with_ut and layout == "paired" else []) if fn_ not in out]
        if missing:
            ctx.failures.append(Failure("C19/output-file-missing", "an output file that the command line names was not created (the plain single-core run "
                                        "creates every output file, also an empty one)", cell, sorted(out), missing))
            continue
        got1 = clirun.parse_fastx(out[o1])
        if layout == "interleaved":
            exp = [r for p in zip(brecs1, brecs2) for r in p]
        else:
            exp = brecs1
        expf = expected_format(o1, False, infmt == "fastq")
        gotf = fmt_of(out[o1])
        corr.append((f"outfmt {o1} 0 {int(infmt == 'fastq')} {int(cores > 1)}", gotf if gotf != "empty" else expf))
        if gotf not in (expf, "empty"):
            sig = "C19/format-not-by-name-proxied" if cores > 1 else "C19/format-not-by-name-compressed" if outc else "C19/format-not-by-name"
            ctx.failures.append(Failure(sig, "output format is not determined by the output file name", cell, gotf, expf))
        # records (names and sequences; qualities when both are FASTQ)
        strip = (lambda rs: [(a, b) for a, b, _ in rs])
        if strip(got1) != strip(exp) or (gotf == "fastq" and fmt_of(bfiles["base1." + name]) == "fastq" and got1 != exp):
            ctx.failures.append(Failure("C19/records-differ", "records differ from the plain single-core run", cell, got1[:3], exp[:3]))
        if layout == "paired":
            got2 = clirun.parse_fastx(out[f"{pre}o2.{name}{outc}"])
            if strip(got2) != strip(brecs2):
                ctx.failures.append(Failure("C19/records-differ", "R2 records differ from the plain single-core run", cell, got2[:3], brecs2[:3]))
        if with_ut:
            gu1 = clirun.parse_fastx(out[f"{pre}u1.{name}{outc}"])
            bu1 = clirun.parse_fastx(bfiles["baseu1." + name])
            if layout == "interleaved":
                bu2 = clirun.parse_fastx(bfiles["baseu2." + name])
                expu = [r for p_ in zip(bu1, bu2) for r in p_]
            else:
                expu = bu1
            if strip(gu1) != strip(expu):
                ctx.failures.append(Failure("C19/records-differ", "the untrimmed output differs from the plain two-file single-core run",
                                            dict(cell, untrimmed_output=True), gu1[:3], expu[:3]))
            if layout == "paired":
                gu2 = clirun.parse_fastx(out[f"{pre}u2.{name}{outc}"])
                if strip(gu2) != strip(clirun.parse_fastx(bfiles["baseu2." + name])):
                    ctx.failures.append(Failure("C19/records-differ", "the untrimmed R2 output differs from the plain two-file single-core run",
                                                dict(cell, untrimmed_output=True), gu2[:3], None))
            ctx.count("with-untrimmed-output")
        if got1:
            ctx.nontriv(str(cell))
        ctx.count(f"in{inc or '.plain'}")
        ctx.count(f"out{outc or '.plain'}")
        ctx.count(f"layout:{layout}")
        ctx.count(f"cores:{cores}")
        ctx.sample(cell)
    # several record outputs in one run, each with its own extension and container: every file gets the format of *its own* name
    for _ in range(ctx.scale(16, 300)):
        r1, _r2 = pipe.gen_reads(rng, 10, ["GATTACAGA"], [], False, with_qual=True)
        r1 = [(f"r{i}", s_, q_) for i, (n_, s_, q_) in enumerate(r1)]
        def nm(stem):
            return stem + "." + rng.choice(["fasta", "fa", "fastq", "fq", "fastq", "fasta"]) + rng.choice(CONTAINERS)
        outs = {"too-short": nm("short"), "too-long": nm("long"), "untrimmed": nm("ut"), "main": nm("out")}
        use = [k for k in ("too-short", "too-long", "untrimmed") if rng.random() < 0.7]
        argv = ["-a", "a0=GATTACAGA"]
        if "too-short" in use:
            argv += ["-m", "12", "--too-short-output", "{dir}/" + outs["too-short"]]
        if "too-long" in use:
            argv += ["-M", "30", "--too-long-output", "{dir}/" + outs["too-long"]]
        if "untrimmed" in use:
            argv += ["--untrimmed-output", "{dir}/" + outs["untrimmed"]]
        demux = rng.random() < 0.3
        main = ("dm-{name}." + outs["main"].split(".", 1)[1]) if demux else outs["main"]
        argv += ["-o", "{dir}/" + main, "{dir}/in.fastq"]
        cores = rng.choice([1, 2])
        res, out = run_one(argv, {"in.fastq": clirun.fastq(r1)}, cores)
        ctx.evaluations += 1
        cell = dict(multi_output=True, argv=argv, cores=cores)
        if res.status != 0:
            ctx.failures.append(Failure("C19/run-failed", "cutadapt failed on a valid combination of output files", cell, res.stderr[-300:], 0))
            continue
        seen = []
        for fn, text in out.items():
            expf = expected_format(fn, False, True)
            gotf = fmt_of(text)
            corr.append((f"outfmt {fn} 0 1 {int(cores > 1)}", gotf if gotf != "empty" else expf))
            if gotf not in (expf, "empty"):
                ctx.failures.append(Failure("C19/format-not-by-name-multiple-outputs", "with several output files in one run, a file did not get the format of its own name",
                                            dict(cell, file=fn), gotf, expf))
            try:
                seen += [(a, b) for a, b, _ in clirun.parse_fastx(text)]
            except Exception as e:
                ctx.failures.append(Failure("C19/format-not-by-name-multiple-outputs", "an output file is not parseable in the format of its name", dict(cell, file=fn),
                                            str(e), expf))
        if sorted(a for a, b in seen) != sorted(n_ for n_, s_, q_ in r1):
            ctx.failures.append(Failure("C19/records-differ", "the records over all output files are not the input reads", cell, sorted(a for a, b in seen), None))
        ctx.count("multi-output-runs")
        if len(out) > 1:
            ctx.nontriv("multi:" + str(argv))
    # long reads (tens of kilobases, as long-read instruments produce them) in a small, well-compressible file: the same records from every
    # input container, with one core and with several
    for _ in range(ctx.scale(1, 6)):
        unit = pipe.rs(rng, 50)
        long_reads = [(f"L{i}", (pipe.rs(rng, 37) + unit * rng.randint(900, 1500)), None) for i in range(3)]
        short = [(f"s{i}", pipe.rs(rng, rng.randint(30, 80)), None) for i in range(rng.randint(20, 60))]
        recs = [(n_, s_, "I" * len(s_)) for n_, s_, _ in short[:10] + long_reads[:1] + short[10:] + long_reads[1:]]
        text = clirun.fastq(recs)
        exp = [(n_, s_[5:]) for n_, s_, _ in recs]
        for cont in rng.sample(["", ".gz", ".bz2", ".xz"], 3):
            for cores in (1, rng.choice([2, 4])):
                res, out = run_one(["-u", "5", "-o", "{dir}/o.fastq", "{dir}/in.fastq" + cont], {"in.fastq" + cont: compress(text, cont) if cont else text}, cores)
                ctx.evaluations += 1
                ctx.count("long-reads-runs")
                cell = dict(long_reads=True, input_container=cont or "plain", cores=cores, read_lengths=sorted({len(s_) for _, s_, _ in recs})[-3:])
                if res.status != 0:
                    ctx.failures.append(Failure("C19/long-reads-run-failed", "a file with long reads is processed from one container / core count but fails from another",
                                                cell, res.stderr[-300:], 0))
                    continue
                got = [(a, b) for a, b, _ in clirun.parse_fastx(out.get("o.fastq", ""))]
                if got != exp:
                    ctx.failures.append(Failure("C19/records-differ", "records of a long-read file differ between containers / core counts", cell,
                                                [(a, len(b)) for a, b in got][:5], [(a, len(b)) for a, b in exp][:5]))
    # output that names the adapter found (--rename {adapter_name}) with adapters that tie on many reads (common start): the records must not depend
    # on the number of cores or on how the input is cut into chunks
    for _ in range(ctx.scale(2, 12)):
        common = pipe.rs(rng, 13)
        ads = [common + pipe.rs(rng, 8), common + pipe.rs(rng, 8), pipe.rs(rng, 6) + common[:6]]
        recs = []
        for i in range(rng.randint(150, 250)):
            body = pipe.rs(rng, rng.randint(20, 40))
            k = rng.random()
            tail = common[: rng.randint(4, 13)] if k < 0.6 else rng.choice(ads) if k < 0.8 else ""
            s_ = body + tail
            recs.append((f"t{i}", s_, "I" * len(s_)))
        text = clirun.fastq(recs)
        argv = [t for j, a in enumerate(ads) for t in ("-a", f"ad{j}={a}")] + ["--rename", "{id} {adapter_name}", "-o", "{dir}/o.fastq"]
        ref = None
        for cores, buf, cont in [(1, None, "")] + [(rng.choice([2, 3, 4]), rng.choice([1500, 3000, 6000]), rng.choice(["", ".gz"])) for _ in range(3)]:
            a_ = (["--buffer-size", str(buf)] if buf else []) + argv + ["{dir}/in.fastq" + cont]
            res, out = run_one(a_, {"in.fastq" + cont: compress(text, cont) if cont else text}, cores)
            ctx.evaluations += 1
            ctx.count("tie-runs")
            cell = dict(ties=True, adapters=ads, cores=cores, buffer_size=buf, input_container=cont or "plain", reads=len(recs))
            if res.status != 0:
                ctx.failures.append(Failure("C19/run-failed", "cutadapt failed on a valid combination", cell, res.stderr[-300:], 0))
                continue
            got = [(a, b) for a, b, _ in clirun.parse_fastx(out.get("o.fastq", ""))]
            if ref is None:
                ref = got
            elif got != ref:
                bad = [(x, y) for x, y in zip(got, ref) if x != y][:3]
                ctx.failures.append(Failure("C19/records-differ", "the records (here: the name of the adapter found, for reads on which adapters tie) depend on the number of "
                                            "cores / the chunking", cell, [x for x, y in bad] or len(got), [y for x, y in bad] or len(ref)))
    # standard output: `--fasta` forces FASTA, otherwise the input format; single-end and interleaved, one core and two
    import os
    import subprocess
    import sys
    import tempfile
    bdir = [p_ for p_ in sys.path if os.path.isdir(os.path.join(p_, "cutadapt")) and "cutadapt-verif" in p_][0]
    with tempfile.TemporaryDirectory(dir="/var/tmp") as d:
        r1, r2 = pipe.gen_reads(rng, 4, [], [], True)
        open(os.path.join(d, "s.fastq"), "w").write(clirun.fastq(r1))
        open(os.path.join(d, "i.fastq"), "w").write(clirun.fastq([r for p_ in zip(r1, r2) for r in p_]))
        open(os.path.join(d, "s.fasta"), "w").write(clirun.fasta(r1))
        for layout, inp in (("single", "s.fastq"), ("interleaved", "i.fastq"), ("single", "s.fasta")):
            for ff in (False, True):
                for cores in (1, 2):
                    argv = [sys.executable, "-m", "cutadapt", "-j", str(cores)] + (["--interleaved"] if layout == "interleaved" else []) + \
                           (["--fasta"] if ff else []) + [os.path.join(d, inp)]
                    r = subprocess.run(argv, capture_output=True, text=True, env=dict(os.environ, PYTHONPATH=bdir), timeout=120)
                    ctx.evaluations += 1
                    cell = dict(stdout=True, layout=layout, input=inp, fasta_flag=ff, cores=cores)
                    if r.returncode != 0:
                        ctx.failures.append(Failure("C19/run-failed", "cutadapt failed writing to standard output", cell, r.stderr[-200:], 0))
                        continue
                    gotf = fmt_of(r.stdout)
                    expf = "fasta" if (ff or inp.endswith(".fasta")) else "fastq"
                    corr.append((f"outfmt - {int(ff)} {int(inp.endswith('.fastq'))} {int(cores > 1)}", gotf))
                    if gotf != expf:
                        ctx.failures.append(Failure("C19/stdout-format", "--fasta (or the input format) does not determine the format on standard output",
                                                    cell, gotf, expf))
                    ctx.count("stdout-cases")
    correspond(ctx, "outfmt", corr)


def extended_search(ctx):
    old = ctx.tier
    ctx.tier = "thorough"
    run(ctx)
    ctx.tier = old


def replay(ctx, rp):
    print("re-run the check; failing matrix cell:", (rp.get("failure") or {}).get("input"))
    return 2
