"""C15 — demultiplexing puts every read into the file of its adapter.
Correspondence: pipeline level (focus demux). Oracle: expected file per read from the name of its last R1 (and R2) match; set of created files;
multiset equality with the same command without demultiplexing."""
import json

import pipe
import pipeprop
from pipeprop import rid, case_input
from core import Failure

LEVEL = "proof"
FOCUS = ("demux", "adapters", "nolinked")


def gen_demux_case(ctx):
    rng = ctx.rng
    paired = rng.random() < 0.5
    comb = paired and rng.random() < 0.5
    names = ["a0", "a1", "a2"][: rng.randint(1, 3)]
    if rng.random() < 0.15 and len(names) > 1:
        names[1] = names[0]          # duplicate adapter name
    seqs = ["AAAGGGCCC", "TTTGGGAAC", "GATTACAGA"]
    argv = ["--no-index"] if rng.random() < 0.7 else []
    # the same sequence under two names (a re-run of a sample, a barcode shared by two projects): every *name* still gets its file
    same = len(names) > 1 and rng.random() < 0.2
    seqs1 = [seqs[0] if (same and i == 1) else seqs[i] for i in range(3)]
    fl = rng.choice(["-a", "-g"])
    # paired {name} runs with adapters for R2 only: the file is named after the last match *on R1* - there is none, so every pair is 'unknown'
    r2_only = paired and not comb and rng.random() < 0.15
    if r2_only:
        names = []
    for i, n in enumerate(names):
        argv += [fl if same else rng.choice(["-a", "-g"]), f"{n}={seqs1[i]}"]
    names2 = []
    if paired and (comb or r2_only or rng.random() < 0.5):
        names2 = ["b0", "b1"][: rng.randint(1, 2)]
        same2 = len(names2) > 1 and rng.random() < 0.2
        fl2 = rng.choice(["-A", "-G"])
        for i, n in enumerate(names2):
            argv += [fl2 if same2 else rng.choice(["-A", "-G"]), f"{n}={seqs[2] if same2 else seqs[2 - i]}"]
    x = rng.random()
    if x < 0.3:
        argv.append("--discard-untrimmed")
    elif x < 0.5 and not comb:
        argv += ["--untrimmed-output", "{dir}/ut1.fastq"]
        # paired data read from one interleaved file may name a single untrimmed file (it then receives both mates)
        lone_ut = paired and rng.random() < 0.3
        if paired and not lone_ut:
            argv += ["--untrimmed-paired-output", "{dir}/ut2.fastq"]
        if lone_ut:
            argv = ["--interleaved"] + argv
    if rng.random() < 0.3:
        argv += ["-m", str(rng.randint(5, 15))]
    rc = comb and rng.random() < 0.4
    if rc:
        argv.append("--revcomp")
    multi = not comb and rng.random() < 0.4
    if multi:
        argv += ["--times", str(rng.randint(2, 3))]
    # some runs with worker processes and compressed outputs: every file must exist there too (an empty .gz is still a file)
    mc = rng.random() < 0.25
    ext = "fastq" + (rng.choice([".gz", ".gz", ".bz2", ".xz"]) if mc or rng.random() < 0.1 else "")
    if ext != "fastq":
        argv = [t.replace("ut1.fastq", "ut1." + ext).replace("ut2.fastq", "ut2." + ext) for t in argv]
    if comb:
        argv += ["-o", "{dir}/dm-{name1}-{name2}.1." + ext, "-p", "{dir}/dm-{name1}-{name2}.2." + ext]
    else:
        argv += ["-o", "{dir}/dm-{name}.1." + ext]
        if paired:
            argv += ["-p", "{dir}/dm-{name}.2." + ext]
    r1, r2 = pipe.gen_reads(rng, rng.randint(3, 9), seqs[: len(names)], [seqs[2 - i] for i in range(len(names2))] or seqs[:1], paired)
    if multi and len(names) > 1:
        # reads in which two different adapters are removed in successive rounds (the LAST match names the file)
        extra = []
        for i, (nm, s_, q_) in enumerate(r1):
            if rng.random() < 0.6:
                a, b = rng.sample(range(len(names)), 2)
                s2 = seqs[a] + pipe.rs(rng, rng.randint(4, 10)) + seqs[b] + pipe.rs(rng, rng.randint(0, 4))
                extra.append((nm, s2, "I" * len(s2)))
            else:
                extra.append((nm, s_, q_))
        r1 = extra
    if rc:
        # paired --revcomp: pairs given "the other way round" (R1's adapters in R2 and vice versa) are swapped by the adapter stage
        sw = [rng.random() < 0.5 for _ in r1]
        r1, r2 = ([(a[0], b[1], b[2]) if w else a for a, b, w in zip(r1, r2, sw)],
                  [(b[0], a[1], a[2]) if w else b for a, b, w in zip(r1, r2, sw)])
    case = dict(argv=argv, paired=paired, reads1=r1, reads2=r2, with_qual=True, interleaved_in="--interleaved" in argv, demux_case=True,
                names=names, names2=names2, comb=comb, ext=ext)
    if mc:
        case["cores"] = rng.choice([2, 3])
        case["buffer_size"] = 400
    return case


def plain_variant(case):
    argv = []
    skip = 0
    for i, t in enumerate(case["argv"]):
        if skip:
            skip -= 1
            continue
        if t == "-o":
            argv += ["-o", "{dir}/o1.fastq"]
            skip = 1
        elif t == "-p":
            argv += ["-p", "{dir}/o2.fastq"]
            skip = 1
        else:
            argv.append(t)
    c = dict(case)
    c["argv"] = argv
    return c


def oracle(ctx, case, res, real):
    argv = case["argv"]
    if "error" in real:
        if real["error"] != "cmdline":
            pipeprop.crash_failures(ctx, "C15", case, real)
        return
    if not case.get("demux_case"):
        return
    inp = case_input(case)
    if case.get("cores"):
        inp = dict(inp, cores=case["cores"], buffer_size=case.get("buffer_size"))
    names, names2, comb = case["names"], case["names2"], case["comb"]
    ext = case.get("ext", "fastq")
    discard = "--discard-untrimmed" in argv
    ut = "--untrimmed-output" in argv
    # files that must exist
    exp_files = set()
    if comb:
        keys = [(a, b) for a in names for b in names2]
        if not discard:
            keys += [(None, None)] + [(None, b) for b in names2] + [(a, None) for a in names]
        for a, b in keys:
            for k in ("1", "2"):
                exp_files.add(f"dm-{a or 'unknown'}-{b or 'unknown'}.{k}.{ext}")
    else:
        for a in names:
            exp_files.add(f"dm-{a}.1.{ext}")
            if case["paired"]:
                exp_files.add(f"dm-{a}.2.{ext}")
        if not discard:
            if ut:
                exp_files.add("ut1." + ext)
                if case["paired"] and "--untrimmed-paired-output" in argv:
                    exp_files.add("ut2." + ext)
                elif case["paired"]:
                    # only --untrimmed-output given (interleaved input): it is R1's untrimmed file; R2 of such pairs goes to its 'unknown' file
                    exp_files.add("dm-unknown.2." + ext)
            else:
                exp_files.add("dm-unknown.1." + ext)
                if case["paired"]:
                    exp_files.add("dm-unknown.2." + ext)
    got_files = set(real["files"])
    if got_files != exp_files:
        ctx.failures.append(Failure("C15/files-created", "the set of created files differs from one per adapter name (combination) plus unknown/untrimmed",
                                    inp, sorted(got_files), sorted(exp_files)))
    # routing: the plain run with --info-file-free reference: use the same command without demultiplexing and --rename to learn the last adapter name
    pc = plain_variant(case)
    # the reference run learns the last-match names of every read that passes the filters: same command without demultiplexing and
    # without the trimmed/untrimmed options (which would decide by their own pair-filter rule)
    a2, skip = [], 0
    for t in pc["argv"]:
        if skip:
            skip -= 1
        elif t == "--discard-untrimmed":
            pass
        elif t in ("--untrimmed-output", "--untrimmed-paired-output"):
            skip = 1
        else:
            a2.append(t)
    pc["argv"] = a2
    tmpl = "{id} {adapter_name}" if not case["paired"] else "{id} {r1.adapter_name} {r2.adapter_name}"
    cut = 4 if case["paired"] else 2          # insert before the trailing `-o X [-p Y]`
    pc["argv"] = pc["argv"][:-cut] + ["--rename", tmpl] + pc["argv"][-cut:]
    resp, realp = pipe.run_real(pc)
    if "error" in realp:
        return
    where = {}
    for fn, recs in real["files"].items():
        for r in recs:
            where.setdefault(rid(r[0]), []).append(fn)
    for fn, recs in realp["files"].items():
        if not fn.startswith("o1"):
            continue
        for r in recs:
            parts = r[0].split(" ")
            k, an = parts[0], parts[1]
            an2 = parts[2] if case["paired"] else None
            if comb:
                if discard and (an == "no_adapter" or an2 == "no_adapter"):
                    exp = []
                else:
                    key = f"dm-{an if an != 'no_adapter' else 'unknown'}-{an2 if an2 != 'no_adapter' else 'unknown'}"
                    exp = [key + ".1." + ext, key + ".2." + ext]
            else:
                sides = ("1", "2") if case["paired"] else ("1",)
                if an == "no_adapter":
                    lone = ut and case["paired"] and "--untrimmed-paired-output" not in argv
                    exp = [] if discard else [f"ut1.{ext}", f"dm-unknown.2.{ext}"] if lone else [f"ut{x}.{ext}" for x in sides] if ut else [f"dm-unknown.{x}.{ext}" for x in sides]
                else:
                    exp = [f"dm-{an}.{x}.{ext}" for x in sides]
            if sorted(where.get(k, [])) != sorted(exp):
                ctx.failures.append(Failure("C15/wrong-file", "read (pair) is not in the file named after the adapter of its last match on R1 "
                                            "(the pair of last-match names with {name1}/{name2})", inp, dict(read=k, files=where.get(k, [])), exp))
            ctx.nontriv(("routed", k, an, an2, tuple(argv)))
    # {name1}/{name2}: a mate filed under `unknown` was not trimmed, a mate filed under an adapter name was (checked against the input
    # mate it stems from: with paired --revcomp the mates of a pair flagged ` rc` are swapped) - independent of the renaming reference run
    if comb and "--times" not in argv and "--action" not in argv:
        src = {rid(a[0]): (a, b) for a, b in zip(case["reads1"], case["reads2"])}
        for fn, recs in real["files"].items():
            if not fn.startswith("dm-"):
                continue
            stem, side = fn[: -len(ext) - 1].rsplit(".", 1)
            n1, n2 = stem[len("dm-"):].split("-", 1)
            for r in recs:
                swapped = r[0].endswith(" rc")
                a, b = src[rid(r[0])]
                source = (b if swapped else a) if side == "1" else (a if swapped else b)
                named = n1 if side == "1" else n2
                trimmed = r[1] != source[1]
                if trimmed != (named != "unknown"):
                    ctx.failures.append(Failure("C15/wrong-file", "a mate filed under an adapter name was not trimmed, or a trimmed mate is filed under 'unknown' "
                                                "({name1}/{name2} must be the last-match names of R1 and R2)", inp,
                                                dict(file=fn, record=r, trimmed=trimmed), None))
                ctx.count("comb-name-vs-trimmed")
    # multiset equality with the plain output when no trimmed/untrimmed option is used
    if not discard and not ut:
        for side in ("1", "2") if case["paired"] else ("1",):
            dm = sorted(json.dumps(r) for fn, recs in real["files"].items() if fn.endswith(f".{side}.{ext}") for r in recs)
            plain = sorted(json.dumps(r) for fn, recs in pipe.run_real(plain_variant(case))[1]["files"].items() if fn.startswith(f"o{side}") for r in recs)
            if dm != plain:
                ctx.failures.append(Failure("C15/not-a-partition", "records over all demultiplexed files differ (as a multiset) from the output without demultiplexing",
                                            inp, dm[:5], plain[:5]))
            ctx.count("partition-checked")


def pair_adapters_demux(ctx):
    """--pair-adapters with {name}: the file is named after the R1 adapter of the pair of adapters that was applied - also when one adapter sequence
    occurs in several pairs under different names (non-unique dual indices). Expectation by construction (exact copies)."""
    rng = ctx.rng
    for _ in range(ctx.scale(10, 120)):
        S = [pipe.rs(rng, 12) for _ in range(2)]
        T = [pipe.rs(rng, 12) for _ in range(3)]
        # R1: a0=S0, a1=S0 (the same sequence again), a2=S1;  R2: b0=T0, b1=T1, b2=T2
        r1ads, r2ads = [("a0", S[0]), ("a1", S[0]), ("a2", S[1])], [("b0", T[0]), ("b1", T[1]), ("b2", T[2])]
        order = list(range(3))
        rng.shuffle(order)
        r1ads, r2ads = [r1ads[i] for i in order], [r2ads[i] for i in order]
        # (-O 8: a chance overlap of a few bases at the end of a read is not an occurrence here)
        argv = ["--no-index", "-O", "8"] + [t for n_, s_ in r1ads for t in ("-a", f"{n_}={s_}")] + [t for n_, s_ in r2ads for t in ("-A", f"{n_}={s_}")] + ["--pair-adapters"]
        discard = rng.random() < 0.3
        if discard:
            argv.append("--discard-untrimmed")
        argv += ["-o", "{dir}/dm-{name}.1.fastq", "-p", "{dir}/dm-{name}.2.fastq"]
        r1, r2, expect = [], [], {}
        for i in range(rng.randint(8, 14)):
            b1, b2 = pipe.rs(rng, rng.randint(10, 20), "AC"), pipe.rs(rng, rng.randint(10, 20), "AC")
            k = rng.random()
            if k < 0.7:
                j = rng.randrange(3)
                s1, s2, name = b1 + r1ads[j][1], b2 + r2ads[j][1], r1ads[j][0]
            elif k < 0.85:
                # an R1 adapter with the R2 adapter of a pair it does not belong to (and that shares no sequence with its own partner)
                j = rng.randrange(3)
                others = [x for x in range(3) if r1ads[x][1] != r1ads[j][1]]
                x = rng.choice(others)
                s1, s2, name = b1 + r1ads[j][1], b2 + r2ads[x][1], None
            else:
                s1, s2, name = b1, b2, None
            r1.append((f"r{i}", s1, "I" * len(s1)))
            r2.append((f"r{i}", s2, "5" * len(s2)))
            expect[f"r{i}"] = name
        case = dict(argv=argv, paired=True, reads1=r1, reads2=r2, with_qual=True, interleaved_in=False)
        if rng.random() < 0.3:
            case["cores"], case["buffer_size"] = 2, 600
        res, real = pipe.run_real(case)
        ctx.evaluations += 1
        ctx.count("pair-adapters-demux")
        inp = dict(case_input(case), cores=case.get("cores"))
        if "error" in real:
            ctx.failures.append(Failure("C15/run-failed", "--pair-adapters with {name} fails on a valid command line", inp, real["error"], None))
            continue
        where = {}
        for fn, recs in real["files"].items():
            for r in recs:
                where.setdefault(rid(r[0]), set()).add(fn.rsplit(".", 2)[0])
        for k_, name in expect.items():
            exp = {f"dm-{name}"} if name else (set() if discard else {"dm-unknown"})
            if where.get(k_, set()) != exp:
                ctx.failures.append(Failure("C15/wrong-file", "with --pair-adapters a pair is not in the file named after the R1 adapter of the adapter pair that was applied",
                                            inp, dict(read=k_, files=sorted(where.get(k_, set()))), sorted(exp)))
                break
        else:
            ctx.nontriv(("pair-adapters-demux", tuple(argv)))


def mixed_anchored_demux(ctx):
    """the usual way to demultiplex - anchored barcodes, default mode (adapter index) - with a mixed set: several anchored adapters of one kind and
    a single one of the other kind. With -e 0 and exact copies the file of a read that carries exactly one of the adapters is known by construction."""
    rng = ctx.rng
    for _ in range(ctx.scale(10, 120)):
        front_many = rng.random() < 0.5
        many = [pipe.rs(rng, rng.randint(8, 10)) for _ in range(rng.randint(2, 4))]
        lone = pipe.rs(rng, rng.randint(8, 10))
        specs = [("-g", f"m{i}=^{a}") if front_many else ("-a", f"m{i}={a}$") for i, a in enumerate(many)]
        specs.append(("-a", f"lone={lone}$") if front_many else ("-g", f"lone=^{lone}"))
        rng.shuffle(specs)
        mode = rng.choice(["plain", "discard", "untrimmed"])
        argv = ["-e", "0"] + [t for fs in specs for t in fs]
        if mode == "discard":
            argv.append("--discard-untrimmed")
        elif mode == "untrimmed":
            argv += ["--untrimmed-output", "{dir}/ut1.fastq"]
        argv += ["-o", "{dir}/dm-{name}.1.fastq"]
        reads, expect = [], {}
        for i in range(rng.randint(10, 16)):
            body = pipe.rs(rng, rng.randint(12, 20), "AC")
            k = rng.random()
            if k < 0.45:
                j = rng.randrange(len(many))
                s_, name = (many[j] + body if front_many else body + many[j]), f"m{j}"
            elif k < 0.85:
                s_, name = (body + lone if front_many else lone + body), "lone"
            else:
                s_, name = body, None
            reads.append((f"r{i}", s_, "I" * len(s_)))
            expect[f"r{i}"] = name
        case = dict(argv=argv, paired=False, reads1=reads, reads2=None, with_qual=True, interleaved_in=False)
        if rng.random() < 0.3:
            case["cores"], case["buffer_size"] = 2, 500
        res, real = pipe.run_real(case)
        ctx.evaluations += 1
        ctx.count("mixed-anchored-demux")
        inp = dict(case_input(case), cores=case.get("cores"))
        if "error" in real:
            ctx.failures.append(Failure("C15/run-failed", "demultiplexing by anchored adapters fails on a valid command line", inp, real["error"], None))
            continue
        where = {}
        for fn, recs in real["files"].items():
            for r in recs:
                where.setdefault(rid(r[0]), set()).add(fn.rsplit(".", 2)[0] if fn.startswith("dm-") else fn.split(".")[0])
        for k_, name in expect.items():
            exp = {f"dm-{name}"} if name else (set() if mode == "discard" else {"ut1"} if mode == "untrimmed" else {"dm-unknown"})
            if where.get(k_, set()) != exp:
                ctx.failures.append(Failure("C15/wrong-file", "a read that carries exactly one of the anchored adapters (exact copy, -e 0) is not in the file named after it",
                                            inp, dict(read=k_, files=sorted(where.get(k_, set()))), sorted(exp)))
                break
        else:
            ctx.nontriv(("mixed-anchored-demux", tuple(argv)))


def repeated_placeholder_demux(ctx):
    """an output template may name the adapter more than once (one directory or prefix per sample: `{name}/{name}.fastq`): every occurrence of
    `{name}` / `{name1}` / `{name2}` is replaced. Exact copies, -e 0: the file of every read is known by construction, as is its name."""
    rng = ctx.rng
    for _ in range(ctx.scale(8, 100)):
        comb = rng.random() < 0.4
        # bodies are made of A and C only, every adapter starts with G/T: no chance occurrence, whole or partial
        ads = [rng.choice("GT") + pipe.rs(rng, rng.randint(9, 11), "ACGT") for _ in range(rng.randint(2, 3))]
        ads2 = [rng.choice("GT") + pipe.rs(rng, rng.randint(9, 11), "ACGT") for _ in range(2)]
        if len(set(ads)) < len(ads) or len(set(ads2)) < 2:
            continue
        argv = ["--no-index", "-e", "0", "-O", "9"] + [t for i, a in enumerate(ads) for t in ("-a", f"s{i}={a}")]
        discard = rng.random() < 0.4
        if discard:
            argv.append("--discard-untrimmed")
        reads1, reads2, expect = [], [], {}
        for i in range(rng.randint(8, 14)):
            j = rng.choice([None] + list(range(len(ads))))
            body = pipe.rs(rng, rng.randint(12, 20), "AC")
            s1 = body + (ads[j] if j is not None else "")
            reads1.append((f"r{i}", s1, "I" * len(s1)))
            if comb:
                j2 = rng.choice([None, 0, 1])
                s2 = pipe.rs(rng, rng.randint(12, 20), "AC") + (ads2[j2] if j2 is not None else "")
                reads2.append((f"r{i}", s2, "I" * len(s2)))
                n1, n2 = ("unknown" if j is None else f"s{j}"), ("unknown" if j2 is None else f"t{j2}")
                expect[f"r{i}"] = None if discard and (j is None or j2 is None) else f"dm-{n1}-{n2}-x-{n1}-{n2}"
            else:
                expect[f"r{i}"] = (None if discard else "dm-unknown-x-unknown") if j is None else f"dm-s{j}-x-s{j}"
        if comb:
            argv += [t for i, a in enumerate(ads2) for t in ("-A", f"t{i}={a}")]
            argv += ["-o", "{dir}/dm-{name1}-{name2}-x-{name1}-{name2}.1.fastq", "-p", "{dir}/dm-{name1}-{name2}-x-{name1}-{name2}.2.fastq"]
        else:
            argv += ["-o", "{dir}/dm-{name}-x-{name}.1.fastq"]
        case = dict(argv=argv, paired=comb, reads1=reads1, reads2=reads2 if comb else None, with_qual=True, interleaved_in=False)
        res, real = pipe.run_real(case)
        ctx.evaluations += 1
        ctx.count("repeated-placeholder-demux" + ("-comb" if comb else ""))
        inp = case_input(case)
        if "error" in real:
            ctx.failures.append(Failure("C15/run-failed", "demultiplexing with a template that names the adapter twice fails", inp, real["error"], None))
            continue
        braces = sorted(fn for fn in real["files"] if "{" in fn)
        if braces:
            ctx.failures.append(Failure("C15/placeholder-left-in-file-name", "an output file still has a placeholder in its name", inp, braces, None))
            continue
        where = {}
        for fn, recs in real["files"].items():
            for r in recs:
                where.setdefault(rid(r[0]), set()).add(fn.rsplit(".", 2)[0])
        for k_, name in expect.items():
            exp = {name} if name else set()
            if where.get(k_, set()) != exp:
                ctx.failures.append(Failure("C15/wrong-file", "a read is not in the file that the template names after its adapter (every `{name}` replaced)",
                                            inp, dict(read=k_, files=sorted(where.get(k_, set()))), sorted(exp)))
                break
        else:
            ctx.nontriv(("repeated-placeholder-demux", tuple(argv)))


def run(ctx):
    repeated_placeholder_demux(ctx)
    pair_adapters_demux(ctx)
    mixed_anchored_demux(ctx)
    pipeprop.run(ctx, "C15", FOCUS, oracle, 120, 2500,
                 "random command lines with focus on demultiplexing plus directed cases: named adapters (incl. duplicate names) on R1 (and R2), single/paired/"
                 "combinatorial, with and without --discard-untrimmed/--untrimmed-output; non-trivial = distinct read whose file was checked",
                 nontrivial=lambda c, r: False)
    cases = [gen_demux_case(ctx) for _ in range(ctx.scale(120, 2500))]
    for case, res, real, model in pipe.run_cases(ctx, cases):
        ctx.count("directed" + ("-comb" if case["comb"] else "-paired" if case["paired"] else "-single"))
        oracle(ctx, case, res, real)
    # demultiplexing through the adapter index (anchored barcodes, the usual way to demultiplex)
    def extras(rng):
        e = []
        x = rng.random()
        if x < 0.3:
            e.append("--discard-untrimmed")
        elif x < 0.5:
            e += ["--untrimmed-output", "{dir}/ut1.fastq"]
        if rng.random() < 0.25:
            e += ["--times", "2"]
        return e + ["-o", "{dir}/dm-{name}.1.fastq"]
    pipeprop.indexed_sweep(ctx, oracle, 60, 1500, extras,
                           prep=lambda c: c.update(demux_case=True, names=c["adapter_names"], names2=[], comb=False))


def extended_search(ctx):
    cases = [gen_demux_case(ctx) for _ in range(2000)]
    for case, res, real, model in pipe.run_cases(ctx, cases):
        oracle(ctx, case, res, real)


def replay(ctx, rp):
    print("re-run the check (demultiplexing cases carry generator metadata);", (rp.get("failure") or {}).get("input", {}).get("argv"))
    return 2
