"""C01 — every reported match is a genuine, in-tolerance occurrence.
Correspondence: `locate` (all 16 flag sets), `cmpprefix/cmpsuffix`, `matchto` (8 adapter classes, prefilter replaced by the
always-true finder). Oracle: oracle_align.check_match on every reported match."""
import itertools

import gens
import oracle_align as OA
from core import Failure, correspond, hx, bits

LEVEL = "proof"
FLAGSETS = [14, 11, 8, 2, 9, 6, 15, 0, 1, 4, 3, 5, 7, 10, 12, 13]


def locate_cases(ctx, n):
    from cutadapt._align import Aligner, PrefixComparer, SuffixComparer
    rng = ctx.rng
    cases, cmp_p, cmp_s = [], [], []
    for _ in range(n):
        flags = rng.choice(FLAGSETS[:7] * 3 + FLAGSETS)
        wr = rng.random() < 0.4
        wq = rng.random() < 0.25
        ic = rng.choice([1, 1, 1, 100000])
        ref = gens.gen_adapter_seq(rng)
        if not wr:
            ref = gens.concretize(rng, ref)
        if wr and ref.upper().count("N") == len(ref):
            continue
        rate = rng.choice(gens.RATES)
        mo = rng.randint(1, len(ref))
        q = gens.gen_read(rng, ref)
        a = Aligner(ref, rate, flags=flags, wildcard_ref=wr, wildcard_query=wq, indel_cost=ic, min_overlap=mo)
        res = a.locate(q)
        cases.append((f"locate {flags} {int(wr)} {int(wq)} {ic} {mo} {bits(rate)} {hx(ref)} {hx(q)}", str(res)))
        if res is not None:
            ctx.count("locate:match")
            if res[5] > 0:
                ctx.nontriv(("L", flags, wr, wq, ic, mo, rate, ref, q))
        if rng.random() < 0.3:
            pc = PrefixComparer(ref, rate, wildcard_ref=wr, wildcard_query=wq, min_overlap=mo)
            cmp_p.append((f"cmpprefix {int(wr)} {int(wq)} {mo} {bits(rate)} {hx(ref)} {hx(q)}", str(pc.locate(q))))
            sc = SuffixComparer(ref, rate, wildcard_ref=wr, wildcard_query=wq, min_overlap=mo)
            cmp_s.append((f"cmpsuffix {int(wr)} {int(wq)} {mo} {bits(rate)} {hx(ref)} {hx(q)}", str(sc.locate(q))))
    ctx.sample(dict(op_line=cases[0][0], impl=cases[0][1]))
    correspond(ctx, "locate", cases)
    correspond(ctx, "cmpprefix", cmp_p)
    correspond(ctx, "cmpsuffix", cmp_s)


def one_match_case(ctx, cfg, a, read, cases):
    mt = a.match_to(read)
    cases.append((gens.matchto_line(cfg, read), gens.show_match(mt)))
    if mt is None:
        return
    ctx.count("match:" + cfg["ty"])
    import cutadapt.adapters as A
    probs = OA.check_match(cfg["ty"], a, read, mt, isinstance(mt, A.RemoveBeforeMatch), OA.doc_min_overlap(cfg, len(a.sequence)))
    aligned = a.sequence[mt.astart:mt.astop]
    if mt.errors > 0 or (a.adapter_wildcards and "N" in aligned):
        ctx.nontriv(("M", cfg["ty"], a.sequence, cfg["max_errors"], a.min_overlap, a.read_wildcards, a.adapter_wildcards, a.indels, read))
    if mt.errors > 0:
        ctx.count("match-with-errors")
    if mt.rstop == len(read) and mt.astop < len(a.sequence):
        ctx.count("match-partial-at-read-end")
    for p in probs:
        ctx.failures.append(Failure("C01/" + p.split()[0], f"reported match violates C01: {p}",
                                    dict(cfg=cfg, read=read), gens.show_match(mt), None))


def match_cases(ctx, n):
    rng = ctx.rng
    cases = []
    done = 0
    while done < n:
        cfg = gens.gen_adapter_cfg(rng)
        a, err = gens.make_adapter(cfg)
        if a is None:
            cases.append((gens.matchto_line(cfg, ""), err))
            ctx.count("ctor-" + err)
            done += 1
            continue
        for _ in range(8):
            read = gens.gen_read(rng, a.sequence)
            one_match_case(ctx, cfg, a, read, cases)
            done += 1
    for c in cases[:4]:
        ctx.sample(dict(op_line=c[0], impl=c[1]))
    correspond(ctx, "matchto", cases)


def index_cases(ctx, n):
    """matches reported through the adapter index (several anchored adapters, cutadapt's default mode): the same clauses, per reported
    match, against the adapter the match names (the index itself is modelled and proved sound in C08; here only the oracle runs)"""
    import cutadapt.adapters as A
    rng = ctx.rng
    done = 0
    while done < n:
        prefix = rng.random() < 0.5
        ty = "prefix" if prefix else "suffix"
        k = rng.randint(2, 5)
        equal = rng.random() < 0.5
        L0 = rng.randint(5, 12)
        ads, cfgs = [], []
        for _ in range(k):
            seq = "".join(rng.choice("ACGT") for _ in range(L0 if equal else rng.randint(5, 14)))
            if cfgs and rng.random() < 0.3:
                t = list(rng.choice(cfgs)["seq"])
                t[rng.randrange(len(t))] = rng.choice("ACGT")
                seq = "".join(t)
            cfg = dict(ty=ty, seq=seq, max_errors=rng.choice([0, 0.1, 0.2, 0.25, 1, 2]), min_overlap=3, read_wildcards=False, adapter_wildcards=False,
                       indels=rng.random() < 0.7, force_anywhere=False)
            a, err = gens.make_adapter(cfg, mock_kmer=False)
            if a is not None and cfg["seq"] not in [c["seq"] for c in cfgs]:
                ads.append(a)
                cfgs.append(cfg)
        if len(ads) < 2:
            continue
        import logging
        logging.disable(logging.CRITICAL)
        try:
            idx = (A.IndexedPrefixAdapters if prefix else A.IndexedSuffixAdapters)(ads)
        except Exception:
            idx = None
        finally:
            logging.disable(logging.NOTSET)
        if idx is None:
            ctx.count("index:not-indexable")
            done += 1
            continue
        asked = []
        for qi in range(18):
            if qi >= 12:
                # ask again for reads seen before: the answer of an index must not depend on what it was asked earlier
                if not asked:
                    break
                core = rng.choice(asked)
                mt = idx.match_to(core)
                done += 1
                ctx.evaluations += 1
                ctx.count("index:asked-again")
                if mt is not None:
                    for p in OA.check_match(ty, mt.adapter, core, mt, isinstance(mt, A.RemoveBeforeMatch), len(mt.adapter.sequence)):
                        ctx.failures.append(Failure("C01/" + p.split()[0], f"match reported through the adapter index (second look-up of the same read) "
                                                    f"violates C01: {p}", dict(index_of=cfgs, read=core, asked_before=asked), gens.show_match(mt), None))
                continue
            a = rng.choice(ads)
            core = gens.gen_read(rng, a.sequence)
            x = rng.random()
            if x < 0.5:      # the adapter copy at the anchored end, maybe nothing else (read shorter than the other adapters)
                t = list(a.sequence)
                for _e in range(rng.choice([0, 0, 1, 2])):
                    j = rng.randrange(len(t))
                    y = rng.random()
                    if y < 0.5:
                        t[j] = rng.choice("ACGTN")
                    elif y < 0.75:
                        del t[j]
                    else:
                        t.insert(j, rng.choice("ACGT"))
                    if not t:
                        t = ["A"]
                rest = "".join(rng.choice("ACGT") for _ in range(rng.choice([0, 0, 1, 3, 10])))
                core = "".join(t) + rest if prefix else rest + "".join(t)
            asked.append(core)
            mt = idx.match_to(core)
            done += 1
            ctx.evaluations += 1
            if mt is None:
                continue
            ctx.count("index:match")
            cfg = cfgs[ads.index(mt.adapter)] if mt.adapter in ads else None
            if cfg is None:
                ctx.failures.append(Failure("C01/bounds", "the index reports a match of an adapter that is not in the index", dict(cfgs=cfgs, read=core),
                                            gens.show_match(mt), None))
                continue
            for p in OA.check_match(ty, mt.adapter, core, mt, isinstance(mt, A.RemoveBeforeMatch), len(mt.adapter.sequence)):
                ctx.failures.append(Failure("C01/" + p.split()[0], f"match reported through the adapter index violates C01: {p}",
                                            dict(index_of=cfgs, cfg=cfg, read=core), gens.show_match(mt), None))
            if mt.errors > 0:
                ctx.nontriv(("I", ty, tuple(c["seq"] for c in cfgs), core))


def small_scope(ctx, max_adapter, max_read, rates, cap=None):
    """all adapters <= max_adapter over {A,C,N} x all reads <= max_read over {A,C,N,a} x types x rates x overlaps x switches"""
    cases = []
    cnt = 0
    for m in range(1, max_adapter + 1):
        for seq in itertools.product("ACN", repeat=m):
            seq = "".join(seq)
            if seq.count("N") == m:
                continue
            for ty in gens.TYPES:
                for rate in rates:
                    for indels in (True, False):
                        for mo in (1, min(2, m)):
                            cfg = dict(ty=ty, seq=seq, max_errors=rate, min_overlap=mo, read_wildcards=False,
                                       adapter_wildcards=True, indels=indels, force_anywhere=False)
                            a, err = gens.make_adapter(cfg)
                            if a is None:
                                continue
                            for n in range(0, max_read + 1):
                                for read in itertools.product("ACNa", repeat=n):
                                    one_match_case(ctx, cfg, a, "".join(read), cases)
                                    cnt += 1
                            if cap and cnt > cap:
                                correspond(ctx, "matchto", cases)
                                return
    correspond(ctx, "matchto", cases)


def cli_tolerance_cases(ctx, n):
    """the tolerance and minimum-overlap clauses through the command line with several specifications, an earlier one (a `file:` specification too)
    carrying generous search parameters of its own: a later adapter is still searched with the *global* -e / -O - a copy with more mismatches than
    floor(rate * length), or a partial copy shorter than -O, must not be removed"""
    import clirun
    import pipe
    rng = ctx.rng
    for _ in range(n):
        ad = pipe.rs(rng, 12)
        other = pipe.rs(rng, 11)
        O = rng.choice([5, 6, 7])
        loose = rng.choice([";e=0.3;o=2", ";max_errors=0.34", ";min_overlap=1;e=0.25"])
        inputs = {}
        if rng.random() < 0.6:
            inputs["p.fa"] = f">p1\n{other}\n"
            spec1 = "file:{in:p.fa}" + loose
        else:
            spec1 = "first=" + other + loose
        reads = []
        for i in range(10):
            body = pipe.rs(rng, rng.randint(15, 25), "AC" if ad[0] in "GT" else "GT")
            if rng.random() < 0.5:
                cp = list(ad)
                for j in rng.sample(range(1, 11), rng.choice([2, 3])):
                    cp[j] = {"A": "C", "C": "G", "G": "T", "T": "A"}[cp[j]]
                s_ = body + "".join(cp) + pipe.rs(rng, 4, "AC" if ad[0] in "GT" else "GT")      # 2-3 mismatches in 12 bases at -e 0.1
            else:
                s_ = body + ad[: rng.randint(3, O - 1)]                                             # a partial copy shorter than -O
            reads.append((f"r{i}", s_))
        inputs["in.fasta"] = "".join(f">{n_}\n{s_}\n" for n_, s_ in reads)
        argv = ["-e", "0.1", "-O", str(O), "--no-indels", "-a", spec1, "-a", "second=" + ad, "--info-file", "{out:info.txt}", "-o", "{out:out.fasta}", "{in:in.fasta}"]
        res = clirun.run_cli(argv, inputs, want_json=False)
        ctx.evaluations += 1
        ctx.count("cli-tolerance-cases")
        shown = dict(argv=[t.replace("{in:p.fa}", "p.fa") for t in argv], adapter_file=inputs.get("p.fa"), reads=reads)
        if res.status != 0:
            ctx.failures.append(Failure("C01/cli-run-failed", "a valid command line with several adapter specifications fails", shown, res.stderr[-300:], 0))
            continue
        rows = [l.split("\t") for l in clirun.text_of(res.files.get("info.txt", b"")).splitlines()]
        by_name = dict(reads)
        for r in rows:
            if len(r) <= 7 or r[1] == "-1" or r[7] != "second":
                continue
            # judge the reported match of `second` by the *global* parameters (a chance overlap at the end of the read may be a genuine match)
            start, end = int(r[2]), int(r[3])
            rd = by_name[r[0].split()[0]]
            mid = rd[start:end]
            part = ad[: len(mid)] if end == len(rd) and len(mid) < len(ad) else ad
            mism = sum(1 for x, y in zip(mid, part) if x != y) if len(mid) == len(part) else 99
            if len(mid) < O or mism > int(0.1 * len(mid)) or mism == 99:
                ctx.failures.append(Failure("C01/errors", "a match of an adapter without parameters of its own is reported beyond the global tolerance / below the global "
                                            "minimum overlap", shown, r[:8], dict(aligned=len(mid), mismatches=mism, global_e=0.1, global_O=O)))
                break


def run(ctx):
    cli_tolerance_cases(ctx, ctx.scale(12, 150))
    ctx.rule = ("locate: random Aligner configurations (16 flag sets, both wildcard switches, indel cost 1/100000, rates incl. 1/3, 0.57, 0.9) "
                "with mutated adapter copies embedded at every offset incl. overhangs; matchto: the eight adapter classes with the always-true "
                "k-mer finder; non-trivial = distinct case with a reported match that has >= 1 error or an N wildcard in the aligned adapter part")
    locate_cases(ctx, ctx.scale(12000, 300000))
    match_cases(ctx, ctx.scale(16000, 300000))
    index_cases(ctx, ctx.scale(4000, 100000))
    if ctx.tier == "thorough":
        small_scope(ctx, 3, 5, [0.0, 0.34, 0.5])
        ctx.notes.append("small scope enumerated: adapters <= 3 over {A,C,N} x reads <= 5 over {A,C,N,a} x 8 types x 3 rates x indels x 2 overlaps")


def extended_search(ctx):
    match_cases(ctx, 150000)
    if not ctx.failures:
        small_scope(ctx, 3, 5, [0.0, 0.34, 0.5], cap=400000)


def replay(ctx, rp):
    fl = rp.get("failure") or {}
    inp = fl.get("input", {})
    if "cfg" not in inp:
        print("nothing to replay; re-run the check")
        return 2
    a, err = gens.make_adapter(inp["cfg"])
    mt = a.match_to(inp["read"])
    import cutadapt.adapters as A
    probs = OA.check_match(inp["cfg"]["ty"], a, inp["read"], mt, isinstance(mt, A.RemoveBeforeMatch)) if mt else []
    print("implementation:", gens.show_match(mt), "oracle problems:", probs)
    return 1 if probs else 0
