"""C11 — filters use the documented criteria, in order, one destination per read.
Correspondence: pipeline level (focus filters/redirect). Oracle: destination of each read recomputed from the documented criteria in
the documented order (command lines without read modification, thresholds at and around the reads' own values)."""
import pipe
import pipeprop
from pipeprop import rid, case_input
from core import Failure

LEVEL = "proof"
FOCUS = ("filters", "redirect", "maxaer")


def ee(q):
    return sum(10 ** (-(ord(c) - 33) / 10) for c in q)


def gen_filter_case(ctx):
    rng = ctx.rng
    nreads = rng.randint(3, 8)
    reads = []
    for i in range(nreads):
        ln = rng.choice([0, 1, 5, 10, 10, 12, 20, 30])
        s = pipe.rs(rng, ln, rng.choice(["ACGT", "ACGTN", "ACGNn"]))
        if rng.random() < 0.4:
            s = s + "GATTACAGA"
        q = "".join(chr(33 + rng.choice([2, 10, 20, 30, 40])) for _ in s)
        reads.append((f"r{i} 1:{rng.choice('YN')}:0:1", s, q))
    argv = ["--no-index"]
    r0 = rng.choice(reads)
    if rng.random() < 0.6:
        argv += ["-m", str(max(0, len(r0[1]) + rng.choice([-1, 0, 1]))) if rng.random() < 0.9 else "0"]
        if rng.random() < 0.6:
            argv += ["--too-short-output", "{dir}/ts1.fastq"]
    if rng.random() < 0.6:
        argv += ["-M", str(len(rng.choice(reads)[1]) + rng.choice([-1, 0, 1, 3])) if rng.random() < 0.9 else "0"]
        if rng.random() < 0.6:
            argv += ["--too-long-output", "{dir}/tl1.fastq"]
    if rng.random() < 0.5:
        r = rng.choice(reads)
        nn = r[1].lower().count("n")
        argv += ["--max-n", rng.choice([str(nn), str(max(0, nn - 1)), "0", repr(nn / len(r[1])) if r[1] else "0.5", "0.2", "0.5"])]
    if rng.random() < 0.5:
        r = rng.choice(reads)
        argv += ["--max-ee", rng.choice([repr(ee(r[2])), repr(ee(r[2]) * 0.999), "0.5", "1", "3", "0", "0.0"])]
    if rng.random() < 0.4:
        r = rng.choice(reads)
        v = ee(r[2]) / len(r[1]) if r[1] else 0.1
        v = min(max(v, 0.001), 0.999)
        argv += ["--max-aer", rng.choice([repr(v), "0.05", "0.2", "0.01"])]
    if rng.random() < 0.4:
        argv.append("--discard-casava")
    x = rng.random()
    if x < 0.6:
        argv += ["-a", "a0=GATTACAGA", "--action", "none"]
        y = rng.random()
        if y < 0.25:
            argv.append("--discard-trimmed")
        elif y < 0.5:
            argv.append("--discard-untrimmed")
        elif y < 0.75:
            argv += ["--untrimmed-output", "{dir}/ut1.fastq"]
    argv += ["-o", "{dir}/o1.fastq"]
    return dict(argv=argv, paired=False, reads1=reads, reads2=None, with_qual=True, interleaved_in=False)


def opt(argv, name, cast=str):
    return cast(argv[argv.index(name) + 1]) if name in argv else None


def oracle(ctx, case, res, real):
    argv = case["argv"]
    if "error" in real:
        if real["error"] != "cmdline":
            pipeprop.crash_failures(ctx, "C11", case, real)
        return
    if not case.get("filter_case"):
        return
    m, M = opt(argv, "-m", int), opt(argv, "-M", int)
    maxn, maxee, maxaer = opt(argv, "--max-n", float), opt(argv, "--max-ee", float), opt(argv, "--max-aer", float)
    expected = {}
    counts = {}
    # IEEE boundary: when a threshold coincides (to 1e-9) with a read's own expected-error value, the implementation's table-based sum and
    # this oracle's 10**(-Q/10) sum may fall on different sides; such cases are float artefacts (DESIGN.md section 5) and are skipped
    for name, s, q in case["reads1"]:
        e0 = ee(q)
        if (maxee is not None and abs(e0 - maxee) <= 1e-9 * max(1, e0)) or (maxaer is not None and len(s) and abs(e0 / len(s) - maxaer) <= 1e-9):
            ctx.count("float-boundary-skipped")
            return
    for name, s, q in case["reads1"]:
        trimmed = "-a" in argv and _has_adapter(s)
        nn = s.lower().count("n")
        e = ee(q)
        if m is not None and len(s) < m:
            dest = ("too_short", "ts1.fastq" if "--too-short-output" in argv else None)
        elif M is not None and len(s) > M:
            dest = ("too_long", "tl1.fastq" if "--too-long-output" in argv else None)
        elif maxn is not None and ((maxn < 1 and len(s) > 0 and nn / len(s) > maxn) or (maxn >= 1 and nn > maxn)):
            dest = ("too_many_n", None)
        elif maxee is not None and e > maxee:
            dest = ("too_many_expected_errors", None)
        elif maxaer is not None and len(s) > 0 and e / len(s) > maxaer:
            dest = ("too_high_average_error_rate", None)
        elif "--discard-casava" in argv and name.split(" ", 1)[1][1:4] == ":Y:":
            dest = ("casava_filtered", None)
        elif "--discard-trimmed" in argv and trimmed:
            dest = ("discard_trimmed", None)
        elif "--discard-untrimmed" in argv and not trimmed:
            dest = ("discard_untrimmed", None)
        elif "--untrimmed-output" in argv and not trimmed:
            dest = ("discard_untrimmed", "ut1.fastq")
        else:
            dest = (None, "o1.fastq")
        expected[rid(name)] = dest
        if dest[0]:
            counts[dest[0]] = counts.get(dest[0], 0) + 1
            ctx.nontriv(("filtered", name, s, q, tuple(argv)))
    # float boundary: a threshold numerically equal to the read's own value may round either way in the two computations
    actual = {}
    for fn, recs in real["files"].items():
        for r in recs:
            actual.setdefault(rid(r[0]), []).append(fn)
    for k, (cat, fn) in expected.items():
        got = actual.get(k, [])
        if got != ([fn] if fn else []):
            ctx.failures.append(Failure("C11/wrong-destination", "read is not at the destination of the first applicable filter (documented order and criteria)",
                                        case_input(case), dict(read=k, files=got), dict(category=cat, file=fn)))
    got_counts = {k: v for k, v in real["filtered"].items() if v}
    if got_counts != counts:
        ctx.failures.append(Failure("C11/wrong-category", "filter categories counted differ from the first-applicable rule", case_input(case), got_counts, counts))


def _has_adapter(s):
    import cutadapt.adapters as A
    global _AD
    try:
        _AD
    except NameError:
        _AD = A.BackAdapter("GATTACAGA", max_errors=0.1, min_overlap=3)
    return _AD.match_to(s) is not None


def run(ctx):
    pipeprop.run(ctx, "C11", FOCUS, oracle, 150, 3000,
                 "random command lines with focus on filter options and redirect files, plus directed single-end cases without read modification whose thresholds are "
                 "drawn at and around the reads' own length, N count, expected errors and error rate; non-trivial = distinct read consumed by a filter",
                 nontrivial=lambda c, r: False)
    cases = []
    for _ in range(ctx.scale(150, 3000)):
        c = gen_filter_case(ctx)
        c["filter_case"] = True
        cases.append(c)
    for case, res, real, model in pipe.run_cases(ctx, cases):
        ctx.count("directed")
        oracle(ctx, case, res, real)
    # paired-end: each criterion applied to both mates, combined by --pair-filter (shared with C05's generator)
    from props import c05
    pc = [c05.criteria_case(ctx) for _ in range(ctx.scale(60, 1000))]
    for case, res, real, model in pipe.run_cases(ctx, pc):
        ctx.count("directed-paired-criteria")
        before = len(ctx.failures)
        c05.criteria_oracle(ctx, case, real)
        for f in ctx.failures[before:]:
            f.signature = "C11/paired-criterion"
    # paired-end length criteria: -m / -M with one-sided bounds (LEN: / :LEN2) under every --pair-filter mode, alone and together
    pc = [c05.decision_case(ctx) for _ in range(ctx.scale(60, 1000))]
    for case, res, real, model in pipe.run_cases(ctx, pc):
        ctx.count("directed-paired-length")
        before = len(ctx.failures)
        c05.decision_oracle(ctx, case, real)
        for f in ctx.failures[before:]:
            f.signature = "C11/paired-criterion"
    pc = [c05.two_bounds_case(ctx) for _ in range(ctx.scale(60, 1000))]
    for case, res, real, model in pipe.run_cases(ctx, pc):
        ctx.count("directed-paired-two-bounds")
        before = len(ctx.failures)
        c05.two_bounds_oracle(ctx, case, real)
        for f in ctx.failures[before:]:
            f.signature = "C11/paired-criterion"


def extended_search(ctx):
    cases = []
    for _ in range(2500):
        c = gen_filter_case(ctx)
        c["filter_case"] = True
        cases.append(c)
    for case, res, real, model in pipe.run_cases(ctx, cases):
        oracle(ctx, case, res, real)


def replay(ctx, rp):
    def orc(ctx, case, res, real):
        case["filter_case"] = True
        oracle(ctx, case, res, real)
    return pipeprop.generic_replay("C11", orc)(ctx, rp)
