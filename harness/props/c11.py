"""C11 — filters use the documented criteria, in order, one destination per read.
Correspondence: pipeline level (focus filters/redirect). Oracle: destination of each read recomputed from the documented criteria in
the documented order (command lines without read modification, thresholds at and around the reads' own values)."""
import pipe
import pipeprop
from pipeprop import rid, case_input
from core import Failure

LEVEL = "proof"
FOCUS = ("filters", "redirect", "maxaer")


def ee(q):
    return sum(10 ** (-(ord(c) - 33) / 10) for c in q or "")


def as_fasta(case):
    """the same filter case on FASTA input (headers keep their CASAVA comment): the criteria that need no qualities hold for all reads, whatever
    the format; the quality-based options are left out"""
    argv, skip = [], 0
    for t in case["argv"]:
        if skip:
            skip -= 1
        elif t in ("--max-ee", "--max-aer"):
            skip = 1
        else:
            argv.append(t[:-6] + ".fasta" if t.startswith("{dir}/") and t.endswith(".fastq") else t)
    return dict(case, argv=argv, with_qual=False, reads1=[(n_, s_, None) for n_, s_, _ in case["reads1"]])


MAXN_CORNERS = [(n_, L_) for L_ in range(2, 121) for n_ in range(1, L_) if (n_ / L_) * L_ != n_]


def gen_filter_case(ctx):
    rng = ctx.rng
    nreads = rng.randint(3, 8)
    reads = []
    for i in range(nreads):
        ln = rng.choice([0, 1, 5, 10, 10, 12, 20, 30])
        s = pipe.rs(rng, ln, rng.choice(["ACGT", "ACGTN", "ACGNn"]))
        if rng.random() < 0.4:
            s = s + "GATTACAGA"
        # (qualities over the whole legal range: long-read instruments report up to Q93)
        qmenu = rng.choice([[2, 10, 20, 30, 40], [2, 10, 20, 30, 40], [0, 2, 31, 32, 33, 41, 64, 65, 93], [60, 70, 80, 93, 2, 3]])
        q = "".join(chr(33 + rng.choice(qmenu)) for _ in s)
        reads.append((f"r{i} 1:{rng.choice('YN')}:0:1", s, q))
    argv = ["--no-index"]
    r0 = rng.choice(reads)
    if rng.random() < 0.6:
        argv += ["-m", str(max(0, len(r0[1]) + rng.choice([-1, 0, 1]))) if rng.random() < 0.9 else "0"]
        if rng.random() < 0.6:
            argv += ["--too-short-output", "{dir}/ts1.fastq"]
    if rng.random() < 0.6:
        argv += ["-M", str(len(rng.choice(reads)[1]) + rng.choice([-1, 0, 1, 3])) if rng.random() < 0.9 else "0"]
        if rng.random() < 0.6:
            argv += ["--too-long-output", "{dir}/tl1.fastq"]
    if rng.random() < 0.5:
        r = rng.choice(reads)
        nn = r[1].lower().count("n")
        if rng.random() < 0.3:
            # a fraction that a read meets exactly (kept: the filter asks for *more* N's), at a length where the double (n/L)*L is not n
            n_, L_ = rng.choice(MAXN_CORNERS)
            for d_ in (0, 1):
                m_ = min(n_ + d_, L_)
                body = list("N" * m_ + pipe.rs(rng, L_ - m_))
                rng.shuffle(body)
                s_ = "".join(body)
                reads.append((f"b{len(reads)} 1:N:0:1", s_, "".join(chr(33 + rng.choice([30, 40])) for _ in s_)))
            argv += ["--max-n", repr(n_ / L_)]
        else:
            argv += ["--max-n", rng.choice([str(nn), str(max(0, nn - 1)), "0", repr(nn / len(r[1])) if r[1] else "0.5", "0.2", "0.5"])]
    if rng.random() < 0.5:
        r = rng.choice(reads)
        argv += ["--max-ee", rng.choice([repr(ee(r[2])), repr(ee(r[2]) * 0.999), "0.5", "1", "3", "0", "0.0"])]
    if rng.random() < 0.4:
        r = rng.choice(reads)
        v = ee(r[2]) / len(r[1]) if r[1] else 0.1
        v = min(max(v, 0.001), 0.999)
        argv += ["--max-aer", rng.choice([repr(v), "0.05", "0.2", "0.01"])]
    if rng.random() < 0.4:
        argv.append("--discard-casava")
    x = rng.random()
    if x < 0.6:
        argv += ["-a", "a0=GATTACAGA", "--action", "none"]
        y = rng.random()
        if y < 0.25:
            argv.append("--discard-trimmed")
        elif y < 0.5:
            argv.append("--discard-untrimmed")
        elif y < 0.75:
            argv += ["--untrimmed-output", "{dir}/ut1.fastq"]
    argv += ["-o", "{dir}/o1.fastq"]
    return dict(argv=argv, paired=False, reads1=reads, reads2=None, with_qual=True, interleaved_in=False)


def opt(argv, name, cast=str):
    return cast(argv[argv.index(name) + 1]) if name in argv else None


def oracle(ctx, case, res, real):
    argv = case["argv"]
    if "error" in real:
        if real["error"] != "cmdline":
            pipeprop.crash_failures(ctx, "C11", case, real)
        return
    if not case.get("filter_case"):
        return
    m, M = opt(argv, "-m", int), opt(argv, "-M", int)
    maxn, maxee, maxaer = opt(argv, "--max-n", float), opt(argv, "--max-ee", float), opt(argv, "--max-aer", float)
    expected = {}
    counts = {}
    ext = "fastq" if case["with_qual"] else "fasta"
    # IEEE boundary: when a threshold coincides (to 1e-9) with a read's own expected-error value, the implementation's table-based sum and
    # this oracle's 10**(-Q/10) sum may fall on different sides; such cases are float artefacts (DESIGN.md section 5) and are skipped
    for name, s, q in case["reads1"]:
        e0 = ee(q)
        if (maxee is not None and abs(e0 - maxee) <= 1e-9 * max(1, e0)) or (maxaer is not None and len(s) and abs(e0 / len(s) - maxaer) <= 1e-9):
            ctx.count("float-boundary-skipped")
            return
    for name, s, q in case["reads1"]:
        trimmed = "-a" in argv and _has_adapter(s)
        nn = s.lower().count("n")
        e = ee(q)
        if m is not None and len(s) < m:
            dest = ("too_short", "ts1." + ext if "--too-short-output" in argv else None)
        elif M is not None and len(s) > M:
            dest = ("too_long", "tl1." + ext if "--too-long-output" in argv else None)
        elif maxn is not None and ((maxn < 1 and len(s) > 0 and nn / len(s) > maxn) or (maxn >= 1 and nn > maxn)):
            dest = ("too_many_n", None)
        elif maxee is not None and e > maxee:
            dest = ("too_many_expected_errors", None)
        elif maxaer is not None and len(s) > 0 and e / len(s) > maxaer:
            dest = ("too_high_average_error_rate", None)
        elif "--discard-casava" in argv and name.split(" ", 1)[1][1:4] == ":Y:":
            dest = ("casava_filtered", None)
        elif "--discard-trimmed" in argv and trimmed:
            dest = ("discard_trimmed", None)
        elif "--discard-untrimmed" in argv and not trimmed:
            dest = ("discard_untrimmed", None)
        elif "--untrimmed-output" in argv and not trimmed:
            dest = ("discard_untrimmed", "ut1." + ext)
        else:
            dest = (None, "o1." + ext)
        expected[rid(name)] = dest
        if dest[0]:
            counts[dest[0]] = counts.get(dest[0], 0) + 1
            ctx.nontriv(("filtered", name, s, q, tuple(argv)))
    # float boundary: a threshold numerically equal to the read's own value may round either way in the two computations
    actual = {}
    for fn, recs in real["files"].items():
        for r in recs:
            actual.setdefault(rid(r[0]), []).append(fn)
    for k, (cat, fn) in expected.items():
        got = actual.get(k, [])
        if got != ([fn] if fn else []):
            ctx.failures.append(Failure("C11/wrong-destination", "read is not at the destination of the first applicable filter (documented order and criteria)",
                                        case_input(case), dict(read=k, files=got), dict(category=cat, file=fn)))
    got_counts = {k: v for k, v in real["filtered"].items() if v}
    if got_counts != counts:
        ctx.failures.append(Failure("C11/wrong-category", "filter categories counted differ from the first-applicable rule", case_input(case), got_counts, counts))


def _has_adapter(s):
    import cutadapt.adapters as A
    global _AD
    try:
        _AD
    except NameError:
        _AD = A.BackAdapter("GATTACAGA", max_errors=0.1, min_overlap=3)
    return _AD.match_to(s) is not None


FILTER_OPTS = {"-m": 1, "-M": 1, "--max-n": 1, "--max-ee": 1, "--discard-casava": 0, "--too-short-output": 1, "--too-long-output": 1}


def split_argv(argv):
    """(modifying options, filter options) of a command line of gen_modified_case"""
    mods, filt, i = [], [], 0
    while i < len(argv):
        t = argv[i]
        if t in FILTER_OPTS:
            filt += argv[i:i + 1 + FILTER_OPTS[t]]
            i += 1 + FILTER_OPTS[t]
        elif t == "-o":
            i += 2
        elif t == "--no-index":
            i += 1
        else:
            mods.append(t)
            i += 1
    return mods, filt


def gen_modified_case(ctx):
    """"filters see the fully modified read": filters together with options that change the sequence, the qualities or the header"""
    rng = ctx.rng
    reads = []
    for i in range(rng.randint(4, 8)):
        ln = rng.choice([3, 8, 10, 12, 15, 20, 30])
        s = pipe.rs(rng, ln, rng.choice(["ACGT", "ACGTN", "NACGN"]))
        if rng.random() < 0.5:
            s = s + "GATTACAGA" + pipe.rs(rng, rng.randint(0, 4))
        q = "".join(chr(33 + rng.choice([2, 10, 20, 30, 40])) for _ in s)
        reads.append((f"r{i}" + rng.choice([" 1:Y:0:1", " 1:N:0:1", " 1:Y:0:1 extra", "", " x 1:Y:0"]), s, q))
    mods = []
    for o in rng.sample([["-u", str(rng.choice([2, -3, 5]))], ["-q", rng.choice(["15", "10,20"])], ["-a", "a0=GATTACAGA"],
                         ["--trim-n"], ["-l", str(rng.choice([6, 10, -8]))],
                         ["--rename", rng.choice(["{id}", "{id} {adapter_name} {comment}", "{id} 1:Y:0:{comment}", "{id} x{comment}", "{comment} {id}"])],
                         ["-x", rng.choice(["libA ", "p_"])], ["-y", rng.choice([" 1:Y:0:N", "_s", " 2:N:0"])],
                         ["--strip-suffix", rng.choice([" 1:Y:0:1", ":1", "1"])], ["--length-tag", "1:Y:"]], rng.randint(1, 3)):
        mods += o
    if "--rename" in mods and ("-x" in mods or "-y" in mods):
        i = mods.index("--rename")
        del mods[i:i + 2]
    filt = []
    r0 = rng.choice(reads)
    if rng.random() < 0.5:
        filt += ["-m", str(max(0, len(r0[1]) - rng.choice([0, 2, 3, 5, 9])))]
        if rng.random() < 0.5:
            filt += ["--too-short-output", "{dir}/ts1.fastq"]
    if rng.random() < 0.4:
        filt += ["-M", str(max(0, len(rng.choice(reads)[1]) - rng.choice([0, 2, 3, 5, 9])))]
        if rng.random() < 0.5:
            filt += ["--too-long-output", "{dir}/tl1.fastq"]
    if rng.random() < 0.4:
        filt += ["--max-n", rng.choice(["0", "1", "2", "0.1", "0.2"])]
    if rng.random() < 0.4:
        filt += ["--max-ee", rng.choice(["0.5", "1", "2", "3"])]
    if rng.random() < 0.6 or not filt:
        filt.append("--discard-casava")
    argv = (["--no-index"] if rng.random() < 0.5 else []) + mods + filt + ["-o", "{dir}/o1.fastq"]
    return dict(argv=argv, paired=False, reads1=reads, reads2=None, with_qual=True, interleaved_in=False, modified_case=True, mods=mods, filt=filt)


def modified_oracle(ctx, case, real):
    """two-stage reference: the modifying options alone produce the modified reads; the documented criteria applied to *those* records
    in the documented order give every read's destination"""
    if "error" in real:
        if real["error"] != "cmdline":
            pipeprop.crash_failures(ctx, "C11", case, real)
        return
    argv, filt = case["argv"], case["filt"]
    stage = dict(case, argv=[t for t in argv[:1] if t == "--no-index"] + case["mods"] + ["-o", "{dir}/o1.fastq"])
    _, r1 = pipe.run_real(stage)
    if "error" in r1:
        return
    m, M = opt(filt, "-m", int), opt(filt, "-M", int)
    maxn, maxee = opt(filt, "--max-n", float), opt(filt, "--max-ee", float)
    exp = {"o1.fastq": []}
    if "--too-short-output" in filt:
        exp["ts1.fastq"] = []
    if "--too-long-output" in filt:
        exp["tl1.fastq"] = []
    for name, s, q in r1["files"].get("o1.fastq", []):
        e = ee(q)
        if maxee is not None and abs(e - maxee) <= 1e-9 * max(1, e):
            ctx.count("float-boundary-skipped")
            return
        nn = s.lower().count("n")
        if m is not None and len(s) < m:
            dest = "ts1.fastq" if "--too-short-output" in filt else None
        elif M is not None and len(s) > M:
            dest = "tl1.fastq" if "--too-long-output" in filt else None
        elif maxn is not None and ((maxn < 1 and len(s) > 0 and nn / len(s) > maxn) or (maxn >= 1 and nn > maxn)):
            dest = None
        elif maxee is not None and e > maxee:
            dest = None
        elif "--discard-casava" in filt and name.partition(" ")[2][1:4] == ":Y:":
            dest = None
        else:
            dest = "o1.fastq"
        if dest:
            exp[dest].append([name, s, q])
        else:
            ctx.nontriv(("filtered-after-modification", name, s, tuple(argv)))
    got = {k: [list(r) for r in v] for k, v in real["files"].items()}
    ctx.count("modified-read-checked")
    if got != exp:
        bad = {k: (got.get(k), exp.get(k)) for k in set(got) | set(exp) if got.get(k) != exp.get(k)}
        k = sorted(bad)[0]
        ctx.failures.append(Failure("C11/filter-does-not-see-the-modified-read", "the destinations differ from the documented criteria applied, in the documented "
                                    "order, to the fully modified reads (the output of the same command without the filter options)",
                                    case_input(case), {k: bad[k][0]}, {k: bad[k][1]}))


def run(ctx):
    mc = [gen_modified_case(ctx) for _ in range(ctx.scale(80, 1500))]
    for case, res, real, model in pipe.run_cases(ctx, mc):
        ctx.count("directed-modified")
        modified_oracle(ctx, case, real)
    pipeprop.run(ctx, "C11", FOCUS, oracle, 150, 3000,
                 "random command lines with focus on filter options and redirect files, plus directed single-end cases without read modification whose thresholds are "
                 "drawn at and around the reads' own length, N count, expected errors and error rate; non-trivial = distinct read consumed by a filter",
                 nontrivial=lambda c, r: False)
    cases = []
    for _ in range(ctx.scale(150, 3000)):
        c = gen_filter_case(ctx)
        c["filter_case"] = True
        if ctx.rng.random() < 0.25:
            c = as_fasta(c)
            ctx.count("directed-fasta-input")
        cases.append(c)
    for case, res, real, model in pipe.run_cases(ctx, cases):
        ctx.count("directed")
        oracle(ctx, case, res, real)
    # paired-end: each criterion applied to both mates, combined by --pair-filter (shared with C05's generator)
    from props import c05
    pc = [c05.criteria_case(ctx) for _ in range(ctx.scale(60, 1000))]
    for case, res, real, model in pipe.run_cases(ctx, pc):
        ctx.count("directed-paired-criteria")
        before = len(ctx.failures)
        c05.criteria_oracle(ctx, case, real)
        for f in ctx.failures[before:]:
            f.signature = "C11/paired-criterion"
    # paired-end length criteria: -m / -M with one-sided bounds (LEN: / :LEN2) under every --pair-filter mode, alone and together
    pc = [c05.decision_case(ctx) for _ in range(ctx.scale(60, 1000))]
    for case, res, real, model in pipe.run_cases(ctx, pc):
        ctx.count("directed-paired-length")
        before = len(ctx.failures)
        c05.decision_oracle(ctx, case, real)
        for f in ctx.failures[before:]:
            f.signature = "C11/paired-criterion"
    pc = [c05.two_bounds_case(ctx) for _ in range(ctx.scale(60, 1000))]
    for case, res, real, model in pipe.run_cases(ctx, pc):
        ctx.count("directed-paired-two-bounds")
        before = len(ctx.failures)
        c05.two_bounds_oracle(ctx, case, real)
        for f in ctx.failures[before:]:
            f.signature = "C11/paired-criterion"


def extended_search(ctx):
    cases = []
    for _ in range(2500):
        c = gen_filter_case(ctx)
        c["filter_case"] = True
        cases.append(c)
    for case, res, real, model in pipe.run_cases(ctx, cases):
        oracle(ctx, case, res, real)


def replay(ctx, rp):
    def orc(ctx, case, res, real):
        if any(t in case["argv"] for t in ("-u", "-q", "--trim-n", "-l", "--rename", "-x", "-y", "--strip-suffix", "--length-tag")):
            case["mods"], case["filt"] = split_argv(case["argv"])
            return modified_oracle(ctx, case, real)
        case["filter_case"] = True
        oracle(ctx, case, res, real)
    return pipeprop.generic_replay("C11", orc)(ctx, rp)
