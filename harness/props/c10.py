"""C10 — read modifications are applied in the documented fixed order.
Correspondence: pipeline level over random subsets of the read-modifying options; the real `pipeline._modifiers` class sequence against
the documented stage order (also via the StageOrder translator on the Lean side). Oracle: (a) permuting the option tokens does not change
any output; (b) a reference that composes independently specified single operations in the documented order; (c) R1/R2 routing."""
import pipe
import pipeprop
from pipeprop import rid, case_input
from core import Failure
from props import c13, c14

LEVEL = "proof"
FOCUS = ("cut", "quality", "nextseq", "adapters", "polya", "length", "trimn", "names", "zerocap", "nolinked")
DOC_ORDER = ["UnconditionalCutter", "NextseqQualityTrimmer", "QualityTrimmer", "AdapterCutter", "ReverseComplementer", "PairedReverseComplementer",
             "PairedAdapterCutter", "PolyATrimmer", "Shortener", "NEndTrimmer", "LengthTagModifier", "SuffixRemover", "PrefixSuffixAdder",
             "ZeroCapper", "Renamer", "PairedEndRenamer"]
RANK = {"UnconditionalCutter": 0, "NextseqQualityTrimmer": 1, "QualityTrimmer": 2, "AdapterCutter": 3, "ReverseComplementer": 3,
        "PairedReverseComplementer": 3, "PairedAdapterCutter": 3, "PolyATrimmer": 4, "Shortener": 5, "NEndTrimmer": 6, "LengthTagModifier": 7,
        "SuffixRemover": 8, "PrefixSuffixAdder": 9, "ZeroCapper": 10, "Renamer": 10, "PairedEndRenamer": 10}


def option_groups(argv):
    """split argv into option groups (option + its value); returns list of groups"""
    takes = {"-a", "-g", "-b", "-A", "-G", "-B", "-e", "-O", "--action", "--times", "-u", "-U", "-q", "-Q", "--nextseq-trim", "-l", "-L", "--length-tag",
             "--strip-suffix", "--rename", "-x", "-y", "-m", "-M", "--max-n", "--max-ee", "--max-aer", "--pair-filter", "-o", "-p", "--too-short-output",
             "--too-short-paired-output", "--too-long-output", "--too-long-paired-output", "--untrimmed-output", "--untrimmed-paired-output",
             "--info-file", "--rest-file", "--wildcard-file"}
    groups, i = [], 0
    while i < len(argv):
        if argv[i] in takes:
            groups.append([argv[i], argv[i + 1]])
            i += 2
        else:
            groups.append([argv[i]])
            i += 1
    return groups


def permuted(rng, argv):
    groups = option_groups(argv)
    keep_order = {"-u", "-U", "-a", "-g", "-b", "-A", "-G", "-B", "--strip-suffix"}
    idx = list(range(len(groups)))
    rng.shuffle(idx)
    # restore the relative order of the order-sensitive options
    out = [groups[i] for i in idx]
    for fam in (("-u",), ("-U",), ("-a", "-g", "-b"), ("-A", "-G", "-B"), ("--strip-suffix",)):
        orig = [g for g in groups if g[0] in fam]
        it = iter(orig)
        out = [next(it) if g[0] in fam else g for g in out]
    return [t for g in out for t in g]


def real_modifier_classes(case):
    """class names in pipeline._modifiers as the real code builds them for this command line"""
    import logging
    import cutadapt.cli as cli
    from cutadapt.files import OutputFiles, FileOpener
    import dnaio
    parser = cli.get_argument_parser()
    _, in_args = pipe.inputs_of(case)
    argv = [a.replace("{dir}", "/var/tmp/cv-c10-unused") for a in list(case["argv"]) + in_args]
    args = parser.parse_args(argv)
    logging.disable(logging.CRITICAL)
    try:
        ads, ads2 = cli.adapters_from_args(args)
        paired = cli.determine_paired(args)

        class FakeOut:
            def __getattr__(self, name):
                return lambda *a, **k: None
        fmt = type("F", (), {"has_qualities": lambda self: case["with_qual"]})()
        p = cli.make_pipeline_from_args(args, fmt, FakeOut(), paired, ads, ads2)
    except cli.CommandLineError:
        return None
    finally:
        logging.disable(logging.NOTSET)
    names = []
    for m in p._modifiers:
        if type(m).__name__ == "PairedEndModifierWrapper":
            names.append((type(m._modifier1).__name__ if m._modifier1 else None, type(m._modifier2).__name__ if m._modifier2 else None))
        else:
            names.append((type(m).__name__, type(m).__name__))
    return names


def reference(case, argv):
    """documented composition for single-end command lines without adapters: cut, nextseq, quality, poly-A, length, trim-n, zero-cap"""
    def opt(name, cast=str):
        return cast(argv[argv.index(name) + 1]) if name in argv else None
    out = []
    cuts = [int(argv[i + 1]) for i, t in enumerate(argv) if t == "-u"]
    for name, s, q in case["reads1"]:
        for c in cuts:
            if c > 0:
                s, q = s[c:], q[c:]
            elif c < 0:
                s, q = s[:c], q[:c]
        ns = opt("--nextseq-trim", int)
        if ns is not None:
            q2 = [ns - 1 if b == "G" else ord(x) - 33 for b, x in zip(s, q)]
            stop = c13.spec3(q2, ns)
            s, q = s[:stop], q[:stop]
        qc = opt("-q")
        if qc is not None and qc != "0":
            v = [int(x) for x in qc.split(",")]
            cf, cb = (v[0], v[1]) if len(v) == 2 else (0, v[0])
            a, b = c13.spec_qtrim([ord(x) - 33 for x in q], cf, cb)
            s, q = s[a:b], q[a:b]
        if "--poly-a" in argv:
            i = c14.spec_polya(s)
            s, q = s[:i], q[:i]
        ln = opt("-l", int)
        if ln is not None:
            s, q = (s[:ln], q[:ln]) if ln >= 0 else (s[ln:], q[ln:])
        if "--trim-n" in argv:
            a = len(s) - len(s.lstrip("N"))
            b = len(s.rstrip("N"))
            s, q = (s[a:b], q[a:b]) if a < b else ("", "")
        if "--zero-cap" in argv:
            q = "".join(x if ord(x) >= 33 else "!" for x in q)
        out.append((name, s, q))
    return out


def oracle(ctx, case, res, real):
    argv = case["argv"]
    if "error" in real:
        if real["error"] != "cmdline":
            pipeprop.crash_failures(ctx, "C10", case, real)
        return
    inp = case_input(case)
    # (0) the real modifier list follows the documented stage order
    cls = real_modifier_classes(case)
    if cls is not None:
        for side in (0, 1):
            seq = [c[side] for c in cls if c[side] is not None]
            ranks = [RANK.get(n, 99) for n in seq]
            if ranks != sorted(ranks):
                ctx.failures.append(Failure("C10/stage-order", "pipeline._modifiers is not in the documented stage order", inp, seq, DOC_ORDER))
        if len(cls) > 2:
            ctx.nontriv(("stages", tuple(cls)))
    # (a) permutation of option tokens
    c2 = dict(case)
    c2["argv"] = permuted(ctx.rng, argv)
    res2, real2 = pipe.run_real(c2)
    if real2 != real:
        ctx.failures.append(Failure("C10/argv-order-matters", "permuting the options changed the result", inp, c2["argv"], None))
    # (b) reference composition (single-end, FASTQ, no adapters, no filters)
    simple = {"--no-index", "-u", "--nextseq-trim", "-q", "--poly-a", "-l", "--trim-n", "--zero-cap", "-o"}
    toks = [t for t in argv if t.startswith("-") and not t.lstrip("-").replace(".", "").replace(",", "").isdigit()]
    if not case["paired"] and case["with_qual"] and all(t in simple for t in toks):
        exp = reference(case, argv)
        got = [tuple(r) for r in real["files"].get("o1.fastq", [])]
        if got != exp:
            ctx.failures.append(Failure("C10/composition", "output differs from the documented composition of the single operations", inp, got[:4], exp[:4]))
        ctx.count("reference-checked")
    # (b2) paired reference for the purely positional options: -u on R1, -U on R2, then --length on both unless -L is given (then -L on R2)
    if case["paired"] and case["with_qual"] and all(t in {"--no-index", "-u", "-U", "-l", "-L", "-o", "-p"} for t in toks):
        def cut(s_, q_, c):
            return (s_[c:], q_[c:]) if c > 0 else (s_[:c], q_[:c]) if c < 0 else (s_, q_)

        def shorten(s_, q_, n):
            return (s_[:n], q_[:n]) if n >= 0 else (s_[n:], q_[n:])
        cuts1 = [int(argv[i + 1]) for i, t in enumerate(argv) if t == "-u"]
        cuts2 = [int(argv[i + 1]) for i, t in enumerate(argv) if t == "-U"]
        l1 = int(argv[argv.index("-l") + 1]) if "-l" in argv else None
        l2 = int(argv[argv.index("-L") + 1]) if "-L" in argv else l1
        for side, reads, cuts, ln in ((0, case["reads1"], cuts1, l1), (1, case["reads2"], cuts2, l2)):
            exp = []
            for name, s_, q_ in reads:
                for c in cuts:
                    s_, q_ = cut(s_, q_, c)
                if ln is not None:
                    s_, q_ = shorten(s_, q_, ln)
                exp.append((name, s_, q_))
            got = [tuple(r) for fn, sd, recs in pipeprop.output_roles(case, real) if sd == side for r in recs]
            if got != exp:
                ctx.failures.append(Failure("C10/routing", f"R{side + 1}: -u acts on R1, -U on R2, --length on both unless -L is given (then -L on R2): "
                                            "output differs from that", inp, got[:3], exp[:3]))
        ctx.count("paired-positional-reference-checked")
    # (c) routing: options of one side leave the other side untouched
    if case["paired"]:
        r1_only = {"--no-index", "-u", "-a", "-g", "-b", "-o", "-p", "-e", "-O"}
        r2_only = {"--no-index", "-U", "-A", "-G", "-B", "-o", "-p", "-e", "-O"}
        for allowed, untouched, reads in ((r1_only, 1, case["reads2"]), (r2_only, 0, case["reads1"])):
            if all(t in allowed for t in toks):
                outs = {rid(r[0]): r for fn, side, recs in pipeprop.output_roles(case, real) if side == untouched for r in recs}
                for name, s, q in reads:
                    if rid(name) in outs and tuple(outs[rid(name)]) != (name, s, q):
                        ctx.failures.append(Failure("C10/routing", f"options for the other read changed R{untouched + 1}", inp, outs[rid(name)], [name, s, q]))
                ctx.count("routing-checked")


STAGES = [("-u", "-U"), ("--nextseq-trim",), ("-q", "-Q"),
          ("-a", "-g", "-b", "-A", "-G", "-B", "-e", "-O", "--no-indels", "--action", "--times", "--pair-adapters", "--revcomp"),
          ("--poly-a",), ("-l", "-L"), ("--trim-n",), ("--length-tag",), ("--strip-suffix",), ("-x", "-y"), ("--zero-cap",), ("--rename",)]


def stepwise_oracle(ctx, case, real):
    """"every step seeing exactly the output of the previous one": the run with all options at once must equal a chain of runs, one per
    documented stage in the documented order, each fed with the output files of the previous one"""
    if "error" in real or not case.get("stepwise"):
        return
    groups = option_groups([t for t in case["argv"] if t != "--no-index"])
    r1, r2 = case["reads1"], case["reads2"]
    for stage in STAGES:
        opts = [t for g in groups if g[0] in stage for t in g]
        if not opts:
            continue
        outs = ["-o", "{dir}/o1.fastq"] + (["-p", "{dir}/o2.fastq"] if case["paired"] else [])
        c = dict(argv=["--no-index"] + opts + outs, paired=case["paired"], reads1=r1, reads2=r2, with_qual=True, interleaved_in=False)
        _, rr = pipe.run_real(c)
        if "error" in rr:
            return
        r1 = [tuple(x) for x in rr["files"].get("o1.fastq", [])]
        r2 = [tuple(x) for x in rr["files"].get("o2.fastq", [])] if case["paired"] else None
    got1 = [tuple(x) for x in real["files"].get("o1.fastq", [])]
    got2 = [tuple(x) for x in real["files"].get("o2.fastq", [])] if case["paired"] else None
    ctx.count("stepwise-checked")
    if (got1, got2) != (r1, r2):
        bad = [(a, b) for a, b in zip(got1 + (got2 or []), r1 + (r2 or [])) if a != b][:3]
        ctx.failures.append(Failure("C10/not-the-composition-of-the-stages", "the result differs from applying the documented stages one after the other "
                                    "(cut, NextSeq, quality, adapters, poly-A, length, trim-n, length-tag, strip-suffix, prefix/suffix, zero-cap), each on "
                                    "the output of the previous one", case_input(case), [x[0] for x in bad], [x[1] for x in bad]))


def directed_stepwise(ctx):
    rng = ctx.rng
    cases = []
    for _ in range(ctx.scale(60, 1200)):
        paired = rng.random() < 0.6
        argv = ["--no-index"]
        def maybe(p, toks):
            if rng.random() < p:
                argv.extend(toks)
                return True
            return False
        if maybe(0.5, ["-u", str(rng.choice([1, 3, -2, 5, 0]))]):
            maybe(0.3, ["-u", str(-int(argv[-1]))])
        if paired:
            maybe(0.35, ["-U", str(rng.choice([2, -3, 0]))])
        maybe(0.25, ["--nextseq-trim", "20"])
        if maybe(0.4, ["-q", rng.choice(["10", "15,10", "20"])]) and paired:
            maybe(0.4, ["-Q", rng.choice(["0", "25", "5,30"])])
        has_ad = False
        if rng.random() < 0.8:
            has_ad = True
            if paired and rng.random() < 0.4:
                argv.extend(["-a", "a0=GATTACAGA", "-A", "b0=AAAGGGCCC"])
                if rng.random() < 0.5:
                    argv.extend(["-a", "a1=TTAGGCATC", "-A", "b1=CCGGTTAAC"])
                argv.append("--pair-adapters")
            else:
                argv.extend([rng.choice(["-a", "-g", "-b"]), "a0=GATTACAGA"])
                if paired and rng.random() < 0.6:
                    argv.extend([rng.choice(["-A", "-G"]), "b0=AAAGGGCCC"])
                if rng.random() < 0.35:
                    argv.append("--revcomp")
                elif rng.random() < 0.3:
                    argv.extend(["--times", "2"])
            maybe(0.3, ["--action", rng.choice(["mask", "trim", "none", "lowercase"])])
        maybe(0.25, ["--poly-a"])
        if paired:
            x = rng.random()
            if x < 0.25:
                argv.extend(["-l", str(rng.choice([12, -8, 20]))])
            elif x < 0.5:
                argv.extend(["-L", str(rng.choice([10, -6, 25, 0]))])
            elif x < 0.65:
                argv.extend(["-l", rng.choice(["15", "0", "12"]), "-L", rng.choice(["9", "0", "0", "-4"])])
        else:
            maybe(0.4, ["-l", str(rng.choice([12, -8, 20, 0]))])
        maybe(0.3, ["--trim-n"])
        maybe(0.15, ["--length-tag", "length="])
        maybe(0.15, ["--strip-suffix", rng.choice(["0:1", ":1"])])
        if not maybe(0.15, rng.choice([["-x", "P_"], ["-y", "_s"]])) and "--revcomp" not in argv:
            # templates that read the current name only (no adapter/cut information, which a separate run would not have)
            maybe(0.3, ["--rename", rng.choice(["{header} renamed", "{id} c={comment}", "x_{id} {comment}", "{id}"])])
        maybe(0.2, ["--zero-cap"])
        argv += ["-o", "{dir}/o1.fastq"] + (["-p", "{dir}/o2.fastq"] if paired else [])
        r1, r2 = pipe.gen_reads(rng, 6, ["GATTACAGA", "TTAGGCATC"], ["AAAGGGCCC", "CCGGTTAAC"], paired, True, "--revcomp" in argv)
        cases.append(dict(argv=argv, paired=paired, reads1=r1, reads2=r2, with_qual=True, interleaved_in=False, stepwise=True))
    return cases


def directed(ctx):
    rng = ctx.rng
    cases = []
    for _ in range(ctx.scale(80, 1500)):
        argv = ["--no-index"]
        opts = [["-u", str(rng.choice([1, 3, -2]))], ["--nextseq-trim", "20"], ["-q", rng.choice(["10", "15,10"])], ["--poly-a"],
                ["-l", str(rng.choice([12, -8]))], ["--trim-n"], ["--zero-cap"]]
        for o in opts:
            if rng.random() < 0.55:
                argv += o
        if "-u" in argv and rng.random() < 0.3:
            argv += ["-u", str(-int(argv[argv.index("-u") + 1]))]
        argv += ["-o", "{dir}/o1.fastq"]
        reads = []
        for i in range(5):
            # reads on which adjacent stages interact: low-quality ends, poly-A before low-quality tail, Ns at the ends, G runs
            core = pipe.rs(rng, rng.randint(5, 20))
            s = rng.choice(["", "NN", "N"]) + core + rng.choice(["", "AAAAAAA", "AAAAAGAAAA", "GGGGGG"]) + rng.choice(["", "NN", "NNN"])
            q = "".join(chr(33 + rng.choice([2, 2, 12, 25, 40])) for _ in s)
            if rng.random() < 0.5:
                k = rng.randint(0, len(s))
                q = q[:k] + "".join(chr(33 + rng.choice([2, 5])) for _ in s[k:])
            reads.append((f"r{i}", s, q))
        cases.append(dict(argv=argv, paired=False, reads1=reads, reads2=None, with_qual=True, interleaved_in=False))
    for _ in range(ctx.scale(40, 600)):
        # positional options only, zero included: -u / -U / -l / -L
        r1, r2 = pipe.gen_reads(rng, 5, [], [], True)
        argv = ["--no-index"]
        if rng.random() < 0.5:
            argv += ["-u", str(rng.choice([0, 1, 3, -2]))]
        if rng.random() < 0.5:
            argv += ["-U", str(rng.choice([0, 2, -3, 4]))]
        if rng.random() < 0.6:
            argv += ["-l", str(rng.choice([0, 8, -5, 12]))]
        if rng.random() < 0.7:
            argv += ["-L", str(rng.choice([0, 0, 6, -4, 10]))]
        argv += ["-o", "{dir}/o1.fastq", "-p", "{dir}/o2.fastq"]
        cases.append(dict(argv=argv, paired=True, reads1=r1, reads2=r2, with_qual=True, interleaved_in=False))
    for _ in range(ctx.scale(30, 500)):
        r1, r2 = pipe.gen_reads(rng, 5, ["GATTACAGA"], ["AAAGGGCCC"], True)
        which = rng.choice([1, 2])
        argv = ["--no-index"] + (["-u", "3", "-a", "a0=GATTACAGA"] if which == 1 else ["-U", "-2", "-A", "b0=AAAGGGCCC"]) + ["-o", "{dir}/o1.fastq", "-p", "{dir}/o2.fastq"]
        cases.append(dict(argv=argv, paired=True, reads1=r1, reads2=r2, with_qual=True, interleaved_in=False))
    return cases


def cuts_in_order_oracle(ctx, case, real):
    """-u/-U "in the order given": each cut removes from what the previous cut left; the removed pieces are what {cut_prefix}/{cut_suffix}
    (paired: {r1.…}/{r2.…}) show. Sequential reference on short reads, where the order is visible in the removed pieces."""
    if not case.get("cut_order") or "error" in real:
        return
    argv = case["argv"]
    def chain(seq, cuts):
        pre = suf = ""
        for c in cuts:
            if c > 0:
                pre, seq = seq[:c], seq[c:]
            elif c < 0:
                suf, seq = seq[c:], seq[:c]
        return seq, pre, suf
    cuts1 = [int(argv[i + 1]) for i, t in enumerate(argv) if t == "-u"]
    cuts2 = [int(argv[i + 1]) for i, t in enumerate(argv) if t == "-U"]
    got1 = real["files"].get("o1.fastq", [])
    got2 = real["files"].get("o2.fastq", []) if case["paired"] else None
    exp1, exp2 = [], []
    for k, (n, s_, q_) in enumerate(case["reads1"]):
        a = chain(s_, cuts1)
        if case["paired"]:
            b = chain(case["reads2"][k][1], cuts2)
            exp1.append((f"{rid(n)} {a[1]}|{a[2]}|{b[1]}|{b[2]}", a[0]))
            exp2.append((f"{rid(n)} {a[1]}|{a[2]}|{b[1]}|{b[2]}", b[0]))
        else:
            exp1.append((f"{rid(n)} {a[1]}|{a[2]}", a[0]))
    ctx.count("cut-order-checked")
    g = [(r[0], r[1]) for r in got1] + [(r[0], r[1]) for r in (got2 or [])]
    e = exp1 + exp2
    if g != e:
        bad = [(x, y) for x, y in zip(g, e) if x != y][:3]
        ctx.failures.append(Failure("C10/cuts-not-in-the-order-given", "-u/-U cuts are not applied one after the other in the order given (removed pieces "
                                    "shown by {cut_prefix}/{cut_suffix} or the remaining sequence differ from the sequential reference)",
                                    case_input(case), [x[0] for x in bad] or len(g), [x[1] for x in bad] or len(e)))


def directed_cut_order(ctx):
    rng = ctx.rng
    cases = []
    for _ in range(ctx.scale(40, 600)):
        paired = rng.random() < 0.5
        def two():
            a, b = rng.randint(1, 7), -rng.randint(1, 7)
            k = rng.random()
            return [a, b] if k < 0.4 else [b, a] if k < 0.8 else [rng.choice([a, b, 0])] if k < 0.9 else [0, rng.choice([a, b])]
        argv = ["--no-index"]
        for c in two():
            argv += ["-u", str(c)]
        if paired:
            for c in two():
                argv += ["-U", str(c)]
            argv += ["--rename", "{id} {r1.cut_prefix}|{r1.cut_suffix}|{r2.cut_prefix}|{r2.cut_suffix}"]
        else:
            argv += ["--rename", "{id} {cut_prefix}|{cut_suffix}"]
        argv += ["-o", "{dir}/o1.fastq"] + (["-p", "{dir}/o2.fastq"] if paired else [])
        mk = lambda i: (f"r{i}", *(lambda s_: (s_, "".join(chr(33 + rng.randint(2, 40)) for _ in s_)))(pipe.rs(rng, rng.randint(0, 12))))
        r1 = [mk(i) for i in range(8)]
        r2 = [mk(i) for i in range(8)] if paired else None
        cases.append(dict(argv=argv, paired=paired, reads1=r1, reads2=r2, with_qual=True, interleaved_in=False, cut_order=True))
    return cases


def directed_name_steps(ctx):
    """the name-modifying steps chained: several --strip-suffix (each sees what the previous one left), then -x/-y or --rename, then nothing else;
    read names carry two or three of the suffixes stacked at the end, in either order, or the same suffix twice"""
    rng = ctx.rng
    cases = []
    for _ in range(ctx.scale(30, 400)):
        sufs = rng.sample(["/1", "_filtered", ".fq", "_x", "/1"], rng.randint(2, 3))
        paired = rng.random() < 0.3
        argv = ["--no-index"]
        for sf in sufs:
            argv += ["--strip-suffix", sf]
        k = rng.random()
        if k < 0.3:
            argv += ["-y", rng.choice(["_s", "/1"])]
        elif k < 0.5:
            argv += ["-x", "P_"]
        elif k < 0.7:
            argv += ["--rename", rng.choice(["{id} n", "{id}_{comment}", "{header}"])]
        if rng.random() < 0.3:
            argv += ["--length-tag", "len="]
        argv += ["-o", "{dir}/o1.fastq"] + (["-p", "{dir}/o2.fastq"] if paired else [])
        def nm(i):
            tail = "".join(rng.choice(sufs + sufs[:1]) for _ in range(rng.randint(0, 3)))
            return f"read{i}{tail}" + (rng.choice(["", " len=4", " c"]) if "--rename" in argv or "--length-tag" in argv else "")
        r1 = []
        for i in range(8):
            s_ = pipe.rs(rng, rng.randint(3, 12))
            r1.append((nm(i), s_, "I" * len(s_)))
        # (mates must keep matching ids: same name on both sides)
        r2 = [(n_, pipe.rs(rng, len(s_)), "5" * len(s_)) for n_, s_, _ in r1] if paired else None
        cases.append(dict(argv=argv, paired=paired, reads1=r1, reads2=r2, with_qual=True, interleaved_in=False, name_steps=True))
    return cases


def name_steps_oracle(ctx, case, real):
    if not case.get("name_steps") or "error" in real:
        return
    argv = case["argv"]
    sufs = [argv[i + 1] for i, t in enumerate(argv) if t == "--strip-suffix"]
    if "--rename" in argv or "--length-tag" in argv:
        return          # (those are compared with the model only)
    pre = argv[argv.index("-x") + 1] if "-x" in argv else ""
    suf = argv[argv.index("-y") + 1] if "-y" in argv else ""
    def chain(n_):
        for sf in sufs:
            if n_.endswith(sf):
                n_ = n_[: -len(sf)]
        return pre + n_ + suf
    for fn, reads in (("o1.fastq", case["reads1"]), ("o2.fastq", case["reads2"] or [])):
        got = [r[0] for r in real["files"].get(fn, [])]
        exp = [chain(n_) for n_, _, _ in reads]
        if reads and got != exp:
            bad = [(a, b) for a, b in zip(got, exp) if a != b][:3]
            ctx.failures.append(Failure("C10/strip-suffix-chain", "several --strip-suffix options are not applied one after the other, each to what the previous one left "
                                        "(then -x/-y)", case_input(case), [a for a, b in bad] or len(got), [b for a, b in bad] or len(exp)))
            return
    ctx.count("name-steps-checked")


def tokenizer_cases(ctx):
    """`tokenize_braces` (validation of --rename templates) against the model: random strings over braces, letters and placeholders"""
    from core import correspond, hx
    from cutadapt.tokenizer import tokenize_braces, BraceToken, TokenizeError
    rng = ctx.rng
    cases = []
    pieces = ["{", "}", "{id}", "{comment}", "{r1.comment}", "{rn}", " ", "x", "_", "{}", "{{", "}}", "{a b}", "id", "{header}"]
    for _ in range(ctx.scale(600, 20000)):
        t = "".join(rng.choice(pieces) for _ in range(rng.randint(0, 7)))
        try:
            toks = list(tokenize_braces(t))
            out = " ".join(("V" if isinstance(k, BraceToken) else "L") + (k.value.encode().hex() or "-") for k in toks) or "-"
        except TokenizeError as e:
            out = "error:unexpected-left" if "'{'" in str(e) else "error:unexpected-right"
        cases.append((f"tokenize {hx(t)}", out))
        ctx.count("tokenize:" + ("error" if out.startswith("error") else "ok"))
    correspond(ctx, "tokenize", cases)


def run(ctx):
    tokenizer_cases(ctx)
    pipeprop.run(ctx, "C10", FOCUS, oracle, 150, 3000,
                 "random subsets of the read-modifying options (single and paired) with a random permutation of the option tokens, plus directed single-end cases "
                 "without adapters compared with a reference composition on reads where adjacent stages interact, plus one-sided paired cases (routing); "
                 "non-trivial = distinct modifier class sequence with more than two stages", nontrivial=lambda c, r: False)
    for case, res, real, model in pipe.run_cases(ctx, directed(ctx) + directed_stepwise(ctx) + directed_cut_order(ctx) + directed_name_steps(ctx)):
        ctx.count("directed")
        oracle(ctx, case, res, real)
        stepwise_oracle(ctx, case, real)
        cuts_in_order_oracle(ctx, case, real)
        name_steps_oracle(ctx, case, real)


def extended_search(ctx):
    for case, res, real, model in pipe.run_cases(ctx, [c for _ in range(4) for c in directed(ctx) + directed_stepwise(ctx) + directed_cut_order(ctx)]):
        oracle(ctx, case, res, real)
        stepwise_oracle(ctx, case, real)
        cuts_in_order_oracle(ctx, case, real)


def _replay_oracle(ctx, case, res, real):
    oracle(ctx, case, res, real)
    stepwise_oracle(ctx, dict(case, stepwise=True), real)
    tmpl = case["argv"][case["argv"].index("--rename") + 1] if "--rename" in case["argv"] else ""
    name_steps_oracle(ctx, dict(case, name_steps="--strip-suffix" in case["argv"]), real)
    cuts_in_order_oracle(ctx, dict(case, cut_order=tmpl in ("{id} {cut_prefix}|{cut_suffix}", "{id} {r1.cut_prefix}|{r1.cut_suffix}|{r2.cut_prefix}|{r2.cut_suffix}")), real)


replay = pipeprop.generic_replay("C10", _replay_oracle)
