"""C09 — best-adapter choice, repeated rounds, linked adapters.
Correspondence: pipeline level (focus adapters/times/action). Oracle: the rules recomputed from single-adapter matches."""
import pipe
import pipeprop
from pipeprop import rid, case_input
from core import Failure

LEVEL = "proof"
FOCUS = ("adapters", "times", "action")


def simple(argv):
    allowed = {"--no-index", "-a", "-g", "-b", "--action", "--times", "-o", "-e", "-O", "--no-indels", "-N", "--match-read-wildcards"}
    toks = [t for t in argv if t.startswith("-") and not t.lstrip("-").replace(".", "").isdigit()]
    return all(t in allowed for t in toks)


def no_index_possible(argv):
    """an index replaces *several* anchored 5' adapters or *several* anchored 3' adapters (docs: 'multiple anchored adapters'); with at most one
    of each on the command line none is built whatever the adapters look like, so the first-given rule applies in the default mode as well"""
    n5 = n3 = 0
    for i, t in enumerate(argv[:-1]):
        if t in ("-a", "-g", "-b"):
            spec = argv[i + 1].split("=", 1)[-1].split(";")[0]
            if "..." in spec or argv[i + 1].startswith("file:"):
                return False
            if t == "-g" and spec.startswith("^"):
                n5 += 1
            if t == "-a" and spec.endswith("$"):
                n3 += 1
    return n5 <= 1 and n3 <= 1


def linked_flags(flag, spec):
    """(5' part required, 3' part required) of a linked specification by the documented rule, from its text: with -g both parts are required; with
    -a a part is required exactly if it is anchored (^ / $) or non-internal (X); `;required` / `;optional` on a part override the default"""
    body = spec.split("=", 1)[-1] if "=" in spec.split(";")[0].split("...")[0] else spec
    f, b = body.split("...", 1)
    fp, bp = f.split(";"), b.split(";")
    fr = True if flag == "-g" else (fp[0].startswith("^") or fp[0][:1] in "Xx" or fp[0][-1:] in "Xx")
    br = True if flag == "-g" else (bp[0].endswith("$") or bp[0][-1:] in "Xx" or bp[0][:1] in "Xx")
    for parts, which in ((fp, 0), (bp, 1)):
        for p_ in parts[1:]:
            if p_.strip() == "required":
                fr, br = (True, br) if which == 0 else (fr, True)
            elif p_.strip() == "optional":
                fr, br = (False, br) if which == 0 else (fr, False)
    return fr, br


def match_one(ad, seq, flags=None):
    """match of one (possibly linked) adapter by the documented rules, from its parts; returns (score, errors, trim function, parts).
    `flags`: (front required, back required) computed from the specification text (not read off the adapter object)"""
    import cutadapt.adapters as A
    if isinstance(ad, A.LinkedAdapter):
        front_required, back_required = flags if flags is not None else (ad.front_required, ad.back_required)
        fm = ad.front_adapter.match_to(seq)
        if front_required and fm is None:
            return None
        rest = seq[fm.rstop:] if fm is not None else seq
        bm = ad.back_adapter.match_to(rest)
        if bm is None and (back_required or fm is None):
            return None
        score = (fm.score if fm else 0) + (bm.score if bm else 0)
        errors = (fm.errors if fm else 0) + (bm.errors if bm else 0)
        a = fm.rstop if fm else 0
        b = a + bm.rstart if bm else len(seq)
        return score, errors, (a, b)
    m = ad.match_to(seq)
    if m is None:
        return None
    # what remains, from the match coordinates by the documented rule (5' match: everything after it; 3' match: everything before it) -
    # not from the match object's own helper, which a change under test may have altered
    a, b = (m.rstop, len(seq)) if isinstance(m, A.RemoveBeforeMatch) else (0, m.rstart)
    return m.score, m.errors, (a, b)


def oracle(ctx, case, res, real):
    argv = case["argv"]
    if "error" in real:
        if real["error"] != "cmdline":
            pipeprop.crash_failures(ctx, "C09", case, real)
        return
    if case["paired"] or not simple(argv) or not any(t in argv for t in ("-a", "-g", "-b")):
        return
    if "--no-index" not in argv and not no_index_possible(argv):
        # the property's rule is stated for searches in which no index is involved (with an index, ties and the adapter order are the
        # index's business: C08); such runs are still compared with the model
        ctx.count("index-may-be-involved:rule-not-applied")
        return
    if "--no-index" not in argv:
        ctx.count("default-mode:no-index-possible:rule-applied")
    action = argv[argv.index("--action") + 1] if "--action" in argv else "trim"
    if action not in ("trim", "none", "mask"):
        return
    import logging
    import cutadapt.cli as cli
    parser = cli.get_argument_parser()
    _, in_args = pipe.inputs_of(case)
    args = parser.parse_args(list(argv) + in_args)
    logging.disable(logging.CRITICAL)
    try:
        ads, _ = cli.adapters_from_args(args)
    finally:
        logging.disable(logging.NOTSET)
    outs = {rid(r[0]): r for fn, side, recs in pipeprop.output_roles(case, real) for r in recs}
    given = [(t, argv[i + 1]) for i, t in enumerate(argv[:-1]) if t in ("-a", "-g", "-b")]
    flags_by_pos = {i: linked_flags(fl, sp) for i, (fl, sp) in enumerate(given) if "..." in sp} if len(given) == len(ads) else {}
    nwith = 0
    for name, s, q in case["reads1"]:
        cur_a, cur_b = 0, len(s)     # interval of the original read that remains
        rounds = 0
        for _ in range(args.times):
            cur = s[cur_a:cur_b]
            best = None
            for idx, ad in enumerate(ads):
                r = match_one(ad, cur, flags_by_pos.get(idx))
                if r is None:
                    continue
                key = (-r[0], r[1], idx)
                if best is None or key < best[0]:
                    best = (key, r)
            if best is None:
                break
            a, b = best[1][2]
            cur_a, cur_b = cur_a + a, cur_a + b
            rounds += 1
        nwith += rounds > 0
        if rounds > 1:
            ctx.nontriv(("rounds", name, s, rounds))
        if rounds:
            ctx.count(f"rounds={rounds}")
        got = outs.get(rid(name))
        if got is None:
            continue
        if action == "trim":
            exp = s[cur_a:cur_b]
        elif action == "none":
            exp = s
        else:
            exp = s if rounds == 0 else "N" * cur_a + s[cur_a:cur_b] + "N" * (len(s) - cur_b)
        if got[1] != exp:
            ctx.failures.append(Failure("C09/wrong-result", "result differs from: best score, then fewer errors, then first adapter; one adapter per round; "
                                        "non-trim actions once on the original read; linked adapter rules", case_input(case), got[1], dict(expected=exp, read=name)))
    if real.get("with_adapters1") != nwith:
        ctx.failures.append(Failure("C09/with-adapters", "number of reads counted as trimmed differs from the reads in which the rules find a match",
                                    case_input(case), real.get("with_adapters1"), nwith))


def directed(ctx):
    """near-ties: same score different errors, same both (order decides); linked required/optional x anchoring x -a/-g"""
    rng = ctx.rng
    cases = []
    base = "ACGTTGCAAG"
    for _ in range(ctx.scale(30, 400)):
        a1 = base[: rng.randint(5, 10)]
        a2 = a1[:-1] + rng.choice("ACGT")
        a3 = a1[1:]
        specs = rng.sample([a1, a2, a3, base], rng.randint(2, 3))
        flag = rng.choice(["-a", "-g", "-b"])
        argv = ["--no-index", "-e", rng.choice(["0.2", "0.34"])]
        for i, sp in enumerate(specs):
            argv += [flag if rng.random() < 0.8 else rng.choice(["-a", "-g"]), f"a{i}={sp}"]
        if rng.random() < 0.5:
            argv += ["--times", str(rng.randint(2, 3))]
        if rng.random() < 0.3:
            argv += ["--action", rng.choice(["none", "mask"])]
        argv += ["-o", "{dir}/o1.fastq"]
        reads = []
        for i in range(6):
            core = rng.choice(specs)
            if rng.random() < 0.5:
                j = rng.randrange(len(core))
                core = core[:j] + rng.choice("ACGT") + core[j + 1:]
            s = pipe.rs(rng, rng.randint(0, 8)) + core + pipe.rs(rng, rng.randint(0, 8))
            if rng.random() < 0.4:
                s += rng.choice(specs)
            reads.append((f"r{i}", s, "I" * len(s)))
        cases.append(dict(argv=argv, paired=False, reads1=reads, reads2=None, with_qual=True, interleaved_in=False))
    for _ in range(ctx.scale(30, 400)):
        f, b = "AAAGGGCCC", "TTAGGCAT"
        fa = rng.choice(["^", ""]) + f + rng.choice(["", ";required", ";optional"])
        ba = b + rng.choice(["$", ""]) + rng.choice(["", ";required", ";optional"])
        argv = ["--no-index", rng.choice(["-a", "-g"]), f"a0={fa}...{ba}"]
        if rng.random() < 0.3:
            argv += ["-a", "a1=GATTACAGA"]
        argv += ["-o", "{dir}/o1.fastq"]
        reads = []
        for i in range(6):
            s = (f if rng.random() < 0.6 else "") + pipe.rs(rng, rng.randint(0, 3)) + "CCATGG" + (b if rng.random() < 0.6 else "") + pipe.rs(rng, rng.choice([0, 0, 3]))
            if rng.random() < 0.3:
                s = pipe.rs(rng, 2) + s
            reads.append((f"r{i}", s, "I" * len(s)))
        cases.append(dict(argv=argv, paired=False, reads1=reads, reads2=None, with_qual=True, interleaved_in=False))
    # adapters with runs of N wildcards (UMI-style) next to plain ones, both present in the read: the N positions count for the score
    for _ in range(ctx.scale(40, 500)):
        plain = rng.choice(["TGGAATTCTCGG", "AAAGGGCCCTTT", "GATTACAGATTC"])
        umi = rng.choice(["GGCCTTAA", "CCATGG", "TTAGGCAT"])
        nrun = "N" * rng.randint(3, 10)
        nad = rng.choice([umi + nrun, nrun + umi, umi[:4] + nrun + umi[4:]])
        specs = [plain, nad] if rng.random() < 0.6 else [nad, plain]
        flag = rng.choice(["-a", "-a", "-b"])
        argv = ["--no-index"]
        for i, sp in enumerate(specs):
            argv += [flag, f"a{i}={sp}"]
        if rng.random() < 0.4:
            argv += ["--times", "2"]
        argv += ["-o", "{dir}/o1.fastq"]
        reads = []
        for i in range(6):
            inst = nad.replace("N", "x")
            inst = "".join(rng.choice("ACGT") if c == "x" else c for c in inst)
            parts = [pipe.rs(rng, rng.randint(3, 10))] + rng.sample([plain, inst], rng.randint(1, 2)) + [pipe.rs(rng, rng.randint(0, 5))]
            s_ = parts[0] + (pipe.rs(rng, rng.randint(0, 4))).join(parts[1:-1]) + parts[-1]
            reads.append((f"r{i}", s_, "I" * len(s_)))
        cases.append(dict(argv=argv, paired=False, reads1=reads, reads2=None, with_qual=True, interleaved_in=False))
    # linked adapters on reads in which the parts occur in unusual places: the 3' part only to the *left* of the 5' part, both
    # parts overlapping (adapter dimers), a part twice - "the 3' part is searched only in what remains after the 5' part"
    pairs = [("AAAGGGCCC", "TTAGGCAT"), ("ACGGATTCAGGCTTA", "GCTTAGGACCATTGC"), ("GATTACA", "TGTAATC"), ("CCGGTTAAC", "CCGGTTAAC")]
    for _ in range(ctx.scale(60, 800)):
        f, b = rng.choice(pairs)
        fa = rng.choice(["^", "", ""]) + f + rng.choice(["", ";required", ";optional"])
        ba = b + rng.choice(["$", "", ""]) + rng.choice(["", ";required", ";optional"])
        argv = ["--no-index", rng.choice(["-a", "-g"]), f"a0={fa}...{ba}"]
        if rng.random() < 0.2:
            argv += ["-a", "a1=GATTACAGA"]
        if rng.random() < 0.2:
            argv += ["--times", "2"]
        argv += ["-o", "{dir}/o1.fastq"]
        ov = 0
        while ov < min(len(f), len(b)) and f[len(f) - ov - 1:] == b[:ov + 1]:
            ov += 1
        reads = []
        for i in range(8):
            fill = lambda a, z: pipe.rs(rng, rng.randint(a, z))
            layout = rng.choice(["fb", "bf", "bfb", "dimer", "f", "b", "fbf", "b-in-f-tail"])
            if layout == "fb":
                s = f + fill(0, 6) + b
            elif layout == "bf":
                s = b + fill(0, 6) + f + fill(0, 5)
            elif layout == "bfb":
                s = b + fill(0, 4) + f + fill(0, 4) + b
            elif layout == "dimer":
                cut = rng.randint(1, max(1, min(len(f), len(b)) - 1))
                s = f[: len(f) - cut] + b if rng.random() < 0.5 else f + b[cut:]
            elif layout == "f":
                s = f + fill(0, 8)
            elif layout == "b":
                s = fill(0, 8) + b
            elif layout == "fbf":
                s = f + fill(0, 3) + b + fill(0, 3) + f
            else:
                s = f[: rng.randint(1, len(f))] + b[rng.randint(0, 3):]
            if not fa.startswith("^") and rng.random() < 0.3:
                s = fill(1, 4) + s
            if "$" not in ba and rng.random() < 0.3:
                s = s + fill(1, 4)
            reads.append((f"r{i}", s, "I" * len(s)))
        cases.append(dict(argv=argv, paired=False, reads1=reads, reads2=None, with_qual=True, interleaved_in=False))
    # three or four rounds over adapters of both kinds: a 3' adapter is removed first (it scores highest), then a 5' adapter, and only then does a
    # further 5' adapter - anchored, non-internal or partial at the new read start - become visible: every round searches *all* adapters again
    for _ in range(ctx.scale(30, 400)):
        three = pipe.rs(rng, 18)
        five1 = pipe.rs(rng, 13)
        five2 = pipe.rs(rng, rng.randint(8, 10))
        kind2 = rng.choice(["^", "X", ""])
        specs = [("-a", three), ("-g", five1), ("-g", kind2 + five2)]
        if rng.random() < 0.4:
            specs.append(("-a", pipe.rs(rng, 9)))
        rng.shuffle(specs)
        argv = ["--no-index", "--times", str(rng.choice([3, 3, 4]))]
        for i, (fl, sp) in enumerate(specs):
            argv += [fl, f"a{i}={sp}"]
        if rng.random() < 0.25:
            argv += ["--action", rng.choice(["mask", "none"])]
        argv += ["-o", "{dir}/o1.fastq"]
        reads = []
        for i in range(6):
            body = pipe.rs(rng, rng.randint(8, 16))
            k = rng.random()
            if k < 0.6:
                s_ = five1 + (five2 if kind2 else five2[rng.randint(1, 3):]) + body + three + pipe.rs(rng, rng.randint(0, 3))
            elif k < 0.8:
                s_ = five1 + five2 + body
            else:
                s_ = (five2 if rng.random() < 0.5 else "") + body + three
            reads.append((f"r{i}", s_, "I" * len(s_)))
        cases.append(dict(argv=argv, paired=False, reads1=reads, reads2=None, with_qual=True, interleaved_in=False))
    # default mode (no --no-index) with one anchored 5' and one anchored 3' adapter, optionally one more adapter of another type: nothing is
    # indexed, so the order given decides ties; reads carry both adapters exactly (equal score, no errors) or with one mismatch each
    for _ in range(ctx.scale(40, 500)):
        L = rng.randint(5, 8)
        x, y = pipe.rs(rng, L), pipe.rs(rng, L)
        z = pipe.rs(rng, L)
        specs = [("-g", "^" + x), ("-a", y + "$")]
        if rng.random() < 0.5:
            specs.append(rng.choice([("-a", z), ("-g", z), ("-b", z)]))
        rng.shuffle(specs)
        argv = []
        if rng.random() < 0.5:
            argv += ["-e", rng.choice(["0", "0.2"])]
        for i, (fl, sp) in enumerate(specs):
            argv += [fl, f"a{i}={sp}"]
        if rng.random() < 0.5:
            argv += ["--times", str(rng.randint(2, 3))]
        if rng.random() < 0.3:
            argv += ["--action", rng.choice(["none", "mask"])]
        argv += ["-o", "{dir}/o1.fastq"]
        reads = []
        for i in range(6):
            def mut(c):
                if rng.random() < 0.3:
                    j = rng.randrange(len(c))
                    return c[:j] + rng.choice("ACGT") + c[j + 1:]
                return c
            mid = pipe.rs(rng, rng.randint(0, 10))
            if len(specs) == 3 and rng.random() < 0.5:
                mid = mid[: len(mid) // 2] + z + mid[len(mid) // 2:]
            s_ = (mut(x) if rng.random() < 0.85 else "") + mid + (mut(y) if rng.random() < 0.85 else "")
            reads.append((f"r{i}", s_, "I" * len(s_)))
        cases.append(dict(argv=argv, paired=False, reads1=reads, reads2=None, with_qual=True, interleaved_in=False))
    return cases


def paired_rounds(ctx):
    """the rounds of `--times` on R2 (and R1) of a paired-end run: the same adapter list given for both reads (`-a/-g/-b` and `-A/-G/-B`), both mates
    the same sequence - each mate must come out exactly as the read comes out of the single-end run with that list (which the rule oracle judges)"""
    n = 0
    for case in directed(ctx):
        argv = case["argv"]
        if "--times" not in argv or n >= ctx.scale(25, 300):
            continue
        n += 1
        pargv, i = [], 0
        while i < len(argv):
            t = argv[i]
            if t in ("-a", "-g", "-b"):
                pargv += [t, argv[i + 1], t.upper(), argv[i + 1]]
                i += 2
            elif t == "-o":
                pargv += ["-o", "{dir}/o1.fastq", "-p", "{dir}/o2.fastq"]
                i += 2
            else:
                pargv.append(t)
                i += 1
        pcase = dict(case, argv=pargv, paired=True, reads2=[(n_, s_, q_) for n_, s_, q_ in case["reads1"]])
        _, single = pipe.run_real(case)
        _, paired = pipe.run_real(pcase)
        ctx.evaluations += 2
        ctx.count("paired-rounds")
        if "error" in single or "error" in paired:
            if ("error" in single) != ("error" in paired):
                ctx.failures.append(Failure("C09/paired-rounds-status", "the paired-end run with the same adapter list on both reads fails (or succeeds) where "
                                            "the single-end run does not", case_input(pcase), paired.get("error"), single.get("error")))
            continue
        want = {rid(r[0]): r[1] for r in single["files"].get("o1.fastq", [])}
        for fn in ("o1.fastq", "o2.fastq"):
            got = {rid(r[0]): r[1] for r in paired["files"].get(fn, [])}
            bad = [k for k in want if got.get(k) != want[k]]
            if bad:
                ctx.failures.append(Failure("C09/paired-rounds-differ", f"{'R2' if fn[1] == '2' else 'R1'} of a paired-end run is not trimmed as the same read is in a "
                                            "single-end run with the same adapters, --times and action (further rounds search the already trimmed read)",
                                            case_input(pcase), dict(read=bad[0], got=got.get(bad[0])), dict(expected=want[bad[0]])))
                break
        else:
            ctx.nontriv(("paired-rounds", tuple(pargv)))


def run(ctx):
    paired_rounds(ctx)
    pipeprop.run(ctx, "C09", FOCUS, oracle, 200, 4000,
                 "random command lines with adapter lists of mixed types (incl. linked), --times, actions, plus directed near-ties and linked adapters with every "
                 "anchoring x required/optional x -a/-g; non-trivial = distinct read trimmed in more than one round", nontrivial=lambda c, r: False)
    for case, res, real, model in pipe.run_cases(ctx, directed(ctx)):
        ctx.count("directed")
        oracle(ctx, case, res, real)


def extended_search(ctx):
    for case, res, real, model in pipe.run_cases(ctx, [c for _ in range(5) for c in directed(ctx)]):
        oracle(ctx, case, res, real)


replay = pipeprop.generic_replay("C09", oracle)
