"""C03 — output reads are aligned slices of the input; qualities stay in step.
Correspondence: pipeline level. Oracle: every output record is located in its input record by read id."""
import pipeprop
from pipeprop import rid, revcomp, case_input
from core import Failure

LEVEL = "proof"
FOCUS = ("adapters", "action", "cut", "quality", "polya", "length", "trimn", "zerocap", "revcomp", "times", "pair_adapters")


def opt(argv, name, default=None):
    return argv[argv.index(name) + 1] if name in argv else default


def is_slice(out_s, out_q, s, q):
    """is (out_s, out_q) the same contiguous slice of (s, q)?"""
    n = len(out_s)
    if n == 0:
        return True
    start = s.find(out_s)
    while start != -1:
        if q is None or out_q is None or q[start:start + n] == out_q:
            return True
        start = s.find(out_s, start + 1)
    return False


def is_marked_slice(out_s, out_q, s, q, action):
    """mask/lowercase: same length window of the input where every base is unchanged, N (mask) or only case-changed"""
    n = len(out_s)
    for start in range(0, len(s) - n + 1):
        w = s[start:start + n]
        if q is not None and out_q is not None and q[start:start + n] != out_q:
            continue
        ok = True
        for a, b in zip(out_s, w):
            if action == "mask":
                if not (a == b or a == "N"):
                    ok = False
                    break
            else:
                if a.upper() != b.upper():
                    ok = False
                    break
        if ok:
            return True
    return n == 0


def zero_cap(q, base=33):
    return None if q is None else "".join(c if ord(c) >= base else chr(base) for c in q)


def oracle(ctx, case, res, real):
    if pipeprop.crash_failures(ctx, "C03", case, real):
        return
    if "error" in real:
        return
    argv = case["argv"]
    action = opt(argv, "--action", "trim")
    name_mods = any(o in argv for o in ("-x", "-y", "--rename", "--strip-suffix"))
    if name_mods:
        return
    by_id = [{rid(r[0]): r for r in case["reads1"]}, {rid(r[0]): r for r in (case["reads2"] or [])}]
    for fn, side, recs in pipeprop.output_roles(case, real):
        for name, s, q in recs:
            if q is not None and len(q) != len(s):
                ctx.failures.append(Failure("C03/length-mismatch", "sequence and qualities differ in length", case_input(case), [name, s, q], None))
                continue
            cands = []
            for sd in ((side,) if "--revcomp" not in argv or not case["paired"] else (side, 1 - side)):
                o = by_id[sd].get(rid(name))
                if o is not None:
                    cands.append(o)
            if not cands:
                ctx.failures.append(Failure("C03/unknown-read", "output record has no input record", case_input(case), name, None))
                continue
            ok = False
            for o in cands:
                oq = zero_cap(o[2]) if "--zero-cap" in argv else o[2]
                variants = [(o[1], oq)]
                if "--revcomp" in argv and not case["paired"]:
                    variants.append((revcomp(o[1]), None if oq is None else oq[::-1]))
                for vs, vq in variants:
                    if action in ("mask", "lowercase"):
                        if is_marked_slice(s, q, vs, vq, action):
                            ok = True
                    else:
                        if is_slice(s, q, vs, vq):
                            ok = True
                    # lowercase/anywhere upper-casing never applies to trim; `none` must leave the read as it was
            if not ok:
                ctx.failures.append(Failure("C03/not-a-slice", f"output record in {fn} is not an aligned slice of its input record",
                                            case_input(case), [name, s, q], [c[1] for c in cands]))
    check_documented_intervals(ctx, case, real)
    marked_vs_trim(ctx, case, real)
    linked_retain(ctx, case, real)


def check_documented_intervals(ctx, case, real):
    """crop / retain / none on simple command lines: recompute the match with a fresh adapter object and compare with the
    documented interval around the (last) match"""
    argv = case["argv"]
    action = opt(argv, "--action", "trim")
    if action not in ("crop", "retain", "none"):
        return
    # only adapters + action, nothing that runs before or after the adapter stage
    allowed = {"--no-index", "-a", "-g", "-b", "-A", "-G", "-B", "--action", "-o", "-p", "--pair-adapters", "-e", "-O", "--no-indels"}
    toks = [t for t in argv if t.startswith("-") and not t.lstrip("-").replace(".", "").isdigit()]
    if any(t not in allowed for t in toks):
        return
    import cutadapt.cli as cli
    import cutadapt.adapters as A
    import pipe
    parser = cli.get_argument_parser()
    _, in_args = pipe.inputs_of(case)
    args = parser.parse_args(list(argv) + in_args)
    import logging
    logging.disable(logging.CRITICAL)
    try:
        ads = cli.adapters_from_args(args)
    finally:
        logging.disable(logging.NOTSET)
    outs = {}
    for fn, side, recs in pipeprop.output_roles(case, real):
        if fn.startswith("o"):
            outs[side] = {rid(r[0]): r for r in recs}
    pair = "--pair-adapters" in argv
    for side, reads in ((0, case["reads1"]), (1, case["reads2"] or [])):
        if not ads[side] or len(ads[side]) != 1 or isinstance(ads[side][0], A.LinkedAdapter):
            continue
        ad = ads[side][0]
        for i, (name, s, q) in enumerate(reads):
            m = ad.match_to(s)
            if pair:
                other = case["reads2"][i] if side == 0 else case["reads1"][i]
                oad = ads[1 - side]
                if len(oad) != 1 or isinstance(oad[0], A.LinkedAdapter):
                    return
                if m is None or oad[0].match_to(other[1]) is None:
                    m = None
            out = outs.get(side, {}).get(rid(name))
            if out is None:
                continue
            if m is None:
                exp = s
            elif action == "crop":
                exp = s[m.rstart:m.rstop]
            elif action == "retain":
                a, b = m.retained_adapter_interval()
                exp = s[a:b]
            else:
                exp = s
            if out[1] != exp:
                ctx.failures.append(Failure(f"C03/{action}-interval" + ("-pair-adapters" if pair else ""),
                                            f"--action={action} does not keep the documented interval", case_input(case), out[1], exp))


def linked_retain(ctx, case, real):
    """--action=retain with one linked adapter: the read from the start of the 5' occurrence to the end of the 3' occurrence (recomputed
    from the two parts searched one after the other, the way the documentation describes a linked adapter)"""
    argv = case["argv"]
    if not case.get("linked_retain") or "error" in real:
        return
    import cutadapt.cli as cli
    import pipe
    parser = cli.get_argument_parser()
    _, in_args = pipe.inputs_of(case)
    import logging
    logging.disable(logging.CRITICAL)
    try:
        ad = cli.adapters_from_args(parser.parse_args(list(argv) + in_args))[0][0]
    finally:
        logging.disable(logging.NOTSET)
    outs = {rid(r[0]): r for fn, side, recs in pipeprop.output_roles(case, real) for r in recs}
    for name, s, q in case["reads1"]:
        fm = ad.front_adapter.match_to(s)
        if fm is None and ad.front_required:
            exp = (s, q)
        else:
            rest = s[fm.rstop:] if fm else s
            off = fm.rstop if fm else 0
            bm = ad.back_adapter.match_to(rest)
            if bm is None and (ad.back_required or fm is None):
                exp = (s, q)
            else:
                a = fm.rstart if fm else 0
                b = off + bm.rstop if bm else len(s)
                exp = (s[a:b], q[a:b])
        got = outs.get(rid(name))
        ctx.count("linked-retain-checked")
        if got is not None and (got[1], got[2]) != exp:
            ctx.failures.append(Failure("C03/retain-interval-linked", "--action=retain with a linked adapter does not keep the read from the start of the 5' "
                                        "occurrence to the end of the 3' occurrence", case_input(case), [got[1], got[2]], list(exp)))


def marked_vs_trim(ctx, case, real):
    """mask / lowercase keep the length and write N / lower case exactly outside the part that --action=trim keeps:
    compare with the same command line run with --action=trim (command lines with adapters and nothing else that changes reads)"""
    argv = case["argv"]
    action = opt(argv, "--action", "trim")
    if action not in ("mask", "lowercase") or "error" in real:
        return
    allowed = {"--no-index", "-a", "-g", "-b", "-A", "-G", "-B", "--action", "--times", "-o", "-p", "--pair-adapters", "--revcomp", "-e", "-O",
               "--no-indels", "--interleaved"}
    toks = [t for t in argv if t.startswith("-") and not t.lstrip("-").replace(".", "").isdigit()]
    if any(t not in allowed for t in toks):
        return
    import pipe
    c2 = dict(case)
    a2 = list(argv)
    a2[a2.index("--action") + 1] = "trim"
    c2["argv"] = a2
    _, trim = pipe.run_real(c2)
    if "error" in trim:
        return
    tr = {}
    for fn, side, recs in pipeprop.output_roles(c2, trim):
        for r in recs:
            tr[(side, rid(r[0]))] = r
    in_len = {}
    for sd_, reads_ in ((0, case["reads1"]), (1, case["reads2"] or [])):
        for n_, s_, _q in reads_:
            in_len[(sd_, rid(n_))] = len(s_)
    for fn, side, recs in pipeprop.output_roles(case, real):
        for name, s, q in recs:
            t = tr.get((side, rid(name)))
            if t is None:
                continue
            # mask and lowercase keep the length of the read (only adapter options are present here; a swapped mate of a --revcomp pair has
            # the other mate's length)
            lens_ok = {in_len.get((0, rid(name))), in_len.get((1, rid(name)))} - {None}
            if len(s) not in lens_ok:
                ctx.failures.append(Failure(f"C03/{action}-changes-length", f"--action={action} does not keep the length of the read", case_input(case), [name, s],
                                            dict(input_lengths=sorted(lens_ok))))
                continue
            kept = t[1]
            ok = False
            up = s.upper() if action == "lowercase" else s
            for a in range(0, len(s) - len(kept) + 1):
                mid = s[a:a + len(kept)]
                if action == "mask":
                    good = mid == kept and set(s[:a]) <= {"N"} and set(s[a + len(kept):]) <= {"N"}
                else:
                    # a read without match is left as it was (or upper-cased as a whole); with a match the kept part is upper-cased
                    good = (mid.upper() == kept.upper() and s[:a] == s[:a].lower() and s[a + len(kept):] == s[a + len(kept):].lower()
                            and (len(s) == len(kept) or mid == kept.upper()))
                if good and (q is None or t[2] is None or q[a:a + len(kept)] == t[2]):
                    ok = True
                    break
            if not ok:
                ctx.failures.append(Failure(f"C03/{action}-outside-trim-interval", f"--action={action} changed bases inside the part that --action=trim keeps "
                                            "(or left bases unchanged outside it)", case_input(case), [name, s], dict(trim_keeps=kept)))
            ctx.count("marked-vs-trim-checked")


def nontrivial(case, real):
    return any(len(r[1]) for f in real.get("files", {}).values() for r in f) and (real.get("with_adapters1", 0) + real.get("with_adapters2", 0) > 0)


def run(ctx):
    pipeprop.run(ctx, "C03", FOCUS, oracle, 350, 6000,
                 "random valid command lines over the read-modifying options (focus: adapters of all types incl. linked, every --action, --times, "
                 "-u/-U, -q/-Q, --nextseq-trim, --poly-a, -l/-L, --trim-n, --zero-cap, --revcomp, --pair-adapters), single and paired, FASTA and FASTQ; "
                 "non-trivial = distinct case in which at least one adapter was found", nontrivial)
    # directed: action x pair-adapters / linked (the dispatch corners)
    import pipe
    directed = []
    for action in ("crop", "retain", "none", "mask", "lowercase", "trim"):
        for _ in range(ctx.scale(6, 40)):
            c = pipe.gen_case(ctx.rng, ("adapters", "nolinked"))
            argv = ["--no-index", "-a", "a0=AAAGGGCCC", "-A", "b0=TTTGGGAAC", "--pair-adapters", "--action", action, "-o", "{dir}/o1.fastq", "-p", "{dir}/o2.fastq"]
            r1, r2 = pipe.gen_reads(ctx.rng, 5, ["AAAGGGCCC"], ["TTTGGGAAC"], True)
            directed.append(dict(argv=argv, paired=True, reads1=r1, reads2=r2, with_qual=True, interleaved_in=False))
            argv2 = ["--no-index", "-a", "a0=AAAGGGCCC", "--action", action, "-o", "{dir}/o1.fastq"]
            r1, _ = pipe.gen_reads(ctx.rng, 5, ["AAAGGGCCC"], [], False)
            directed.append(dict(argv=argv2, paired=False, reads1=r1, reads2=None, with_qual=True, interleaved_in=False))
    comp = str.maketrans("ACGT", "TGCA")
    for _ in range(ctx.scale(25, 300)):
        X, Y = "AAAGGGCCC", "TTTGGGAAC"
        action = ctx.rng.choice(["mask", "lowercase", "trim", "retain"])
        r1, r2 = [], []
        for i in range(5):
            body = pipe.rs(ctx.rng, ctx.rng.randint(4, 12))
            k = ctx.rng.random()
            s1 = body + (Y + pipe.rs(ctx.rng, 3) if k < 0.4 else "") + X + pipe.rs(ctx.rng, ctx.rng.randint(0, 4)) if k < 0.8 else body
            body2 = pipe.rs(ctx.rng, ctx.rng.randint(4, 12))
            k = ctx.rng.random()
            s2 = body2 + (X + pipe.rs(ctx.rng, 2) if k < 0.4 else "") + Y + pipe.rs(ctx.rng, ctx.rng.randint(0, 4)) if k < 0.8 else body2
            if ctx.rng.random() < 0.2:
                s1 = X + pipe.rs(ctx.rng, ctx.rng.randint(0, 4))        # the 3' adapter right at the start: a round removes everything that is left
            r1.append((f"r{i}", s1, "I" * len(s1)))
            r2.append((f"r{i}", s2, "5" * len(s2)))
        argv = ["--no-index", "-a", "a0=" + X, "-A", "b0=" + Y, "--revcomp", "--action", action, "-o", "{dir}/o1.fastq", "-p", "{dir}/o2.fastq"]
        directed.append(dict(argv=argv, paired=True, reads1=r1, reads2=r2, with_qual=True, interleaved_in=False))
        argv = ["--no-index", "-a", "a0=" + X, "-g", "a1=" + Y, "--times", "2", "--action", action if action != "retain" else "mask", "-o", "{dir}/o1.fastq"]
        directed.append(dict(argv=argv, paired=False, reads1=r1, reads2=None, with_qual=True, interleaved_in=False))
    # soft-masked (lower-case) input with --action=lowercase: the part that would be removed is lower-cased, the kept part UPPER-cased -
    # on the strand as given, on the reverse complement (--revcomp), single-end and paired
    for _ in range(ctx.scale(20, 300)):
        X, Y = "AAAGGGCCCTTTG", "TTTGGGAACCATC"
        def soft(t):
            return "".join(c.lower() if ctx.rng.random() < 0.4 else c for c in t)
        paired = ctx.rng.random() < 0.4
        r1, r2 = [], []
        for i in range(6):
            body = pipe.rs(ctx.rng, ctx.rng.randint(6, 14))
            k = ctx.rng.random()
            s1 = body + X + pipe.rs(ctx.rng, ctx.rng.randint(0, 4)) if k < 0.45 else (revcomp(X) + body) if k < 0.8 else body
            if k >= 0.45 and k < 0.8:
                s1 = revcomp(body + X + pipe.rs(ctx.rng, ctx.rng.randint(0, 3)))
            body2 = pipe.rs(ctx.rng, ctx.rng.randint(6, 14))
            s2 = body2 + (Y if ctx.rng.random() < 0.6 else "") + pipe.rs(ctx.rng, ctx.rng.randint(0, 3))
            s1, s2 = soft(s1), soft(s2)
            r1.append((f"r{i}", s1, "I" * len(s1)))
            r2.append((f"r{i}", s2, "5" * len(s2)))
        argv = [] if ctx.rng.random() < 0.5 else ["--no-index"]
        argv += ["-a", "a0=" + X] + (["-A", "b0=" + Y] if paired else [])
        if ctx.rng.random() < 0.7:
            argv.append("--revcomp")
        argv += ["--action", "lowercase", "-o", "{dir}/o1.fastq"] + (["-p", "{dir}/o2.fastq"] if paired else [])
        directed.append(dict(argv=argv, paired=paired, reads1=r1, reads2=r2 if paired else None, with_qual=True, interleaved_in=False))
    # linked adapters whose occurrences contain insertions and deletions (aligned adapter length != matched read length) x actions
    def mutate(t):
        t = list(t)
        for _ in range(ctx.rng.choice([0, 1, 1, 2])):
            j = ctx.rng.randrange(len(t))
            y = ctx.rng.random()
            if y < 0.4:
                del t[j]
            elif y < 0.8:
                t.insert(j, ctx.rng.choice("ACGT"))
            else:
                t[j] = ctx.rng.choice("ACGT")
        return "".join(t)
    for _ in range(ctx.scale(40, 600)):
        F, B = ctx.rng.choice([("ACGGATTCAGGCTTAC", "GCTTAGGACCATTGCA"), ("AAAGGGCCCTTTGG", "TTAGGCATCGGATC")])
        fa = ctx.rng.choice(["^", ""]) + F + ctx.rng.choice(["", ";optional", ";required"])
        ba = B + ctx.rng.choice(["$", ""]) + ctx.rng.choice(["", ";optional", ";required"])
        action = ctx.rng.choice(["retain", "retain", "trim", "mask", "lowercase", "none"])
        argv = ["--no-index", ctx.rng.choice(["-a", "-g"]), f"a0={fa}...{ba}", "-e", "0.2", "--action", action, "-o", "{dir}/o1.fastq"]
        reads = []
        for i in range(6):
            x = ctx.rng.random()
            s_ = (mutate(F) if x < 0.8 else "") + pipe.rs(ctx.rng, ctx.rng.randint(3, 12)) + (mutate(B) if ctx.rng.random() < 0.8 else "")
            if not fa.startswith("^") and ctx.rng.random() < 0.4:
                s_ = pipe.rs(ctx.rng, ctx.rng.randint(1, 4)) + s_
            if "$" not in ba and ctx.rng.random() < 0.4:
                s_ += pipe.rs(ctx.rng, ctx.rng.randint(1, 4))
            reads.append((f"r{i}", s_, "".join(chr(33 + ctx.rng.randint(2, 40)) for _ in s_)))
        directed.append(dict(argv=argv, paired=False, reads1=reads, reads2=None, with_qual=True, interleaved_in=False, linked_retain=(action == "retain")))
    for case, res, real, model in pipe.run_cases(ctx, directed):
        oracle(ctx, case, res, real)
    # runs that go through the adapter index (several anchored adapters, default mode): every action, one or two rounds
    def extras(rng):
        action = rng.choice(["trim", "mask", "lowercase", "retain", "crop", "none"])
        e = ["--action", action]
        if action not in ("retain", "crop") and rng.random() < 0.3:
            e += ["--times", "2"]
        return e
    pipeprop.indexed_sweep(ctx, oracle, 90, 2500, extras)


def extended_search(ctx):
    pipeprop.run(ctx, "C03", FOCUS, oracle, 3000, 3000, ctx.rule, nontrivial)


replay = pipeprop.generic_replay("C03", oracle)
