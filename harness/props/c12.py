"""C12 — broken input makes the run fail visibly; never hangs or loses reads silently.
Model: the C06 transition system plus fault actions (`Cutadapt/Runner.lean`: readerFault, faulting workerStep, failing mainRecv).
Correspondence: the unmodified runners.py on the deterministic fake multiprocessing with a fault injected through the input
(truncation at byte offsets, short quality line, missing mate, mate-name mismatch, truncated gzip, unknown format); every
trace is replayed through `Runner.step` with the fault specification observed.  A hang is detected exactly (no process can
move).  Oracle: `-j 1` defines "malformed"; every multi-core schedule must then end with non-zero status and an error
message; whatever was written consists of complete records and is a prefix of the good input's `-j 1` output.  Real
processes (plain / gzip, -j 1/2/3) run in a child process group under a wall-clock bound."""
import gzip
import hashlib
import os
import shutil
import signal
import subprocess
import sys
import tempfile
import time
from concurrent.futures import ThreadPoolExecutor

import clirun
import pipe
from core import Failure
from props import c06 as C6
from sim import fakemp
from sim import tracemap as T

LEVEL = "proof"
REAL_TIMEOUT = 60


# ------------------------------------------------------------------------------------------------
# scenarios: a fixed command line + a good input

class Scenario:
    def __init__(self, name, argv, inputs, names, nchunks_min=3, bufsizes=None):
        self.name, self.argv, self.inputs, self.names = name, argv, inputs, names
        total = max(len(v) for v in inputs.values())
        self.bufsize = None
        for buf in bufsizes or range(60, total * 2, 6):
            n, rf, _ = T.count_chunks(inputs, names, buf)
            if not rf and nchunks_min <= n <= 6:
                self.bufsize, self.nchunks = buf, n
                break
        assert self.bufsize, "no buffer size for the scenario"
        self.full_argv = ["--buffer-size", str(self.bufsize)] + argv + ["{dir}/" + n for n in names]
        self.good = clirun.run_cli(self.full_argv, inputs, want_json=False, cores=1)
        assert self.good.status == 0, self.good.stderr
        self.chunk_ends = chunk_boundaries(inputs, names, self.bufsize)


def chunk_boundaries(inputs, names, bufsize):
    import io
    import dnaio
    data = inputs[names[0]]
    data = data if isinstance(data, bytes) else data.encode()
    ends, pos = [], 0
    if len(names) == 1:
        for c in dnaio.read_chunks(io.BytesIO(data), bufsize):
            pos += len(c)
            ends.append(pos)
    else:
        d2 = inputs[names[1]]
        d2 = d2 if isinstance(d2, bytes) else d2.encode()
        for c1, _ in dnaio.read_paired_chunks(io.BytesIO(data), io.BytesIO(d2), bufsize):
            pos += len(c1)
            ends.append(pos)
    return ends


def make_reads(seed, n, paired):
    import random
    rng = random.Random(seed)
    r1, r2 = [], []
    for i in range(n):
        for lst, ad, tag in ((r1, "AAAGGGCCC", "1"), (r2, "TTTGGGAAC", "2")):
            ln = rng.randint(14, 30)
            s = pipe.rs(rng, ln)
            if i % 3 == 1:
                s = s[: ln // 2] + ad + s[ln // 2:]
            q = "".join(chr(33 + rng.choice([2, 20, 30, 40])) for _ in s)
            lst.append((f"r{i:02d} {tag}", s, q))
    return r1, (r2 if paired else None)


def scenarios(nrec=10):
    r1, _ = make_reads(21, nrec, False)
    p1, p2 = make_reads(22, nrec, True)
    single = {"in.fastq": clirun.fastq(r1)}
    paired = {"in1.fastq": clirun.fastq(p1), "in2.fastq": clirun.fastq(p2)}
    big, _ = make_reads(23, 300, False)
    bigin = {"in.fastq": clirun.fastq(big)}
    return dict(
        gzbig=Scenario("gzbig", ["-a", "a0=AAAGGGCCC", "-o", "{dir}/out.fastq"], bigin, ["in.fastq"], bufsizes=[len(bigin["in.fastq"]) // 5 + 100]),
        single=Scenario("single", ["-a", "a0=AAAGGGCCC", "-o", "{dir}/out.fastq"], single, ["in.fastq"]),
        info=Scenario("info", ["-a", "a0=AAAGGGCCC", "-m", "18", "--too-short-output", "{dir}/short.fastq", "--info-file", "{dir}/info.txt", "-o", "{dir}/out.fastq"],
                      single, ["in.fastq"]),
        paired=Scenario("paired", ["-a", "a0=AAAGGGCCC", "-A", "b0=TTTGGGAAC", "-o", "{dir}/out1.fastq", "-p", "{dir}/out2.fastq"],
                        paired, ["in1.fastq", "in2.fastq"]),
    ), (r1, p1, p2)


# ------------------------------------------------------------------------------------------------
# faults

def record_spans(text):
    """[(start, end)] of the 4-line records"""
    spans, pos = [], 0
    lines = text.split("\n")
    for i in range(0, len(lines) - 1, 4):
        ln = sum(len(x) + 1 for x in lines[i:i + 4])
        spans.append((pos, pos + ln))
        pos += ln
    return spans


def which_chunk(sc, offset):
    for i, e in enumerate(sc.chunk_ends):
        if offset < e:
            return "first" if i == 0 else "last" if i == len(sc.chunk_ends) - 1 else "middle"
    return "last"


def truncations(sc, name, offsets):
    for t in offsets:
        inputs = dict(sc.inputs)
        inputs[name] = sc.inputs[name][:t]
        yield dict(kind="truncate", desc=f"{name} truncated at byte {t}", inputs=inputs, where=which_chunk(sc, max(t - 1, 0)), key=f"{sc.name}:trunc:{name}:{t}")


def record_faults(sc, recs_by_name):
    """single-record corruptions at the first / a middle / the last record"""
    n = len(next(iter(recs_by_name.values())))
    for name, recs in recs_by_name.items():
        for pos, i in (("first", 0), ("middle", n // 2), ("last", n - 1)):
            nm, s, q = recs[i]
            variants = {
                "short-quality": (nm, s, q[:-2]),
                "long-quality": (nm, s, q + "II"),
                "no-plus": None,
                "empty-name-line": None,
            }
            for vk, rec in variants.items():
                lst = list(recs)
                if rec is not None:
                    lst[i] = rec
                    text = clirun.fastq(lst)
                elif vk == "no-plus":
                    text = clirun.fastq(lst[:i]) + f"@{nm}\n{s}\n{q}\n" + clirun.fastq(lst[i + 1:])
                else:
                    text = clirun.fastq(lst[:i]) + f"{nm}\n{s}\n+\n{q}\n" + clirun.fastq(lst[i + 1:])
                inputs = dict(sc.inputs)
                inputs[name] = text
                yield dict(kind=vk, desc=f"{vk} at {pos} record of {name}", inputs=inputs, where=pos, key=f"{sc.name}:{vk}:{name}:{i}")


def pair_faults(sc, p1, p2):
    n = len(p1)
    for pos, i in (("first", 0), ("middle", n // 2), ("last", n - 1)):
        # a record missing in R2 / in R1
        for name, recs in (("in2.fastq", p2), ("in1.fastq", p1)):
            inputs = dict(sc.inputs)
            inputs[name] = clirun.fastq(recs[:i] + recs[i + 1:])
            yield dict(kind="missing-mate", desc=f"{pos} record missing in {name}", inputs=inputs, where=pos, key=f"paired:missing:{name}:{i}")
        lst = list(p2)
        lst[i] = ("x" + lst[i][0], lst[i][1], lst[i][2])
        inputs = dict(sc.inputs)
        inputs["in2.fastq"] = clirun.fastq(lst)
        yield dict(kind="mate-name", desc=f"name of the {pos} R2 record does not match", inputs=inputs, where=pos, key=f"paired:name:{i}")
    for k in (1, n // 2, n - 1):
        inputs = dict(sc.inputs)
        inputs["in2.fastq"] = clirun.fastq(p2[:k])
        yield dict(kind="short-r2", desc=f"R2 has only {k} of {n} records", inputs=inputs, where="-", key=f"paired:short-r2:{k}")
        inputs = dict(sc.inputs)
        inputs["in1.fastq"] = clirun.fastq(p1[:k])
        yield dict(kind="short-r1", desc=f"R1 has only {k} of {n} records", inputs=inputs, where="-", key=f"paired:short-r1:{k}")


def gz_faults(sc, offsets=None, n=8, rng=None):
    """the gzip-compressed input truncated at byte offsets of the *compressed* file"""
    name = sc.names[0]
    comp = gzip.compress(sc.inputs[name].encode(), mtime=0)
    offs = offsets if offsets is not None else sorted(rng.sample(range(1, len(comp)), n))
    for t in offs:
        inputs = {k + ".gz": gzip.compress(v.encode(), mtime=0) for k, v in sc.inputs.items()}
        inputs[name + ".gz"] = comp[:t]
        yield dict(kind="gzip-truncate", desc=f"{name}.gz truncated at byte {t} of {len(comp)}", inputs=inputs, where="-", key=f"{sc.name}:gz:{t}", gz=True)


def format_faults(sc):
    name = sc.names[0]
    for bad in ("Xr00\nACGT\n+\nIIII\n", "\n" + sc.inputs[name], "BAM\x01garbage"):
        inputs = dict(sc.inputs)
        inputs[name] = bad
        yield dict(kind="unknown-format", desc=f"{name} starts with {bad[:4]!r}", inputs=inputs, where="-", key=f"{sc.name}:fmt:{bad[:4]!r}")


def argv_for(sc, fault):
    if fault.get("gz"):
        return ["--buffer-size", str(sc.bufsize)] + sc.argv + ["{dir}/" + n + ".gz" for n in sc.names], [n + ".gz" for n in sc.names]
    return sc.full_argv, sc.names


# ------------------------------------------------------------------------------------------------
# oracles

def fastq_complete(b):
    if not b:
        return True
    if not b.endswith(b"\n"):
        return False
    lines = b.split(b"\n")[:-1]
    if len(lines) % 4:
        return False
    for i in range(0, len(lines), 4):
        if not lines[i].startswith(b"@") or not lines[i + 2].startswith(b"+") or len(lines[i + 1]) != len(lines[i + 3]):
            return False
    return True


def check_files(ctx, sc, files, inp, who):
    """complete records + prefix of the good run"""
    ok = True
    for name, good in sc.good.files.items():
        got = files.get(name, b"")
        complete = fastq_complete(got) if name.endswith(".fastq") else (not got or got.endswith(b"\n"))
        if not complete:
            ctx.failures.append(Failure("C12/partial-record-written", f"{who}: {name} ends in an incomplete record", inp, got[-200:].decode("latin-1"), None))
            ok = False
        if not good.startswith(got):
            ctx.failures.append(Failure("C12/not-a-prefix", f"{who}: {name} is not a prefix of the output for the good input", inp,
                                        got[:300].decode("latin-1"), good[:300].decode("latin-1")))
            ok = False
    for name in files:
        if name not in sc.good.files:
            ctx.failures.append(Failure("C12/not-a-prefix", f"{who}: unexpected output file {name}", inp, name, sorted(sc.good.files)))
            ok = False
    return ok


def verdict(ctx, sc, serial, status, message, files, inp, who):
    """`serial` = the -j 1 run of the same faulty input (dnaio's verdict)"""
    if serial.status != 0:
        if status == 0:
            ctx.failures.append(Failure("C12/exit0-on-malformed", f"{who}: exit status 0 although -j 1 fails on this input", inp,
                                        dict(status=status), dict(serial_status=serial.status, serial_error=(serial.stderr or serial.exc or "")[-200:])))
        elif not message.strip():
            ctx.failures.append(Failure("C12/exit0-on-malformed", f"{who}: non-zero exit status but no error message", inp, dict(status=status), None))
    else:
        if status != 0:
            ctx.failures.append(Failure("C12/status-differs-between-cores", f"{who}: fails although -j 1 succeeds on this input", inp,
                                        dict(status=status, message=message[-300:]), dict(serial_status=0)))
        elif files != serial.files:
            ctx.failures.append(Failure("C12/not-a-prefix", f"{who}: exit status 0 but the output differs from the -j 1 output", inp,
                                        sorted(n for n in set(files) | set(serial.files) if files.get(n) != serial.files.get(n)), None))
    check_files(ctx, sc, files, inp, who)


def run_serial(ctx, sc, fault):
    argv, names = argv_for(sc, fault)
    serial = clirun.run_cli(argv, fault["inputs"], want_json=False, cores=1)
    inp = dict(kind="serial", scenario=sc.name, fault=fault["desc"], argv=argv, inputs=jsonable(fault["inputs"]), cores=1)
    if serial.status != 0 and not (serial.stderr.strip() or serial.exc):
        ctx.failures.append(Failure("C12/exit0-on-malformed", "-j 1: non-zero exit status but no error message", inp, dict(status=serial.status), None))
    check_files(ctx, sc, serial.files, inp, "-j 1")
    ctx.count("serial-verdict:" + ("malformed" if serial.status != 0 else "well-formed"))
    if serial.status == -1:
        ctx.count("serial:uncaught-" + (serial.exc or "?").split(":")[0])
    return serial, argv, names


def jsonable(inputs):
    return {k: (v if isinstance(v, str) else {"hex": v.hex()}) for k, v in inputs.items()}


def unjson(inputs):
    return {k: (v if isinstance(v, str) else bytes.fromhex(v["hex"])) for k, v in inputs.items()}


def sim_fault(ctx, batch, sc, fault, serial, argv, names, chunks, cores, chooser, fine):
    nchunks, rf = chunks
    r = fakemp.run_sim(argv, fault["inputs"], cores, chooser, fine=fine)
    if r.pruned:
        return r, None
    inp = dict(kind="sim", scenario=sc.name, fault=fault["desc"], argv=argv, inputs=jsonable(fault["inputs"]), cores=cores,
               buffer_size=sc.bufsize, fine=fine, choices=[c for c, _, _ in r.choices])
    if r.deadlock is not None:
        ctx.failures.append(Failure("C12/hang", "no process can move and the main process has not finished", inp, r.deadlock, None))
        return r, None
    if r.task_errors or r.protocol_errors or r.leaked_threads:
        ctx.notes.append(f"simulation anomaly: task_errors={r.task_errors} protocol={r.protocol_errors} leaked={r.leaked_threads} fault={fault['desc']}")
    ev = T.evaluate(r, cores, nchunks, rf)
    who = f"-j {cores} (simulated)"
    verdict(ctx, sc, serial, r.status, r.stderr + (r.exc or ""), r.files, inp, who)
    if ev.handshake:
        ctx.count("handshake-fault")
        return r, ev
    batch.add(ev.line, ev.impl, inp)
    if ev.not_prefix:
        ctx.failures.append(Failure("C12/not-a-prefix", f"{who}: files {ev.not_prefix} are not the concatenation of the first chunks the workers sent", inp, None, None))
    m = ev.m
    outcome = "ok" if r.status == 0 else "failed"
    cause = "reader-fault" if m.reader_fault else "worker-fault" if m.faults else "no-fault"
    ctx.count(f"sim:{outcome}:{cause}")
    ctx.count(f"sim:workers:{cores}")
    if r.status == -1:
        ctx.count("sim:uncaught-exception-traceback:" + (r.exc or "?").split(":")[0])
    if r.status != 0:
        ctx.count(f"sim:written-chunks-before-failure:{min(ev.k, 3)}{'+' if ev.k >= 3 else ''}")
        ctx.nontriv(hashlib.sha1((f"{cores} {ev.line}").encode()).hexdigest()[:16])
    return r, ev


_sampled = set()


def simulate(ctx, sc, faults, schedules, workers=(2, 3)):
    rng = ctx.rng
    batch = C6.Batch(ctx)
    for fault in faults:
        serial, argv, names = run_serial(ctx, sc, fault)
        chunks = T.count_chunks(fault["inputs"], names, sc.bufsize)[:2]
        ctx.count(f"fault:{fault['kind']}")
        if fault["where"] != "-":
            ctx.count(f"fault-position:{fault['where']}-chunk")
        for cores in workers:
            for _ in range(schedules):
                fine = rng.random() < 0.8
                r, ev = sim_fault(ctx, batch, sc, fault, serial, argv, names, chunks, cores, fakemp.RandomChooser(rng.getrandbits(32)), fine)
        if ev is not None and not ev.handshake and r.status != 0 and (sc.name, fault["kind"]) not in _sampled:
            _sampled.add((sc.name, fault["kind"]))
            ctx.sample(dict(scenario=sc.name, fault=fault["desc"], error=(r.stderr.strip().splitlines() or [r.exc])[-1][:160], trace=ev.line), cap=8)
    return batch.flush()


def systematic(ctx, sc, fault, workers, budget_s):
    serial, argv, names = run_serial(ctx, sc, fault)
    chunks = T.count_chunks(fault["inputs"], names, sc.bufsize)[:2]
    batch = C6.Batch(ctx)
    distinct, n, pruned = set(), 0, 0

    def one(ch):
        return sim_fault(ctx, batch, sc, fault, serial, argv, names, chunks, workers, ch, "por")

    for ch, (r, ev) in fakemp.dfs(one, budget_s=budget_s):
        if r.pruned:
            pruned += 1
            continue
        n += 1
        if ev is not None:
            distinct.add(ev.line)
        if len(batch.cases) >= 4000:
            batch.flush()
    batch.flush()
    st = fakemp.dfs.state
    ctx.notes.append(f"systematic exploration with fault ({fault['desc']}; {workers} workers, {chunks[0]} chunks{', chunker raises' if chunks[1] else ''}): "
                     f"{n} complete schedules ({pruned} abandoned as equivalent), {len(distinct)} distinct model traces, "
                     f"{'tree exhausted' if st['exhausted'] else 'time budget ' + str(budget_s) + ' s reached'}")
    ctx.distribution[f"dfs:{fault['kind']}:{workers}w:schedules"] = n
    ctx.distribution[f"dfs:{fault['kind']}:{workers}w:distinct-traces"] = len(distinct)


# ------------------------------------------------------------------------------------------------
# real processes under a wall-clock bound

def run_process(argv, inputs, cores, timeout=REAL_TIMEOUT):
    """`python -m cutadapt` (scratch build via PYTHONPATH) in its own process group; returns (status | 'timeout', stderr, files)"""
    d = tempfile.mkdtemp(prefix="cv-c12-", dir="/var/tmp")
    try:
        for name, content in inputs.items():
            with open(os.path.join(d, name), "wb" if isinstance(content, bytes) else "w") as f:
                f.write(content)
        real = ["-j", str(cores)] + [a.replace("{dir}", d) for a in argv]
        p = subprocess.Popen([sys.executable, "-m", "cutadapt"] + real, stdin=subprocess.DEVNULL, stdout=subprocess.PIPE, stderr=subprocess.PIPE,
                             start_new_session=True, env=os.environ.copy())
        try:
            out, err = p.communicate(timeout=timeout)
            status = p.returncode
        except subprocess.TimeoutExpired:
            status = "timeout"
            err = b""
        finally:
            try:
                os.killpg(p.pid, signal.SIGKILL)   # workers / reader left behind
            except (ProcessLookupError, PermissionError):
                pass
            if status == "timeout":
                p.wait()
        files = {}
        for fn in sorted(os.listdir(d)):
            if fn not in inputs:
                with open(os.path.join(d, fn), "rb") as f:
                    files[fn] = f.read()
        return status, err.decode("latin-1"), files
    finally:
        shutil.rmtree(d, ignore_errors=True)


class _Res:
    pass


def real_faults(ctx, jobs, parallel):
    """jobs: list of (scenario, fault). Each is run with -j 1 (the verdict) and -j 2 / -j 3 in child processes."""
    def work(job):
        sc, fault, cores_list = job
        argv, _ = argv_for(sc, fault)
        return [(c, run_process(argv, fault["inputs"], c)) for c in [1] + cores_list]

    t0 = time.time()
    with ThreadPoolExecutor(parallel) as ex:
        results = list(ex.map(work, jobs))
    n = 0
    for (sc, fault, cores_list), runs in zip(jobs, results):
        argv, _ = argv_for(sc, fault)
        serial = None
        for cores, (status, err, files) in runs:
            n += 1
            ctx.evaluations += 1
            inp = dict(kind="real", scenario=sc.name, fault=fault["desc"], argv=argv, inputs=jsonable(fault["inputs"]), cores=cores)
            who = f"-j {cores} (real processes)"
            if status == "timeout":
                ctx.failures.append(Failure("C12/hang", f"{who}: no exit within {REAL_TIMEOUT} s", inp, "timeout", None))
                continue
            if cores == 1:
                serial = _Res()
                serial.status, serial.stderr, serial.exc, serial.files = status, err, None, files
                if status != 0 and not err.strip():
                    ctx.failures.append(Failure("C12/exit0-on-malformed", "-j 1: non-zero exit status but no error message", inp, status, None))
                check_files(ctx, sc, files, inp, who)
            elif serial is not None:
                verdict(ctx, sc, serial, status, err, files, inp, who)
            ctx.count(f"real:{fault['kind']}:cores:{cores}:" + ("fails" if status != 0 else "ok"))
            if status != 0:
                ctx.nontriv(f"real:{fault['key']}:{cores}")
    ctx.notes.append(f"real-process fault runs: {n} in {time.time() - t0:.1f}s")


def big_input_faults(ctx):
    """a fault early in an input of many chunks whose workers each produce more output than a pipe holds (64 KiB): the other workers are still
    sending when the error arrives - the run must end with an error all the same, and promptly"""
    rng = ctx.rng
    recs = []
    for i in range(5000):
        s_ = pipe.rs(rng, 100)
        recs.append((f"read{i}", s_, "I" * len(s_)))
    good = clirun.fastq(recs)
    jobs = []
    for where in ([3, 2500] if ctx.tier != "thorough" else [3, 40, 1200, 2500, 4990]):
        bad = list(recs)
        n_, s_, q_ = bad[where]
        bad[where] = (n_, s_, q_[:-7])           # quality line shorter than the sequence
        text = clirun.fastq(bad)
        for cores in ([2, 3] if ctx.tier != "thorough" else [2, 3, 4]):
            jobs.append((where, cores, text))
    def work(job):
        where, cores, text = job
        return job, run_process(["--buffer-size", "120000", "-o", "{dir}/out.fastq", "{dir}/in.fastq"], {"in.fastq": text}, cores, timeout=REAL_TIMEOUT)
    with ThreadPoolExecutor(4) as ex:
        results = list(ex.map(work, jobs))
    for (where, cores, text), (status, err, files) in results:
        ctx.evaluations += 1
        ctx.count("real:big-input-fault-runs")
        inp = dict(kind="real-big", reads=len(recs), read_length=100, buffer_size=120000, faulty_record=where, fault="quality line 7 characters short", cores=cores)
        if status == "timeout":
            ctx.failures.append(Failure("C12/hang", f"-j {cores} (real processes), {len(recs)} reads in many chunks, fault in record {where}: no exit within {REAL_TIMEOUT} s",
                                        inp, "timeout", None))
        elif status == 0:
            ctx.failures.append(Failure("C12/exit0-on-malformed", f"-j {cores}: exit status 0 although record {where} is malformed", inp, 0, "non-zero"))
        elif not err.strip():
            ctx.failures.append(Failure("C12/exit0-on-malformed", f"-j {cores}: non-zero exit status but no error message", inp, status, None))
        else:
            ctx.nontriv(f"real-big:{where}:{cores}")
    # the well-formed file must pass with the same settings
    status, err, files = run_process(["--buffer-size", "120000", "-o", "{dir}/out.fastq", "{dir}/in.fastq"], {"in.fastq": good}, 3)
    ctx.evaluations += 1
    if status != 0 or files.get("out.fastq", b"").count(b"\n") != 4 * len(recs):
        ctx.failures.append(Failure("C12/well-formed-run-failed", "the well-formed big input does not pass with several cores",
                                    dict(kind="real-big", reads=len(recs)), status, 0))


# ------------------------------------------------------------------------------------------------

def run(ctx):
    pipe.patch_prefilter()
    rng = ctx.rng
    thorough = ctx.tier == "thorough"
    ctx.rule = ("three fixed command lines (single-end; single-end with --info-file and a redirect file; paired two-file) on a 10-record FASTQ in 3-6 chunks x faults "
                "(truncation at byte offsets, short/long quality line, missing '+', missing '@', missing mate, short R1/R2, mate-name mismatch, truncated gzip, "
                "unknown format) x -j 1, simulated -j 2/3 under random (thorough: also systematic) schedules, and real processes under a wall-clock bound; "
                "non-trivial = distinct (workers, fault, action trace) ending in failure, or a failing real run")
    scs, (r1, p1, p2) = scenarios()
    single, info, paired = scs["single"], scs["info"], scs["paired"]
    sched = ctx.scale(2, 4)

    # truncation of the plain single-end input
    text = single.inputs["in.fastq"]
    spans = record_spans(text)
    if thorough:
        offs = list(range(0, len(text) + 1))
    else:
        offs = sorted({o for i in (0, len(spans) // 2, len(spans) - 1) for o in range(spans[i][0], spans[i][1] + 1)} | {0, 1, 2, 3, len(text) - 1, len(text)})
    simulate(ctx, single, truncations(single, "in.fastq", offs), sched)
    simulate(ctx, single, record_faults(single, {"in.fastq": r1}), sched)
    simulate(ctx, single, format_faults(single), 1)
    offs = list(range(1, len(text))) if thorough else sorted(rng.sample(range(1, len(text)), 40))
    simulate(ctx, info, truncations(info, "in.fastq", offs), sched)
    simulate(ctx, info, record_faults(info, {"in.fastq": r1}), 1)

    # paired
    for name in ("in1.fastq", "in2.fastq"):
        t = paired.inputs[name]
        offs = list(range(0, len(t) + 1)) if thorough else sorted(rng.sample(range(0, len(t) + 1), 30))
        simulate(ctx, paired, truncations(paired, name, offs), sched)
    simulate(ctx, paired, pair_faults(paired, p1, p2), sched)
    simulate(ctx, paired, record_faults(paired, {"in1.fastq": p1, "in2.fastq": p2}), 1)

    # truncated gzip in the simulator (the reader raises in the middle of chunking)
    clen = len(gzip.compress(text.encode(), mtime=0))
    simulate(ctx, single, gz_faults(single, offsets=(list(range(1, clen)) if thorough else None), n=16, rng=rng), sched)
    simulate(ctx, paired, gz_faults(paired, n=ctx.scale(8, 60), rng=rng), sched)
    simulate(ctx, scs["gzbig"], gz_faults(scs["gzbig"], n=ctx.scale(6, 80), rng=rng), sched)

    # systematic exploration with a fault
    mid = spans[len(spans) // 2]
    f_mid = next(truncations(single, "in.fastq", [mid[0] + 30]))
    systematic(ctx, single, f_mid, 2, ctx.scale(4, 90))
    if thorough:
        systematic(ctx, single, f_mid, 3, 60)
        f_r = [f for f in pair_faults(paired, p1, p2) if f["kind"] == "short-r2"][1]
        systematic(ctx, paired, f_r, 2, 60)
        big = scs["gzbig"]
        blen = len(gzip.compress(big.inputs["in.fastq"].encode(), mtime=0))
        systematic(ctx, big, list(gz_faults(big, offsets=[blen // 2]))[0], 2, 60)

    # real processes
    jobs = []
    if thorough:
        for t in range(0, len(text) + 1):
            jobs.append((single, next(truncations(single, "in.fastq", [t])), [2, 3]))
        for f in gz_faults(single, offsets=list(range(1, clen))):
            jobs.append((single, f, [2, 3]))
        for f in list(record_faults(single, {"in.fastq": r1})) + list(format_faults(single)):
            jobs.append((single, f, [2, 3]))
        for f in list(pair_faults(paired, p1, p2)) + list(gz_faults(paired, n=30, rng=rng)):
            jobs.append((paired, f, [2, 3]))
        for f in gz_faults(scs["gzbig"], n=40, rng=rng):
            jobs.append((scs["gzbig"], f, [2, 3]))
    else:
        jobs.append((scs["gzbig"], list(gz_faults(scs["gzbig"], n=1, rng=rng))[0], [2]))
        picks = [spans[0][0] + 20, mid[0] + 30, spans[-1][0] + 10, len(text) - 1]
        for t in picks:
            jobs.append((single, next(truncations(single, "in.fastq", [t])), [2]))
        for f in gz_faults(single, n=3, rng=rng):
            jobs.append((single, f, [2]))
        jobs.append((paired, [f for f in pair_faults(paired, p1, p2) if f["kind"] == "missing-mate"][2], [3]))
        jobs.append((single, [f for f in record_faults(single, {"in.fastq": r1}) if f["kind"] == "short-quality"][1], [3]))
    real_faults(ctx, jobs, parallel=8)
    big_input_faults(ctx)


def extended_search(ctx):
    scs, (r1, p1, p2) = scenarios()
    text = scs["single"].inputs["in.fastq"]
    simulate(ctx, scs["single"], truncations(scs["single"], "in.fastq", list(range(0, len(text) + 1))), 6)
    simulate(ctx, scs["paired"], pair_faults(scs["paired"], p1, p2), 10)


def replay(ctx, rp):
    pipe.patch_prefilter()
    fl = rp.get("failure") or {}
    inp = fl.get("input") or {}
    kind = inp.get("kind")
    if kind not in ("sim", "real", "serial"):
        diffs = rp.get("correspondence_diffs") or []
        if diffs:
            from core import run_driver
            out = run_driver([diffs[0]["line"]])[0]
            print("model on the recorded trace:", out, "| implementation:", diffs[0]["impl"])
            return 1 if out != diffs[0]["impl"] else 0
        print("nothing to replay; re-run the check")
        return 2
    scs, _ = scenarios()
    sc = scs[inp["scenario"]]
    inputs = unjson(inp["inputs"])
    fault = dict(desc=inp["fault"], inputs=inputs, kind="replay", where="-", key="replay", gz=any(n.endswith(".gz") for n in inputs))
    serial, argv, names = run_serial(ctx, sc, fault)
    if kind == "sim":
        batch = C6.Batch(ctx)
        chunks = T.count_chunks(inputs, names, sc.bufsize)[:2]
        r, ev = sim_fault(ctx, batch, sc, fault, serial, argv, names, chunks, inp["cores"], fakemp.ScriptChooser(inp["choices"]), inp.get("fine", True))
        batch.flush()
        print("status:", r.status, "deadlock:", r.deadlock, "trace:", ev.line if ev else None)
    elif kind == "real":
        real_faults(ctx, [(sc, fault, [inp["cores"]] if inp["cores"] > 1 else [])], parallel=1)
    print("serial status:", serial.status, "| oracle failures:", [f.signature for f in ctx.failures], "| model differences:", len(ctx.diffs))
    return 1 if ctx.failures or ctx.diffs else 0
