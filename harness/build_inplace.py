"""Build the four Cython extensions of a cutadapt checkout *in place* (into <worktree>/src/cutadapt), so that
`PYTHONPATH=<worktree>/src` runs that tree (tests, demonstrations).  Usage: build_inplace.py <worktree>"""
import os
import subprocess
import sys
import sysconfig
from concurrent.futures import ThreadPoolExecutor

PYX = ["_align", "qualtrim", "info", "_kmer_finder"]


def compile_one(pkg, mod):
    pyx = os.path.join(pkg, mod + ".pyx")
    c = os.path.join(pkg, mod + ".c")
    so = os.path.join(pkg, mod + sysconfig.get_config_var("EXT_SUFFIX"))
    cy = os.path.join(os.path.dirname(sys.executable), "cython")
    r = subprocess.run([cy, "-3", pyx, "-o", c], capture_output=True, text=True)
    if r.returncode != 0:
        return f"cython {mod}: {r.stderr[-3000:]}"
    inc = sysconfig.get_paths()["include"]
    r = subprocess.run(["gcc", "-O1", "-fPIC", "-shared", "-fwrapv", "-w", "-I", inc, "-I", pkg, c, "-o", so + ".tmp"],
                       capture_output=True, text=True)
    if r.returncode != 0:
        return f"gcc {mod}: {r.stderr[-3000:]}"
    os.replace(so + ".tmp", so)
    os.unlink(c)
    return None


def main():
    wt = sys.argv[1]
    pkg = os.path.join(wt, "src", "cutadapt")
    ver = os.path.join(pkg, "_version.py")
    if not os.path.exists(ver):
        with open(ver, "w") as f:
            f.write("version = __version__ = '0+verif'\nversion_tuple = __version_tuple__ = (0,)\ncommit_id = __commit_id__ = None\n")
    with ThreadPoolExecutor(4) as ex:
        errs = [e for e in ex.map(lambda m: compile_one(pkg, m), PYX) if e]
    if errs:
        print("BUILD-ERROR\n" + "\n".join(errs))
        return 2
    print("built", pkg)
    return 0


if __name__ == "__main__":
    sys.exit(main())
