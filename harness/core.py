"""Core of the check: build, translators, Lean build + audit, driver, verdict, evidence.

Exit codes: 0 held / 1 violation / 2 infrastructure failure.
"""
import fcntl
import hashlib
import importlib
import json
import os
import random
import re
import shutil
import subprocess
import sys
import time
import traceback

VERIF = os.path.dirname(os.path.dirname(os.path.abspath(__file__)))
LEAN = os.path.join(VERIF, "lean")
DRIVER = os.path.join(LEAN, ".lake", "build", "bin", "driver")
ALLOWED_AXIOMS = {"propext", "Classical.choice", "Quot.sound"}
FORBIDDEN = re.compile(r"\b(sorry|admit|native_decide|bv_decide|implemented_by|unsafe)\b|^\s*axiom\s|maxHeartbeats\s+0\b")

sys.path.insert(0, os.path.join(VERIF, "harness"))
import build as buildmod  # noqa: E402


class Infra(Exception):
    pass


class Failure:
    """One concrete input on which the *property* fails on the implementation (found by an oracle)."""

    def __init__(self, signature, what, input, got=None, expected=None, extra=None):
        self.signature = signature  # e.g. "C08/index-rstart-negative"
        self.what = what
        self.input = input
        self.got = got
        self.expected = expected
        self.extra = extra or {}

    def to_json(self):
        return dict(signature=self.signature, what=self.what, input=self.input, got=self.got,
                    expected=self.expected, **self.extra)


class Diff:
    """One input on which model and implementation differ (correspondence)."""

    def __init__(self, op, line, impl, model):
        self.op, self.line, self.impl, self.model = op, line, impl, model

    def to_json(self):
        return dict(op=self.op, line=self.line, impl=self.impl, model=self.model)


class Ctx:
    def __init__(self, prop, tier, seed):
        self.prop = prop
        self.tier = tier
        self.seed = seed
        self.rng = random.Random(seed * 1000003 + int(prop[1:]))
        self.t0 = time.time()
        self.build_dir = None
        self.evaluations = 0
        self.nontrivial = set()
        self.samples = []
        self.distribution = {}
        self.diffs = []
        self.failures = []
        self.notes = []
        self.exhaustive = False
        self.rule = ""
        self.corr_ops = {}
        self.traces_validated = 0

    def scale(self, quick, thorough):
        return thorough if self.tier == "thorough" else quick

    def count(self, key, n=1):
        self.distribution[key] = self.distribution.get(key, 0) + n

    def nontriv(self, key):
        self.nontrivial.add(key if isinstance(key, (str, int, tuple)) else json.dumps(key, sort_keys=True))

    def sample(self, s, cap=8):
        if len(self.samples) < cap:
            self.samples.append(s)

    def elapsed(self):
        return time.time() - self.t0


# ------------------------------------------------------------------------------------------------
# build + translators

def build_tree(ctx):
    d = f"/var/tmp/cutadapt-verif-{os.getpid()}"
    try:
        buildmod.build(d)
    except buildmod.BuildError as e:
        raise Infra(f"working tree does not build: {e}")
    buildmod.activate(d)
    ctx.build_dir = d
    return d


def cleanup(ctx):
    if ctx.build_dir and os.path.isdir(ctx.build_dir):
        shutil.rmtree(ctx.build_dir, ignore_errors=True)


class LeanLock:
    def __enter__(self):
        self.f = open(os.path.join(LEAN, ".verif.lock"), "w")
        fcntl.flock(self.f, fcntl.LOCK_EX)
        return self

    def __exit__(self, *a):
        fcntl.flock(self.f, fcntl.LOCK_UN)
        self.f.close()


def write_if_changed(path, text):
    if os.path.exists(path):
        with open(path) as f:
            if f.read() == text:
                return False
    os.makedirs(os.path.dirname(path), exist_ok=True)
    with open(path, "w") as f:
        f.write(text)
    return True


def run_translators(ctx):
    """Regenerate lean/Cutadapt/Generated/*.lean from the scratch build of the working tree.
    Returns (hashes, errors): errors = list of translators that could not extract what they need."""
    sys.path.insert(0, os.path.join(VERIF, "gen"))
    hashes, errors = {}, []
    gen_dir = os.path.join(VERIF, "gen")
    for fn in sorted(os.listdir(gen_dir)):
        if not fn.startswith("gen_") or not fn.endswith(".py"):
            continue
        mod = importlib.import_module(fn[:-3])
        try:
            outname, text = mod.generate(ctx.build_dir)
            write_if_changed(os.path.join(LEAN, "Cutadapt", "Generated", outname), text)
            hashes[outname] = hashlib.sha256(text.encode()).hexdigest()[:12]
        except Exception as e:  # the code was restructured: tie broken
            out = getattr(mod, "OUTPUT", None)
            # a translator that cannot extract what it needs breaks the tie for the properties whose theorems use its output
            if out is None or out[:-5] in generated_imports(ctx.prop):
                errors.append(f"{fn}: {type(e).__name__}: {e}")
            else:
                ctx.notes.append(f"translator {fn} failed ({type(e).__name__}: {e}); its output {out} is not used by {ctx.prop}")
    return hashes, errors


def generated_imports(prop):
    """names X of the modules Cutadapt.Generated.X in the import closure of the property's theorem files"""
    import re
    roots = [f"Cutadapt.Properties.{prop}"] + list(extra_obligations(prop).keys())
    seen, todo, gen = set(), list(roots), set()
    while todo:
        m = todo.pop()
        if m in seen:
            continue
        seen.add(m)
        path = os.path.join(LEAN, *m.split(".")) + ".lean"
        if not os.path.exists(path):
            continue
        for imp in re.findall(r"^import\s+(Cutadapt\.[A-Za-z0-9_.]+)", open(path).read(), re.M):
            if imp.startswith("Cutadapt.Generated."):
                gen.add(imp.split(".")[-1])
            else:
                todo.append(imp)
    return gen


# ------------------------------------------------------------------------------------------------
# Lean: build, audit

def obligations_for(prop):
    with open(os.path.join(LEAN, "obligations.json")) as f:
        return json.load(f).get(prop, [])


def extra_obligations(prop):
    """theorems that belong to a property but live in a module that *imports* the property file (compositions of two properties),
    listed by hand in lean/obligations_extra.json: {"C07": {"Cutadapt.Proofs.KmerCompose": ["Cutadapt.C07.…"]}}"""
    p = os.path.join(LEAN, "obligations_extra.json")
    if not os.path.exists(p):
        return {}
    with open(p) as f:
        return json.load(f).get(prop, {})


def theorems_in(path):
    """Names of theorems declared in a property file (namespace-qualified)."""
    names, ns = [], []
    txt = strip_comments(open(path).read())
    for line in txt.splitlines():
        m = re.match(r"\s*namespace\s+(\S+)", line)
        if m:
            ns.append(m.group(1))
            continue
        m = re.match(r"\s*end\s+(\S+)", line)
        if m and ns and ns[-1] == m.group(1):
            ns.pop()
            continue
        m = re.match(r"\s*(?:@\[[^\]]*\]\s*)?(?:private\s+|protected\s+)?theorem\s+(\S+)", line)
        if m:
            names.append(".".join(ns + [m.group(1)]))
    return names


def strip_comments(txt):
    # remove /- ... -/ (nested) and -- ... comments
    out, i, depth = [], 0, 0
    while i < len(txt):
        if txt.startswith("/-", i):
            depth += 1
            i += 2
        elif txt.startswith("-/", i) and depth:
            depth -= 1
            i += 2
        elif depth:
            if txt[i] == "\n":
                out.append("\n")
            i += 1
        elif txt.startswith("--", i):
            while i < len(txt) and txt[i] != "\n":
                i += 1
        else:
            out.append(txt[i])
            i += 1
    return "".join(out)


def import_cone(prop):
    """files under lean/Cutadapt that the property module imports, transitively"""
    seen, todo = set(), [f"Cutadapt.Properties.{prop}"] + list(extra_obligations(prop))
    while todo:
        m = todo.pop()
        if m in seen:
            continue
        p = os.path.join(LEAN, *m.split(".")) + ".lean"
        if not os.path.exists(p):
            continue
        seen.add(m)
        for line in strip_comments(open(p).read()).splitlines():
            mm = re.match(r"\s*import\s+(Cutadapt\.\S+)", line)
            if mm:
                todo.append(mm.group(1))
    return [os.path.join(LEAN, *m.split(".")) + ".lean" for m in sorted(seen)]


def grep_forbidden(prop):
    hits = []
    for p in import_cone(prop):
        for n, line in enumerate(strip_comments(open(p).read()).splitlines(), 1):
            if FORBIDDEN.search(line):
                hits.append(f"{os.path.relpath(p, LEAN)}:{n}: {line.strip()[:120]}")
    return hits


def lake(args, timeout=3000):
    r = subprocess.run(["lake"] + args, cwd=LEAN, capture_output=True, text=True, timeout=timeout)
    return r.returncode, r.stdout + r.stderr


def lean_proofs(ctx, clean=False):
    """Build the property module and audit its theorems.
    Returns dict(obligations=[...], discharged=[...], broken=[...], log=str)."""
    prop = ctx.prop
    extra = extra_obligations(prop)
    obl = obligations_for(prop) + [t for ts in extra.values() for t in ts]
    res = dict(obligations=obl, discharged=[], broken=[], log="", forbidden=[], unlisted=[], axioms={})
    with LeanLock():
        if clean:
            for sub in ("Properties", "Proofs", "Audit"):
                shutil.rmtree(os.path.join(LEAN, ".lake", "build", "lib", "lean", "Cutadapt", sub), ignore_errors=True)
        lake(["build", "driver"])
        rc, out = lake(["build", f"Cutadapt.Properties.{prop}"] + list(extra))
        res["log"] = out[-6000:]
        build_ok = rc == 0
        res["build_ok"] = build_ok
        res["forbidden"] = grep_forbidden(prop)
        propfile = os.path.join(LEAN, "Cutadapt", "Properties", f"{prop}.lean")
        declared = theorems_in(propfile) if os.path.exists(propfile) else []
        res["unlisted"] = [t for t in declared if t not in obl]
        for mod in extra:   # every theorem of an extra module must be listed as well
            mp = os.path.join(LEAN, *mod.split(".")) + ".lean"
            if os.path.exists(mp):
                res["unlisted"] += [t for t in theorems_in(mp) if t not in obl]
        if build_ok:
            audit = "import Cutadapt.Properties.%s\n" % prop + "".join(f"import {m}\n" for m in extra) + "".join(f"#print axioms {t}\n" for t in obl)
            ap = os.path.join(LEAN, "Cutadapt", "Audit", f"{prop}.lean")
            write_if_changed(ap, audit)
            r = subprocess.run(["lake", "env", "lean", ap], cwd=LEAN, capture_output=True, text=True, timeout=1800)
            txt = r.stdout + r.stderr
            # "'name' depends on axioms: [a, b]"  |  "'name' does not depend on any axioms"
            for t in obl:
                m = re.search(r"'%s' depends on axioms: \[([^\]]*)\]" % re.escape(t), txt, re.S)
                if m:
                    ax = {a.strip() for a in m.group(1).replace("\n", " ").split(",") if a.strip()}
                    res["axioms"][t] = sorted(ax)
                    if ax <= ALLOWED_AXIOMS:
                        res["discharged"].append(t)
                    else:
                        res["broken"].append(f"{t}: axioms {sorted(ax - ALLOWED_AXIOMS)}")
                elif re.search(r"'%s' does not depend on any axioms" % re.escape(t), txt):
                    res["axioms"][t] = []
                    res["discharged"].append(t)
                else:
                    res["broken"].append(f"{t}: not found / does not compile")
            if ctx.tier == "thorough":
                rc2, out2 = lake(["env", "leanchecker", f"Cutadapt.Properties.{prop}"], timeout=3000)
                res["leanchecker"] = "ok" if rc2 == 0 else out2[-1500:]
                if rc2 != 0:
                    res["broken"].append("leanchecker rejected the property module")
        else:
            errs = re.findall(r"error: ([^\n]*(?:\n(?!error:|✖|⚠|ℹ|✔)[^\n]*){0,6})", out)
            res["broken"] = [f"{t}: build failed" for t in obl]
            res["build_errors"] = [e[:600] for e in errs[:8]]
        if res["forbidden"]:
            res["broken"].append("forbidden construct: " + "; ".join(res["forbidden"][:3]))
        if res["unlisted"]:
            res["broken"].append("theorems not listed in obligations.json: " + ", ".join(res["unlisted"]))
    return res


# ------------------------------------------------------------------------------------------------
# driver

def run_driver(lines, shards=None):
    """Pipe operation lines to the compiled Lean driver; returns list of output lines (same length)."""
    if not lines:
        return []
    if not os.path.exists(DRIVER):
        raise Infra("Lean driver is not built")
    nsh = shards or min(16, max(1, len(lines) // 2000))
    size = (len(lines) + nsh - 1) // nsh
    procs = []
    for i in range(nsh):
        chunk = lines[i * size:(i + 1) * size]
        if not chunk:
            continue
        p = subprocess.Popen([DRIVER], stdin=subprocess.PIPE, stdout=subprocess.PIPE, stderr=subprocess.PIPE, text=True)
        procs.append((p, chunk))
    # feed via threads to avoid pipe deadlock
    import threading
    outs = [None] * len(procs)

    def work(ix):
        p, chunk = procs[ix]
        o, e = p.communicate("\n".join(chunk) + "\n")
        outs[ix] = (o, e, p.returncode)

    ths = [threading.Thread(target=work, args=(i,)) for i in range(len(procs))]
    [t.start() for t in ths]
    [t.join() for t in ths]
    result = []
    for (p, chunk), (o, e, rc) in zip(procs, outs):
        got = o.split("\n")
        if got and got[-1] == "":
            got.pop()
        if len(got) != len(chunk):
            # driver crashed midway (e.g. stack overflow): pad with crash markers
            got = got + [f"driver-crash rc={rc} {e[:100]!r}"] * (len(chunk) - len(got))
        result.extend(got)
    return result


def correspond(ctx, op, cases):
    """cases: list of (line, impl_output_str). Runs the model and records differences."""
    lines = [c[0] for c in cases]
    outs = run_driver(lines)
    n = 0
    for (line, impl), model in zip(cases, outs):
        n += 1
        if impl != model:
            ctx.diffs.append(Diff(op, line, impl, model))
    ctx.corr_ops[op] = ctx.corr_ops.get(op, 0) + n
    ctx.evaluations += n
    return outs


# ------------------------------------------------------------------------------------------------
# known findings, verdict, evidence

def load_findings():
    p = os.path.join(VERIF, "known_findings.json")
    if not os.path.exists(p):
        return {"findings": [], "fixed": []}
    with open(p) as f:
        return json.load(f)


def hx(s):
    if isinstance(s, str):
        s = s.encode("latin-1")
    return s.hex() if s else "-"


def bits(x):
    import struct
    return struct.unpack("<Q", struct.pack("<d", float(x)))[0]


TRUSTED_BASE = [
    "Lean 4.33.0 kernel and elaborator; axioms limited to propext, Classical.choice, Quot.sound (audited by #print axioms in this run)",
    "translators in /verif/gen (tables and constants regenerated from the working tree)",
    "correspondence harness in /verif/harness (hand-written model vs implementation built from /repo's working tree)",
    "compiled Lean driver (Lean compiler + runtime, Float = IEEE binary64)",
    "modelled, not verified: dnaio, xopen, CPython, Cython translation, OS/multiprocessing (see DESIGN.md §8)",
]


def implementation_raised(ctx, e):
    """An exception that escaped from a call the check made into the implementation (innermost frame inside the built tree or a Cython module of it,
    not inside the harness): the implementation fails on a well-formed input - a finding of the check, not an infrastructure failure. Returns a
    Failure carrying the exception, the implementation frames and the small local values of the harness frame that made the call."""
    tb = e.__traceback__
    frames = []
    while tb is not None:
        frames.append(tb)
        tb = tb.tb_next
    def in_impl(t):
        fn = t.tb_frame.f_code.co_filename
        # (Cython frames carry the relative path of the .pyx file, e.g. "cutadapt/_align.pyx")
        return ("cutadapt" in fn or "dnaio" in fn) and not (os.path.isabs(fn) and fn.startswith(VERIF + os.sep))
    if not frames or not in_impl(frames[-1]):
        return None
    caller = next((t for t in reversed(frames) if not in_impl(t)), None)
    loc = {}
    if caller is not None:
        for k, v in caller.tb_frame.f_locals.items():
            if isinstance(v, (str, int, float, bool)) and len(str(v)) < 400:
                loc[k] = v
            elif isinstance(v, dict) and len(json.dumps(v, default=str)) < 600:
                loc[k] = json.loads(json.dumps(v, default=str))
    where = [f"{t.tb_frame.f_code.co_filename}:{t.tb_lineno} {t.tb_frame.f_code.co_name}" for t in frames if in_impl(t)][-4:]
    return Failure(f"{ctx.prop}/implementation-raised", "the implementation raised an unexpected exception on a well-formed input inside a call made by the check",
                   dict(locals_of_calling_frame=loc, implementation_frames=where), f"{type(e).__name__}: {e}", None)


def finish(ctx, proofs, gen_hashes, gen_errors, level="proof", extra_cov=None):
    findings = load_findings()
    known = {f["signature"]: f for f in findings.get("findings", []) if f.get("property") == ctx.prop}
    printed_known = {}
    new_failures = []
    for fl in ctx.failures:
        if fl.signature in known:
            printed_known.setdefault(fl.signature, fl)
        else:
            new_failures.append(fl)
    for sig, fl in printed_known.items():
        print(f"KNOWN-FINDING: property={ctx.prop} {sig}: {known[sig].get('description', fl.what)}")

    proof_broken = bool(proofs["broken"]) or bool(gen_errors)
    corr_broken = bool(ctx.diffs)
    replay = None
    status = 0
    os.makedirs(os.path.join(VERIF, "replays"), exist_ok=True)
    if new_failures:
        fl = new_failures[0]
        replay = os.path.join(VERIF, "replays", f"{ctx.prop}-{ctx.tier}-{ctx.seed}.json")
        with open(replay, "w") as f:
            json.dump(dict(property=ctx.prop, kind="implementation-violates-property", seed=ctx.seed,
                           failure=fl.to_json(), more_failures=[x.to_json() for x in new_failures[1:10]],
                           proofs_broken=proofs["broken"], translator_errors=gen_errors,
                           correspondence_diffs=[d.to_json() for d in ctx.diffs[:10]]), f, indent=1)
        print(f"VIOLATION property={ctx.prop} replay={replay}")
        status = 1
    elif proof_broken or corr_broken:
        replay = os.path.join(VERIF, "replays", f"{ctx.prop}-{ctx.tier}-{ctx.seed}.json")
        kind = "proof-broken" if proof_broken else "correspondence-differs"
        with open(replay, "w") as f:
            json.dump(dict(property=ctx.prop, kind=kind, seed=ctx.seed,
                           theorems_no_longer_checking=proofs["broken"], translator_errors=gen_errors,
                           build_errors=proofs.get("build_errors", []),
                           correspondence_diffs=[d.to_json() for d in ctx.diffs[:20]],
                           note="the extended search found no input on which the property itself fails"), f, indent=1)
        print(f"VIOLATION property={ctx.prop} replay={replay} no-failing-input-found")
        status = 1

    cov = dict(
        obligations=len(proofs["obligations"]),
        discharged=len(proofs["discharged"]),
        checker_cmd=f"cd /verif/lean && lake build Cutadapt.Properties.{ctx.prop} && lake env lean Cutadapt/Audit/{ctx.prop}.lean"
                    + (" && lake env leanchecker Cutadapt.Properties.%s" % ctx.prop if ctx.tier == "thorough" else ""),
        trusted_base=TRUSTED_BASE,
        theorems=proofs["obligations"],
        axioms=proofs.get("axioms", {}),
        broken=proofs["broken"],
        evaluations=ctx.evaluations,
        distinct_nontrivial=len(ctx.nontrivial),
        rule=ctx.rule,
        samples=ctx.samples[:8],
        correspondence_ops=ctx.corr_ops,
        correspondence_diffs=len(ctx.diffs),
        oracle_failures=len(ctx.failures),
        known_findings_printed=sorted(printed_known),
        input_distribution=ctx.distribution,
        generated_hashes=gen_hashes,
        translator_errors=gen_errors,
        exhaustive=ctx.exhaustive,
        tree_hash=buildmod.tree_hash(),
        notes=ctx.notes,
    )
    if ctx.traces_validated:
        cov["traces_validated_against_impl"] = ctx.traces_validated
    if "leanchecker" in proofs:
        cov["leanchecker"] = proofs["leanchecker"]
    if extra_cov:
        cov.update(extra_cov)
    ev = dict(property_id=ctx.prop, tier=ctx.tier, seed=ctx.seed, level=level, coverage=cov,
              assumptions=TRUSTED_BASE[2:], wall_s=round(ctx.elapsed(), 2), violations=len(new_failures) if new_failures else (1 if status else 0))
    # evidence describes runs against /repo itself; a run against another tree (VERIF_REPO=<scratch worktree with a seeded change>)
    # must not overwrite it
    evdir = os.path.join(VERIF, "evidence") if os.path.realpath(buildmod.REPO) == "/repo" else os.path.join(VERIF, "replays", "evidence-other-tree")
    os.makedirs(evdir, exist_ok=True)
    with open(os.path.join(evdir, f"{ctx.prop}.json"), "w") as f:
        json.dump(ev, f, indent=1, default=str)
    return status


def main(argv):
    if len(argv) < 2:
        print("usage: check <Cxx> quick|thorough | check <Cxx> --replay <file>")
        return 2
    prop = argv[0]
    replay_file = None
    if argv[1] == "--replay":
        replay_file = argv[2]
        tier = "quick"
    else:
        tier = argv[1]
    tier = os.environ.get("VERIF_TIER", tier) if argv[1] != "--replay" and False else tier
    seed = int(os.environ.get("VERIF_SEED", "1"))
    ctx = Ctx(prop, tier, seed)
    try:
        build_tree(ctx)
        with LeanLock():
            gen_hashes, gen_errors = run_translators(ctx)
        mod = importlib.import_module(f"props.{prop.lower()}")
        if replay_file:
            with open(replay_file) as f:
                rp = json.load(f)
            return mod.replay(ctx, rp)
        proofs = lean_proofs(ctx, clean=(tier == "thorough"))
        if proofs.get("build_ok") is False and not os.path.exists(DRIVER):
            raise Infra("lake build failed and no driver available:\n" + proofs["log"][-1500:])
        # corpus + correspondence + oracle sweep
        try:
            mod.run(ctx)
        except (Infra, subprocess.TimeoutExpired):
            raise
        except Exception as e:
            fl = implementation_raised(ctx, e)
            if fl is None:
                raise
            ctx.failures.append(fl)
            ctx.notes.append("the sweep was cut short by an exception raised inside the implementation (reported as a failure)")
        if (proofs["broken"] or gen_errors or ctx.diffs) and not [f for f in ctx.failures]:
            # extended failing-input search
            ctx.notes.append("extended search: proof or correspondence broken")
            if hasattr(mod, "extended_search"):
                mod.extended_search(ctx)
        return finish(ctx, proofs, gen_hashes, gen_errors, level=getattr(mod, "LEVEL", "proof"),
                      extra_cov=getattr(mod, "extra_coverage", lambda c: None)(ctx))
    except Infra as e:
        print("INFRASTRUCTURE-FAILURE:", e)
        return 2
    except subprocess.TimeoutExpired as e:
        print("TIMEOUT:", e)
        return 2
    except Exception:
        traceback.print_exc()
        return 2
    finally:
        cleanup(ctx)
