"""Evaluate one seeded change:  /venv/bin/python harness/seedtest.py <worktree-with-change-applied> <seed-id> <primary-property> [more properties…]

1. confirms in the worktree: the unedited test suite passes with the change, the demonstration fails with it and passes without it;
2. runs `./check <prop> quick` against the changed tree (VERIF_REPO=<worktree>: the checks build from that tree, /repo stays untouched — equivalent to
   `git -C /repo apply` + run + `git -C /repo checkout -- .`, but safe while other work uses /repo);
3. stores patch.diff, the demonstration and meta.json under /verif/seeded/<seed-id>/ .
"""
import json
import os
import shutil
import subprocess
import sys
import time

VERIF = os.path.dirname(os.path.dirname(os.path.abspath(__file__)))


def sh(cmd, cwd=None, env=None, timeout=3600):
    e = dict(os.environ)
    if env:
        e.update(env)
    r = subprocess.run(cmd, shell=True, cwd=cwd, env=e, capture_output=True, text=True, timeout=timeout)
    return r.returncode, (r.stdout + r.stderr)


def main():
    wt, sid, props = sys.argv[1], sys.argv[2], sys.argv[3:]
    out = os.path.join(wt, "seed_out")
    demo = "demo.py" if os.path.exists(os.path.join(out, "demo.py")) else "demo.sh"
    runner = "/venv/bin/python" if demo.endswith(".py") else "bash"
    env = {"PYTHONPATH": os.path.join(wt, "src")}
    meta = dict(id=sid, breaks=props[0], checked_with=props, worktree_head=sh("git rev-parse --short HEAD", wt)[1].strip(), ran=[])
    # the patch as the worktree has it now
    rc, diff = sh("git diff -- src", wt)
    if not diff.strip():
        print("no change in worktree")
        return 2
    # (a) with the change
    sh("/venv/bin/python " + os.path.join(VERIF, "harness", "build_inplace.py") + "  " + wt)
    rc, o = sh("/venv/bin/python -m pytest -q -p no:cacheprovider --timeout=900 2>&1 | tail -3", wt, env)
    meta["suite_with_change"] = o.strip().splitlines()[-1] if o.strip() else ""
    rc_with, o_with = sh(f"{runner} seed_out/{demo}", wt, env)
    meta["demo_with_change"] = dict(exit=rc_with, tail=o_with[-400:])
    # (b) without
    tmpdiff = os.path.join(out, "_tmp.diff")
    with open(tmpdiff, "w") as f:
        f.write(diff)
    # NOT `git stash`: the stash is shared between all worktrees of a repository
    sh("git apply -R " + tmpdiff, wt)
    sh("/venv/bin/python " + os.path.join(VERIF, "harness", "build_inplace.py") + "  " + wt)
    rc_without, o_without = sh(f"{runner} seed_out/{demo}", wt, env)
    meta["demo_without_change"] = dict(exit=rc_without, tail=o_without[-200:])
    sh("git apply " + tmpdiff, wt)
    sh("/venv/bin/python " + os.path.join(VERIF, "harness", "build_inplace.py") + "  " + wt)
    ok = ("696 passed" in meta["suite_with_change"]) and rc_with != 0 and rc_without == 0
    meta["confirmed"] = ok
    print("suite:", meta["suite_with_change"], "| demo with:", rc_with, "| demo without:", rc_without, "| confirmed:", ok)
    # (c) our checks against the changed tree
    results = {}
    # SEED_VERIF_COPY=1: run the checks in a private copy of /verif (as harness/alltree.sh does), so that work in /verif/lean can go on meanwhile
    rundir = VERIF
    if os.environ.get("SEED_VERIF_COPY"):
        rundir = f"/var/tmp/vcopy-seed-{os.getpid()}"
        sh(f"rm -rf {rundir}; mkdir -p {rundir}; rsync -a --exclude replays --exclude .git {VERIF}/ {rundir}/")
    for p in props:
        t = time.time()
        rc, o = sh(f"./check {p} quick", rundir, {"VERIF_REPO": wt}, timeout=3000)
        lines = [l for l in o.splitlines() if l.startswith(("VIOLATION", "KNOWN-FINDING", "INFRA", "TIMEOUT"))]
        replay = None
        for l in lines:
            if l.startswith("VIOLATION"):
                rp = l.split("replay=")[1].split()[0]
                try:
                    d = json.load(open(rp))
                    replay = dict(kind=d.get("kind"), signature=(d.get("failure") or {}).get("signature"),
                                  theorems=d.get("theorems_no_longer_checking"), ndiffs=len(d.get("correspondence_diffs") or []))
                except Exception:
                    pass
        results[p] = dict(exit=rc, seconds=round(time.time() - t, 1), lines=[l[:200] for l in lines if not l.startswith("KNOWN")], replay=replay)
        print(p, "->", results[p])
    if rundir != VERIF:
        shutil.rmtree(rundir, ignore_errors=True)
    meta["check_results"] = results
    meta["caught_by"] = [p for p, r in results.items() if r["exit"] == 1]
    d = os.path.join(VERIF, "seeded", sid)
    os.makedirs(d, exist_ok=True)
    with open(os.path.join(d, "patch.diff"), "w") as f:
        f.write(diff)
    shutil.copy(os.path.join(out, demo), os.path.join(d, demo))
    if os.path.exists(os.path.join(out, "notes.txt")):
        shutil.copy(os.path.join(out, "notes.txt"), os.path.join(d, "notes.txt"))
        meta["needs_to_manifest"] = open(os.path.join(out, "notes.txt")).read()[:1500]
    with open(os.path.join(d, "meta.json"), "w") as f:
        json.dump(meta, f, indent=1)
    return 0


if __name__ == "__main__":
    sys.exit(main())
