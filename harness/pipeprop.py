"""Shared driver for the pipeline-level properties: generate command lines with a focus, run real + model
(`pipe.run_cases`), apply a property-specific oracle to the real outcome."""
import json

import pipe
from core import Failure

COMP = str.maketrans("ACGTUMRWSYKVHDBNacgtumrwsykvhdbn", "TGCAAKYWSRMBDHVNtgcaakywsrmbdhvn")


def revcomp(s):
    return s.translate(COMP)[::-1]


def rid(name):
    return name.split()[0] if name.split() else name


def output_roles(case, real):
    """yield (filename, side, records) for every record file; interleaved files are split into sides 0/1"""
    paired = case["paired"]
    files = real.get("files", {})
    for fn, recs in files.items():
        base, ext = fn.rsplit(".", 1)
        if not paired:
            yield fn, 0, recs
        elif base.endswith("2"):
            yield fn, 1, recs
        else:
            partner = base[:-1] + "2." + ext
            if partner in files:
                yield fn, 0, recs
            else:  # interleaved writer
                yield fn, 0, recs[0::2]
                yield fn, 1, recs[1::2]


def crash_failures(ctx, prop, case, real):
    """a crash (unexpected exception) or exit status 1 on a well-formed input and a valid command line"""
    if "error" in real and real["error"] == "template":
        # `--rename` template that makes the ids of R1 and R2 differ: PairedEndRenamer refuses it (InvalidTemplate) - a user error
        ctx.count("rename-template-rejected-at-run-time")
        return True
    if "error" in real and real["error"] not in ("cmdline",):
        argv = case["argv"]
        linked = any("..." in t for t in argv)
        # documented as unsupported (doc/guide.rst, "Linked adapters do not work in combination with --info-file,
        # --action=mask and --action=crop"; steps.py: "TODO this fails with linked adapters" for rest/wildcard files)
        if linked and real["error"] == "attribute" and (("--action" in argv and argv[argv.index("--action") + 1] == "crop")
                                                         or "--rest-file" in argv or "--wildcard-file" in argv):
            ctx.count("documented-unsupported:linked+crop/rest/wildcard")
            return True
        sig = f"{prop}/crash-{real['error']}"
        ctx.failures.append(Failure(sig, f"cutadapt fails with {real['error']} on well-formed input",
                                    dict(argv=case["argv"], reads1=case["reads1"], reads2=case["reads2"]), real.get("error"), "normal exit"))
        return True
    return False


def run(ctx, prop, focus, oracle, n_quick, n_thorough, rule, nontrivial=None, want_json=False, cases=None, post=None):
    ctx.rule = rule
    n = ctx.scale(n_quick, n_thorough)
    if cases is None:
        cases = [pipe.gen_case(ctx.rng, focus) for _ in range(n)]
    results = pipe.run_cases(ctx, cases)
    for case, res, real, model in results:
        ctx.count("outcome:" + real.get("error", "ok"))
        for tok in case["argv"]:
            if tok.startswith("--") and "{" not in tok:
                ctx.count("opt:" + tok)
        if "error" not in real and (nontrivial is None or nontrivial(case, real)):
            ctx.nontriv(json.dumps([case["argv"], case["reads1"]]))
        oracle(ctx, case, res, real)
        repeat_oracle(ctx, case, real)
    for case, res, real, model in results[:3]:
        ctx.sample(dict(argv=case["argv"], reads=len(case["reads1"]), outcome=real.get("error", "ok")))
    if post:
        post(ctx, results)
    return results


def indexed_case(rng, extra=()):
    """A command line on which cutadapt builds its adapter *index* (default mode, no --no-index): 2-5 anchored 5' or 3' adapters
    without wildcards on one side (lengths 6-14, equal or mixed; some ;noindels, some with their own ;e=), reads that begin/end with a
    copy of one adapter (0-2 edits, sometimes an N inside the copy, sometimes a read shorter than the adapter).
    `extra`: option tokens appended (action, times, info file, ...)."""
    k = rng.randint(2, 5)
    front = rng.random() < 0.6
    equal = rng.random() < 0.5
    base_len = rng.randint(6, 12)
    seqs = []
    while len(seqs) < k:
        ln = base_len if equal else rng.randint(6, 14)
        if seqs and rng.random() < 0.3:   # a near-duplicate of an earlier adapter
            t = list(rng.choice(seqs))
            i = rng.randrange(len(t))
            t[i] = rng.choice([c for c in "ACGT" if c != t[i]])
            t = "".join(t)
        else:
            t = "".join(rng.choice("ACGT") for _ in range(ln))
        if t not in seqs:
            seqs.append(t)
    glob_noindels = rng.random() < 0.3
    argv = []
    for i, t in enumerate(seqs):
        par = ""
        if rng.random() < 0.3:
            par += ";e=" + rng.choice(["0", "0.1", "0.2", "1", "2"])
        if not glob_noindels and rng.random() < 0.2:
            par += ";noindels"
        argv += ["-g" if front else "-a", f"a{i}=" + ("^" + t if front else t + "$") + par]
    # sometimes one lone anchored adapter of the *other* kind next to the indexed group (it stays a plain entry of the regrouped list)
    lone = None
    if rng.random() < 0.3:
        lone = "".join(rng.choice("ACGT") for _ in range(rng.randint(8, 12)))
        argv += ["-a" if front else "-g", f"a{k}=" + (lone + "$" if front else "^" + lone)]
    if glob_noindels:
        argv.append("--no-indels")
    if rng.random() < 0.5:
        argv += ["-e", rng.choice(["0.1", "0.15", "0.2"])]
    argv += list(extra)
    if "-o" not in argv:
        argv += ["-o", "{dir}/o1.fastq"]
    reads = []
    for i in range(rng.randint(3, 8)):
        body = "".join(rng.choice("ACGT") for _ in range(rng.randint(0, 25)))
        if rng.random() < 0.2:
            body = ""          # the read is nothing but (a variant of) an adapter: shorter than the longest indexed string when the variant lost a base
        x = rng.random()
        if x < 0.8:
            a = list(rng.choice(seqs))
            for _ in range(rng.choice([0, 0, 1, 1, 2])):
                j = rng.randrange(len(a)) if a else 0
                y = rng.random()
                if not a:
                    break
                if y < 0.5:
                    a[j] = rng.choice("ACGT")
                elif y < 0.7:
                    a[j] = "N"
                elif y < 0.85:
                    del a[j]
                else:
                    a.insert(j, rng.choice("ACGT"))
            a = "".join(a)
            if rng.random() < 0.1:
                a = a[:rng.randint(1, len(a))] if front else a[-rng.randint(1, len(a)):]
                body = ""
            s_ = a + body if front else body + a
        else:
            s_ = body
        if lone is not None and rng.random() < 0.45:
            # the lone adapter at its own end - alone (the read starts/ends with random bases) or together with one of the indexed group
            other = "".join(rng.choice("ACGT") for _ in range(rng.randint(6, 15)))
            s_ = (other + lone) if front else (lone + other)
            if rng.random() < 0.4:
                s_ = (rng.choice(seqs) + other + lone) if front else (lone + other + rng.choice(seqs))
        if rng.random() < 0.1:
            s_ = s_.lower()
        q = "".join(chr(33 + rng.choice([2, 10, 20, 30, 40])) for _ in s_)
        reads.append((f"r{i} 1:N:0:1", s_, q))
    if rng.random() < 0.6:
        # the same (exact or once-mutated) adapter copy at the anchored end of several reads of different lengths, the shortest first:
        # what is found for one read must not depend on the reads seen before (per-index caches, memoised look-ups)
        hot = list(rng.choice(seqs))
        if rng.random() < 0.3:
            hot[rng.randrange(len(hot))] = rng.choice("ACGTN")
        hot = "".join(hot)
        extra = []
        for ln in sorted(rng.sample(range(0, 30), rng.randint(2, 4))):
            body = "".join(rng.choice("ACGT") for _ in range(ln))
            s_ = hot + body if front else body + hot
            extra.append(s_)
        if rng.random() < 0.5:
            extra.append(extra[0])        # and one exact repetition of a whole read
        base = len(reads)
        for j, s_ in enumerate(extra):
            q = "".join(chr(33 + rng.choice([2, 10, 20, 30, 40])) for _ in s_)
            reads.append((f"r{base + j} 1:N:0:1", s_, q))
    return dict(argv=argv, paired=False, reads1=reads, reads2=None, with_qual=True, interleaved_in=False, indexed=True,
                adapter_names=[f"a{i}" for i in range(k + (1 if lone is not None else 0))])


def repeat_oracle(ctx, case, real):
    """reads with the same bases and qualities are treated alike, wherever they stand in the input: same output bases and qualities, same file
    (single-end, names not used by any option)"""
    if "error" in real or case["paired"] or any(o in case["argv"] for o in ("--rename", "-x", "-y", "--discard-casava", "--length-tag", "--strip-suffix")):
        return
    where = {}
    for fn, side, recs in output_roles(case, real):
        for r in recs:
            where[rid(r[0])] = (fn, r[1], r[2])
    seen = {}
    for name, s_, q_ in case["reads1"]:
        k = (s_, q_)
        got = where.get(rid(name))
        if k in seen and seen[k][1] != got:
            ctx.failures.append(Failure(f"{ctx.prop}/result-depends-on-earlier-reads", "two reads with identical bases and qualities are processed differently "
                                        "(result depends on the reads seen before)", case_input(case), dict(read=name, result=got),
                                        dict(read=seen[k][0], result=seen[k][1])))
        seen.setdefault(k, (name, got))
    ctx.count("repeat-oracle-runs")


def indexed_sweep(ctx, oracle, n_quick, n_thorough, extras, prep=None):
    """Oracle sweep over runs that use the adapter index (the model side of the pipeline correspondence is index-free, C08 models the
    index itself): real runs only, judged by the property oracle. `extras(rng)` returns option tokens to append."""
    cases = [indexed_case(ctx.rng, extras(ctx.rng)) for _ in range(ctx.scale(n_quick, n_thorough))]
    for case in cases:
        if prep:
            prep(case)
        res, real = pipe.run_real(case)
        ctx.count("indexed-run:" + real.get("error", "ok"))
        repeat_oracle(ctx, case, real)
        if "error" not in real and real.get("with_adapters1", 0) > 0:
            ctx.nontriv("indexed:" + json.dumps([case["argv"], case["reads1"]]))
        oracle(ctx, case, res, real)
    return cases


def case_input(case):
    return dict(argv=case["argv"], reads1=case["reads1"], reads2=case["reads2"])


def generic_replay(prop, oracle):
    def replay(ctx, rp):
        fl = rp.get("failure") or {}
        inp = fl.get("input") or {}
        if "argv" not in inp:
            diffs = rp.get("correspondence_diffs") or []
            if diffs:
                inp = json.loads(diffs[0]["line"])
            else:
                print("nothing to replay; re-run the check")
                return 2
        case = dict(argv=inp["argv"], paired=inp.get("reads2") is not None, reads1=[tuple(r) for r in inp["reads1"]],
                    reads2=[tuple(r) for r in inp["reads2"]] if inp.get("reads2") else None,
                    with_qual=inp["reads1"][0][2] is not None if inp["reads1"] else True, interleaved_in=False)
        res = pipe.run_cases(ctx, [case])
        c, r, real, model = res[0]
        oracle(ctx, c, r, real)
        print("implementation outcome:", real.get("error", "ok"), "| oracle failures:", [f.signature for f in ctx.failures],
              "| model/implementation differences:", [d.impl[:200] for d in ctx.diffs])
        return 1 if ctx.failures else 0
    return replay
