"""Shared driver for the pipeline-level properties: generate command lines with a focus, run real + model
(`pipe.run_cases`), apply a property-specific oracle to the real outcome."""
import json

import pipe
from core import Failure

COMP = str.maketrans("ACGTUMRWSYKVHDBNacgtumrwsykvhdbn", "TGCAAKYWSRMBDHVNtgcaakywsrmbdhvn")


def revcomp(s):
    return s.translate(COMP)[::-1]


def rid(name):
    return name.split()[0] if name.split() else name


def output_roles(case, real):
    """yield (filename, side, records) for every record file; interleaved files are split into sides 0/1"""
    paired = case["paired"]
    files = real.get("files", {})
    for fn, recs in files.items():
        base, ext = fn.rsplit(".", 1)
        if not paired:
            yield fn, 0, recs
        elif base.endswith("2"):
            yield fn, 1, recs
        else:
            partner = base[:-1] + "2." + ext
            if partner in files:
                yield fn, 0, recs
            else:  # interleaved writer
                yield fn, 0, recs[0::2]
                yield fn, 1, recs[1::2]


def crash_failures(ctx, prop, case, real):
    """a crash (unexpected exception) or exit status 1 on a well-formed input and a valid command line"""
    if "error" in real and real["error"] not in ("cmdline",):
        argv = case["argv"]
        linked = any("..." in t for t in argv)
        # documented as unsupported (doc/guide.rst, "Linked adapters do not work in combination with --info-file,
        # --action=mask and --action=crop"; steps.py: "TODO this fails with linked adapters" for rest/wildcard files)
        if linked and real["error"] == "attribute" and (("--action" in argv and argv[argv.index("--action") + 1] == "crop")
                                                         or "--rest-file" in argv or "--wildcard-file" in argv):
            ctx.count("documented-unsupported:linked+crop/rest/wildcard")
            return True
        sig = f"{prop}/crash-{real['error']}"
        ctx.failures.append(Failure(sig, f"cutadapt fails with {real['error']} on well-formed input",
                                    dict(argv=case["argv"], reads1=case["reads1"], reads2=case["reads2"]), real.get("error"), "normal exit"))
        return True
    return False


def run(ctx, prop, focus, oracle, n_quick, n_thorough, rule, nontrivial=None, want_json=False, cases=None, post=None):
    ctx.rule = rule
    n = ctx.scale(n_quick, n_thorough)
    if cases is None:
        cases = [pipe.gen_case(ctx.rng, focus) for _ in range(n)]
    results = pipe.run_cases(ctx, cases)
    for case, res, real, model in results:
        ctx.count("outcome:" + real.get("error", "ok"))
        for tok in case["argv"]:
            if tok.startswith("--") and "{" not in tok:
                ctx.count("opt:" + tok)
        if "error" not in real and (nontrivial is None or nontrivial(case, real)):
            ctx.nontriv(json.dumps([case["argv"], case["reads1"]]))
        oracle(ctx, case, res, real)
    for case, res, real, model in results[:3]:
        ctx.sample(dict(argv=case["argv"], reads=len(case["reads1"]), outcome=real.get("error", "ok")))
    if post:
        post(ctx, results)
    return results


def case_input(case):
    return dict(argv=case["argv"], reads1=case["reads1"], reads2=case["reads2"])


def generic_replay(prop, oracle):
    def replay(ctx, rp):
        fl = rp.get("failure") or {}
        inp = fl.get("input") or {}
        if "argv" not in inp:
            diffs = rp.get("correspondence_diffs") or []
            if diffs:
                inp = json.loads(diffs[0]["line"])
            else:
                print("nothing to replay; re-run the check")
                return 2
        case = dict(argv=inp["argv"], paired=inp.get("reads2") is not None, reads1=[tuple(r) for r in inp["reads1"]],
                    reads2=[tuple(r) for r in inp["reads2"]] if inp.get("reads2") else None,
                    with_qual=inp["reads1"][0][2] is not None if inp["reads1"] else True, interleaved_in=False)
        res = pipe.run_cases(ctx, [case])
        c, r, real, model = res[0]
        oracle(ctx, c, r, real)
        print("implementation outcome:", real.get("error", "ok"), "| oracle failures:", [f.signature for f in ctx.failures],
              "| model/implementation differences:", [d.impl[:200] for d in ctx.diffs])
        return 1 if ctx.failures else 0
    return replay
