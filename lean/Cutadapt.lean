-- Root of the `Cutadapt` library: model, specification vocabulary, proofs, property theorems.
import Cutadapt.Basic
