import Cutadapt.Proofs.KmerFinder
/-! Partial (overlap) occurrences survive the repaired prefilter: from a search set that serves the overlap length,
    through `remove_redundant_kmers`, the packing into masks and the window arithmetic, to `kmers_present = True` (C07). -/
namespace Cutadapt.Kmer
open Cutadapt Cutadapt.Spec Cutadapt.Align Cutadapt.Adapters Cutadapt.Generated

/-! ### `minimize_kmer_search_list` only widens windows -/

theorem minInt_le (l : List Int) (d : Int) : minInt l d ≤ d ∧ ∀ x ∈ l, minInt l d ≤ x := by
  induction l generalizing d with
  | nil => simp [minInt]
  | cons a l ih =>
    simp only [minInt, List.foldl_cons] at ih ⊢
    obtain ⟨h1, h2⟩ := ih (min d a)
    refine ⟨by omega, ?_⟩
    intro x hx
    rcases List.mem_cons.mp hx with hx | hx
    · subst hx; omega
    · exact h2 x hx

theorem maxInt_ge (l : List Int) (d : Int) : d ≤ maxInt l d ∧ ∀ x ∈ l, x ≤ maxInt l d := by
  induction l generalizing d with
  | nil => simp [maxInt]
  | cons a l ih =>
    simp only [maxInt, List.foldl_cons] at ih ⊢
    obtain ⟨h1, h2⟩ := ih (max d a)
    refine ⟨by omega, ?_⟩
    intro x hx
    rcases List.mem_cons.mp hx with hx | hx
    · subst hx; omega
    · exact h2 x hx

theorem minimizeOne_back {positions ps : List Pos} (h : minimizeOne positions = .ok ps) {s : Int}
    (hs : (s, (none : Option Int)) ∈ positions) : ∃ s', (s', (none : Option Int)) ∈ ps ∧ (s' = 0 ∨ s' ≤ s) := by
  unfold minimizeOne at h
  split at h
  · cases h
    simp only [List.mem_singleton] at hs
    exact ⟨s, by simp [hs], Or.inr (Int.le_refl _)⟩
  · by_cases hc : positions.contains ((0 : Int), (none : Option Int)) = true
    · simp only [hc, ↓reduceIte] at h
      cases h
      exact ⟨0, by simp, Or.inl rfl⟩
    · simp only [hc, Bool.false_eq_true, ↓reduceIte] at h
      split at h
      · cases h
      · cases h
        have hmem : s ∈ (positions.filter (fun p => p.2.isNone)).map (·.1) :=
          List.mem_map.mpr ⟨(s, none), List.mem_filter.mpr ⟨hs, rfl⟩, rfl⟩
        cases hb : (positions.filter (fun p => p.2.isNone)).map (·.1) with
        | nil => rw [hb] at hmem; simp at hmem
        | cons s0 ss =>
          rw [hb] at hmem
          refine ⟨minInt ss s0, by simp, Or.inr ?_⟩
          obtain ⟨h1, h2⟩ := minInt_le ss s0
          rcases List.mem_cons.mp hmem with hm | hm
          · rw [hm]; exact h1
          · exact h2 s hm

theorem minimizeOne_front {positions ps : List Pos} (h : minimizeOne positions = .ok ps) {t : Int}
    (hs : ((0 : Int), some t) ∈ positions) :
    ((0 : Int), (none : Option Int)) ∈ ps ∨ ∃ t', ((0 : Int), some t') ∈ ps ∧ t ≤ t' := by
  unfold minimizeOne at h
  split at h
  · cases h
    simp only [List.mem_singleton] at hs
    exact Or.inr ⟨t, by simp [hs], Int.le_refl _⟩
  · by_cases hc : positions.contains ((0 : Int), (none : Option Int)) = true
    · simp only [hc, ↓reduceIte] at h
      cases h
      exact Or.inl (by simp)
    · simp only [hc, Bool.false_eq_true, ↓reduceIte] at h
      split at h
      · cases h
      · cases h
        right
        have hmem : t ∈ (positions.filter (fun p => p.1 == 0)).filterMap (·.2) :=
          List.mem_filterMap.mpr ⟨(0, some t), List.mem_filter.mpr ⟨hs, by simp⟩, rfl⟩
        cases hb : (positions.filter (fun p => p.1 == 0)).filterMap (·.2) with
        | nil => rw [hb] at hmem; simp at hmem
        | cons s0 ss =>
          rw [hb] at hmem
          refine ⟨maxInt ss s0, by simp, ?_⟩
          obtain ⟨h1, h2⟩ := maxInt_ge ss s0
          rcases List.mem_cons.mp hmem with hm | hm
          · rw [hm]; exact h1
          · exact h2 t hm

/-- the triples kept for a k-mer that is searched somewhere -/
theorem minimize_mem {l r : List (Bytes × Pos)} (h : minimizeKmerSearchList l = .ok r) {k : Bytes}
    (hk : k ∈ l.map (·.1)) :
    ∃ ps, minimizeOne ((l.filter (·.1 == k)).map (·.2)) = .ok ps ∧ ∀ p ∈ ps, (k, p) ∈ r := by
  unfold minimizeKmerSearchList at h
  split at h
  · cases h
  · rename_i ls hls
    cases h
    obtain ⟨h1, _⟩ := mapE_ok hls
    obtain ⟨y, hy, hyl⟩ := h1 k ((mem_sortUniq bytesLt_tri).mpr hk)
    unfold minimizeFor at hy
    split at hy
    · cases hy
    · rename_i ps hps
      cases hy
      exact ⟨ps, hps, fun p hp => List.mem_flatten.mpr ⟨_, hyl, List.mem_map.mpr ⟨p, hp, rfl⟩⟩⟩

theorem minimize_mem_inv {l r : List (Bytes × Pos)} (h : minimizeKmerSearchList l = .ok r) {k : Bytes} {p : Pos}
    (hk : (k, p) ∈ r) : k ∈ l.map (·.1) := by
  unfold minimizeKmerSearchList at h
  split at h
  · cases h
  · rename_i ls hls
    cases h
    obtain ⟨_, h2⟩ := mapE_ok hls
    obtain ⟨y, hy, hky⟩ := List.mem_flatten.mp hk
    obtain ⟨k', hk', hf⟩ := h2 y hy
    unfold minimizeFor at hf
    split at hf
    · cases hf
    · cases hf
      simp only [List.mem_map, Prod.mk.injEq] at hky
      obtain ⟨_, _, hkk, _⟩ := hky
      subst hkk
      exact (mem_sortUniq bytesLt_tri).mp hk'

/-- the entries of `remove_redundant_kmers` and the minimised triples are the same thing -/
theorem removeRedundant_entries {sets : List SearchSet} {entries : List Entry}
    (h : removeRedundantKmers sets = .ok entries) :
    ∃ minimized, minimizeKmerSearchList (sets.flatMap (fun s => s.kmers.map (fun k => (k, (s.start, s.stop))))) = .ok minimized ∧
      (∀ k p, (k, p) ∈ minimized → ∃ e ∈ entries, e.start = p.1 ∧ e.stop = p.2 ∧ k ∈ e.kmers) ∧
      (∀ e ∈ entries, ∀ k ∈ e.kmers, (k, (e.start, e.stop)) ∈ minimized) := by
  dsimp only [removeRedundantKmers] at h
  split at h
  · cases h
  · rename_i minimized hmin
    cases h
    refine ⟨minimized, hmin, ?_, ?_⟩
    · intro k p hm
      have hkey : p ∈ sortUniq posLt (minimized.map (·.2)) :=
        (mem_sortUniq posLt_tri).mpr (List.mem_map.mpr ⟨_, hm, rfl⟩)
      refine ⟨_, List.mem_map.mpr ⟨p, hkey, rfl⟩, rfl, rfl, ?_⟩
      simp only [List.mem_map, List.mem_filter, beq_iff_eq]
      exact ⟨(k, p), ⟨hm, rfl⟩, rfl⟩
    · intro e he k hk
      simp only [List.mem_map] at he
      obtain ⟨key, _, rfl⟩ := he
      simp only [List.mem_map, List.mem_filter, beq_iff_eq] at hk
      obtain ⟨⟨k0, p0⟩, ⟨hin, hp0⟩, hk0⟩ := hk
      simp only at hp0 hk0; subst hk0; subst hp0
      exact hin

theorem triples_mem {sets : List SearchSet} {S : SearchSet} (hS : S ∈ sets) {k : Bytes} (hk : k ∈ S.kmers) :
    (k, (S.start, S.stop)) ∈ sets.flatMap (fun s => s.kmers.map (fun k => (k, (s.start, s.stop)))) :=
  List.mem_flatMap.mpr ⟨S, hS, List.mem_map.mpr ⟨k, hk, rfl⟩⟩

/-- a k-mer of a 3' search set is still searched in a window that contains the set's window -/
theorem removeRedundant_back {sets : List SearchSet} {entries : List Entry} (h : removeRedundantKmers sets = .ok entries)
    {S : SearchSet} (hS : S ∈ sets) (hstop : S.stop = none) {k : Bytes} (hk : k ∈ S.kmers) :
    ∃ e ∈ entries, k ∈ e.kmers ∧ e.stop = none ∧ (e.start = 0 ∨ e.start ≤ S.start) := by
  obtain ⟨minimized, hmin, h1, _⟩ := removeRedundant_entries h
  have htr := triples_mem hS hk
  obtain ⟨ps, hps, hall⟩ := minimize_mem hmin (List.mem_map.mpr ⟨_, htr, rfl⟩)
  have hpos : (S.start, (none : Option Int)) ∈
      ((sets.flatMap (fun s => s.kmers.map (fun k => (k, (s.start, s.stop))))).filter (·.1 == k)).map (·.2) := by
    simp only [List.mem_map, List.mem_filter, beq_iff_eq]
    exact ⟨_, ⟨htr, rfl⟩, by simp [hstop]⟩
  obtain ⟨s', hs', hle⟩ := minimizeOne_back hps hpos
  obtain ⟨e, he, hes, het, hke⟩ := h1 k _ (hall _ hs')
  exact ⟨e, he, hke, het, by rw [hes]; exact hle⟩

/-- a k-mer of a 5' search set is still searched in a window that contains the set's window -/
theorem removeRedundant_front {sets : List SearchSet} {entries : List Entry} (h : removeRedundantKmers sets = .ok entries)
    {S : SearchSet} (hS : S ∈ sets) (hstart : S.start = 0) {t : Int} (hstop : S.stop = some t) {k : Bytes}
    (hk : k ∈ S.kmers) :
    ∃ e ∈ entries, k ∈ e.kmers ∧ e.start = 0 ∧ (e.stop = none ∨ ∃ t', e.stop = some t' ∧ t ≤ t') := by
  obtain ⟨minimized, hmin, h1, _⟩ := removeRedundant_entries h
  have htr := triples_mem hS hk
  obtain ⟨ps, hps, hall⟩ := minimize_mem hmin (List.mem_map.mpr ⟨_, htr, rfl⟩)
  have hpos : ((0 : Int), some t) ∈
      ((sets.flatMap (fun s => s.kmers.map (fun k => (k, (s.start, s.stop))))).filter (·.1 == k)).map (·.2) := by
    simp only [List.mem_map, List.mem_filter, beq_iff_eq]
    exact ⟨_, ⟨htr, rfl⟩, by simp [hstop, hstart]⟩
  rcases minimizeOne_front hps hpos with h0 | ⟨t', ht', hle⟩
  · obtain ⟨e, he, hes, het, hke⟩ := h1 k _ (hall _ h0)
    exact ⟨e, he, hke, hes, Or.inl het⟩
  · obtain ⟨e, he, hes, het, hke⟩ := h1 k _ (hall _ ht')
    exact ⟨e, he, hke, hes, Or.inr ⟨t', het, hle⟩⟩

/-- every k-mer in the final table comes from some search set -/
theorem removeRedundant_sub {sets : List SearchSet} {entries : List Entry} (h : removeRedundantKmers sets = .ok entries)
    {e : Entry} (he : e ∈ entries) {k : Bytes} (hk : k ∈ e.kmers) : ∃ S ∈ sets, k ∈ S.kmers := by
  obtain ⟨minimized, hmin, _, h2⟩ := removeRedundant_entries h
  have := minimize_mem_inv hmin (h2 e he k hk)
  simp only [List.mem_map, List.mem_flatMap] at this
  obtain ⟨⟨k', p⟩, ⟨S, hS, k'', hk'', heq⟩, rfl⟩ := this
  simp only [Prod.mk.injEq] at heq
  exact ⟨S, hS, by rw [← heq.1]; exact hk''⟩

end Cutadapt.Kmer
