import Cutadapt.Adapters
open Cutadapt Cutadapt.Align Cutadapt.Adapters
-- rate = 1, empty read: occurrence A vs [] with one deletion
#eval matchTo { ty := .back, seq := [65], thr := fun L => L, minOverlap := 1, readWildcards := false, adapterWildcards := false, indels := true } []
-- startInRef type with indels where an occurrence is missed? (front)
