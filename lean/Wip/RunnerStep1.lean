import Wip.RunnerInv
namespace Cutadapt.Runner
variable {Chunk Stats Fault : Type} {cfg : Config Chunk Stats Fault} {s s' : State Stats}

theorem step_workerStep {w : Nat} (hs : step cfg s (.workerStep w) = some s') :
    s.outcome = .running ∧ w < cfg.nWorkers ∧
    ( (∃ i rest, (s.workers w).phase = .requested ∧ (s.workers w).inbox = .chunk i :: rest ∧
          s' = s.setW w { s.workers w with inbox := rest, phase := .processing i })
    ∨ (∃ rest, (s.workers w).phase = .requested ∧ (s.workers w).inbox = .pill :: rest ∧
          s' = s.setW w { s.workers w with inbox := rest, phase := .finished, outbox := (s.workers w).outbox ++ [.done (s.workers w).stats] })
    ∨ (∃ rest, (s.workers w).phase = .requested ∧ (s.workers w).inbox = .readerError :: rest ∧
          s' = s.setW w { s.workers w with inbox := rest, phase := .failed, outbox := (s.workers w).outbox ++ [.workerError] })
    ∨ (∃ i c d st, (s.workers w).phase = .processing i ∧ cfg.chunks[i]? = some c ∧ cfg.process c = .ok (d, st) ∧
          s' = s.setW w { s.workers w with phase := .idle, stats := cfg.add (s.workers w).stats st, outbox := (s.workers w).outbox ++ [.result i d] })
    ∨ (∃ i c e, (s.workers w).phase = .processing i ∧ cfg.chunks[i]? = some c ∧ cfg.process c = .error e ∧
          s' = s.setW w { s.workers w with phase := .failed, outbox := (s.workers w).outbox ++ [.workerError] })) := by
  simp only [step] at hs
  split at hs
  · rename_i hg
    refine ⟨hg.1, hg.2, ?_⟩
    split at hs
    · rename_i hph
      split at hs
      · cases hs
      · rename_i i rest hin; cases hs; exact Or.inl ⟨i, rest, hph, hin, rfl⟩
      · rename_i rest hin; cases hs; exact Or.inr (Or.inl ⟨rest, hph, hin, rfl⟩)
      · rename_i rest hin; cases hs; exact Or.inr (Or.inr (Or.inl ⟨rest, hph, hin, rfl⟩))
    · rename_i i hph
      split at hs
      · cases hs
      · rename_i c hc
        split at hs
        · rename_i d st hp; cases hs; exact Or.inr (Or.inr (Or.inr (Or.inl ⟨i, c, d, st, hph, hc, hp, rfl⟩)))
        · rename_i e hp; cases hs; exact Or.inr (Or.inr (Or.inr (Or.inr ⟨i, c, e, hph, hc, hp, rfl⟩)))
    · cases hs
  · cases hs
end Cutadapt.Runner
