import Wip.DX8
/-! Exactness of the banded DP, part 9: where the reported match lies relative to the leftmost error-free copy. -/
namespace Cutadapt.Align.Exact
open Cutadapt Cutadapt.Align Cutadapt.Spec Cutadapt.Generated Cutadapt.Align.Sound Cutadapt.MatchSound

theorem go_noupd (cfg : Cfg) (ref : Bytes) (m n : Nat) (col : List Entry) (so : Int) (firstI i0 : Nat) (best : Best)
    (h : ∀ i, firstI ≤ i → i ≤ i0 → colUpd cfg ref m so i best (col.getD i default) = false) :
    ∀ (fuel i : Nat), i ≤ i0 → lastColumnSearch.go cfg ref m n col so firstI fuel i best = best
  | 0, i, _ => go_zero ..
  | fuel+1, i, hi => by
    rw [go_succ]
    split
    · rfl
    · next hlt =>
      have : lcsStep cfg ref m n col so i best = best := by
        unfold lcsStep
        rw [h i (by omega) hi]
        simp
      rw [this]
      split
      · rfl
      · exact go_noupd cfg ref m n col so firstI i0 best h fuel (i-1) (by omega)

/-- a zero-cost cell lies on the diagonal of its start -/
theorem good_zero_diag {ctx : Ctx} (hc : 1 ≤ ctx.cfg.indelCost) {i j : Nat} {e : Entry}
    (hi : i ≤ ctx.ref.length) (hj : j ≤ ctx.query.length) (hg : Good ctx i j e) (h0 : e.cost = 0) :
    (decode e.origin).1 + j = (decode e.origin).2 + i := by
  obtain ⟨g1, g2, _, _, s, hl, hr, hcs⟩ := hg
  rw [h0] at hcs
  obtain ⟨hn, _⟩ := no_indel_script ctx.eq ctx.cfg.indelCost s (by omega)
  rw [hl, hr, seg_length, seg_length] at hn
  omega

theorem decode_one (o : Int) : (decode o).1 = 0 ∨ (decode o).2 = 0 := by
  by_cases h : 0 ≤ o
  · left; rw [decode_nonneg h]
  · right; rw [decode_neg (by omega)]

/-- the next state's best match: unchanged, or the last-row cell of the new column -/
theorem columnLoop_best_cases (cfg : Cfg) (ascii : Bool) (refE ref : Bytes) (m : Nat) (s : LoopState) (j : Nat)
    (q : UInt8) (hd : s.done = false) (hlm : s.last ≤ m) :
    ((columnLoop cfg ascii refE ref m s (j, q)).best = s.best ∧ (columnLoop cfg ascii refE ref m s (j, q)).done = false) ∨
    (rowUpd cfg ref m s.best ((columnLoop cfg ascii refE ref m s (j, q)).col.getD m default) = true ∧
      (columnLoop cfg ascii refE ref m s (j, q)).lastFilled = m ∧
      (columnLoop cfg ascii refE ref m s (j, q)).best =
        ⟨((columnLoop cfg ascii refE ref m s (j, q)).col.getD m default).origin,
         ((columnLoop cfg ascii refE ref m s (j, q)).col.getD m default).cost,
         ((columnLoop cfg ascii refE ref m s (j, q)).col.getD m default).score, m, j, true⟩) := by
  rw [columnLoop_eq _ _ _ _ _ _ _ _ hd]
  have hle := shrinkLast_le cfg.k (stepColumn cfg ascii refE q s.last s.col) s.last
  split
  · exact .inl ⟨rfl, rfl⟩
  · split
    · split
      · next h1 _ h3 => exact .inr ⟨h3, by simp only; omega, rfl⟩
      · exact .inl ⟨rfl, rfl⟩
    · exact .inl ⟨rfl, rfl⟩

end Cutadapt.Align.Exact
