import Wip.ModsPaired
import Cutadapt.Stats
namespace Cutadapt
example : bytesOfStr " rc" = [32, 114, 99] := by decide +kernel
example : bytesOfStr " rc" ≠ [] := by decide +kernel
example : bytesOfStr " rc" = [32, 114, 99] := by simp [bytesOfStr]
example : (bytesOfStr " rc").length = 3 := by simp [bytesOfStr]
end Cutadapt
