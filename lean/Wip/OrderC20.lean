import Cutadapt.Proofs.OrderStats
import Cutadapt.Proofs.OrderRanges
/-! # C20 — per-adapter statistics describe exactly the matches that were applied

Model: `Cutadapt.Stats` (`EndStatistics`, the four `AdapterStatistics.add_match`, as folds over the event log in which
`AdapterCutter.__call__` records `stats.add_match(match)` as `Event.matched side match rc`) and `Cutadapt.Report`
(`ErrorRanges._compute_lengths`). All theorems hold for every adapter list, every event log, every threshold function
`L ↦ int(L · rate)` that is monotone. -/
namespace Cutadapt.C20
open Cutadapt Cutadapt.Adapters Cutadapt.Report

/-! ## the counters (`dict` with default 0) -/

/-- `d[k'] += n` changes the counter of `k'` by `n` and no other counter -/
theorem incr_getCount {κ : Type} [BEq κ] [LawfulBEq κ] (k k' : κ) (n : Nat) (l : List (κ × Nat)) :
    getCount k (incr k' n l) = getCount k l + (if k' == k then n else 0) :=
  getCount_incr k k' n l

/-- keys stay unique (the association list is a dictionary) -/
theorem incr_keys_unique {κ : Type} [BEq κ] [LawfulBEq κ] (k : κ) (n : Nat) (l : List (κ × Nat))
    (h : (l.map (·.1)).Nodup) : ((incr k n l).map (·.1)).Nodup :=
  nodup_keys_incr k n l h

/-! ## the tally

`appliedTo side a evs`: the matches of adapter number `a` applied to reads of side `side` in the run (with the
reverse-complement flag), in order. `frontParts`/`backParts`: the 5' resp. 3' part(s) such a match consists of — a single match
of a 5' adapter class (`-g` and variants) is a 5' part, of a 3' class a 3' part, of an anywhere adapter (`-b`) a 5' part iff it is a
`RemoveBeforeMatch`; a linked match contributes its front match as 5' part and its back match as 3' part. -/

/-- **The reported histograms, adjacent bases and the reverse-complement count are the tally of the applied matches.** -/
theorem stats_are_tally (ads : List Matchable) (side : Nat) (evs : List Event) (a : Nat) (ad : Matchable)
    (h : ads[a]? = some ad) :
    ∃ st, (adapterStats ads side evs)[a]? = some st ∧
      (∀ len e, getCount (len, e) st.front.errors =
        ((appliedTo side a evs).flatMap (fun p => frontParts (isFrontClass ad) (isAnywhereClass ad) p.1)).countP
          (fun r => (r.removedSequenceLength, r.m.errors) == (len, e))) ∧
      (∀ len e, getCount (len, e) st.back.errors =
        ((appliedTo side a evs).flatMap (fun p => backParts (isFrontClass ad) (isAnywhereClass ad) p.1)).countP
          (fun r => (r.removedSequenceLength, r.m.errors) == (len, e))) ∧
      (∀ b, getCount b st.back.adjacent =
        ((appliedTo side a evs).flatMap (fun p => backParts (isFrontClass ad) (isAnywhereClass ad) p.1)).countP
          (fun r => adjKey r.adjacentBase == b)) ∧
      st.front.adjacent = [] ∧
      st.reverseComplemented = (appliedTo side a evs).countP (fun p => p.2) ∧
      (st.front.errors.map (·.1)).Nodup ∧ (st.back.errors.map (·.1)).Nodup ∧ (st.back.adjacent.map (·.1)).Nodup := by
  refine ⟨_, adapterStats_at ads side a evs ad h, ?_⟩
  obtain ⟨a1, a2, a3, a4, a5, _, _, _⟩ := tallyFold_spec (isFrontClass ad) (isAnywhereClass ad) (appliedTo side a evs) {}
  have nd := tallyFold_nodup (isFrontClass ad) (isAnywhereClass ad) (appliedTo side a evs) {} (by simp)
  refine ⟨?_, ?_, ?_, ?_, ?_, nd⟩
  · intro len e; rw [a1]; simp [getCount_nil, errKey]
  · intro len e; rw [a2]; simp [getCount_nil, errKey]
  · intro b; rw [a3]; simp [getCount_nil]
  · rw [a4]
  · rw [a5]; simp

/-- one statistics record per adapter -/
theorem stats_length (ads : List Matchable) (side : Nat) (evs : List Event) : (adapterStats ads side evs).length = ads.length :=
  adapterStats_length ads side evs

/-- events of the other read side, of other adapters, and non-match events do not contribute: the statistics of adapter `a` depend
    on the event log only through the matches of `a` applied on that side -/
theorem other_events_do_not_contribute (ads : List Matchable) (side a : Nat) (evs evs' : List Event)
    (h : appliedTo side a evs = appliedTo side a evs') :
    (adapterStats ads side evs)[a]? = (adapterStats ads side evs')[a]? := by
  rw [adapterStats_eq, adapterStats_eq, statFold_at, statFold_at, h]

theorem appliedTo_append (side a : Nat) (evs evs' : List Event) :
    appliedTo side a (evs ++ evs') = appliedTo side a evs ++ appliedTo side a evs' := by
  simp [appliedTo]

theorem appliedTo_matched (side a s : Nat) (m : AnyMatch) (rc : Bool) :
    appliedTo side a [.matched s m rc] = if s = side ∧ m.adapter = a then [(m, rc)] else [] := by
  by_cases h : s = side ∧ m.adapter = a <;> simp [appliedTo, h]

/-- **Number of matches per end**: the sum over the whole histogram is the number of 5' (3') parts applied; for 3' parts
    this also equals the sum of the adjacent-base counters -/
theorem total_matches (ads : List Matchable) (side : Nat) (evs : List Event) (a : Nat) (ad : Matchable)
    (h : ads[a]? = some ad) :
    ∃ st, (adapterStats ads side evs)[a]? = some st ∧
      total st.front.errors =
        ((appliedTo side a evs).flatMap (fun p => frontParts (isFrontClass ad) (isAnywhereClass ad) p.1)).length ∧
      total st.back.errors =
        ((appliedTo side a evs).flatMap (fun p => backParts (isFrontClass ad) (isAnywhereClass ad) p.1)).length ∧
      total st.back.adjacent =
        ((appliedTo side a evs).flatMap (fun p => backParts (isFrontClass ad) (isAnywhereClass ad) p.1)).length ∧
      total st.front.errors = ((st.front.errors.map (·.1)).map (fun k => getCount k st.front.errors)).sum ∧
      total st.back.errors = ((st.back.errors.map (·.1)).map (fun k => getCount k st.back.errors)).sum := by
  refine ⟨_, adapterStats_at ads side a evs ad h, ?_⟩
  obtain ⟨_, _, _, _, _, a6, a7, a8⟩ := tallyFold_spec (isFrontClass ad) (isAnywhereClass ad) (appliedTo side a evs) {}
  have nd := tallyFold_nodup (isFrontClass ad) (isAnywhereClass ad) (appliedTo side a evs) {} (by simp)
  refine ⟨?_, ?_, ?_, total_eq_sum_getCount _ nd.1, total_eq_sum_getCount _ nd.2.1⟩
  · rw [a6]; simp [total]
  · rw [a7]; simp [total]
  · rw [a8]; simp [total]

/-- every applied match is booked on exactly one end, a linked match once per part it contains -/
theorem parts_partition (fc aw : Bool) (m : AnyMatch) :
    (frontParts fc aw m).length + (backParts fc aw m).length =
      match m with
      | .single _ _ => 1
      | .linked _ f b => (if f.isSome then 1 else 0) + (if b.isSome then 1 else 0) := by
  cases m with
  | single a r => cases aw <;> cases fc <;> cases hb : r.m.before <;> simp [frontParts, backParts, hb]
  | linked a f b => cases f <;> cases b <;> simp [frontParts, backParts]

/-! ## "allowed errors" ranges -/

/-- **For every match length `L` up to the (effective) adapter length, the printed ranges allow exactly `int(L · rate)`
    errors.** (`thr L = int(L · rate)`, monotone in `L`.) -/
theorem error_ranges_spec (thr : Nat → Nat) (hm : ∀ a b, a ≤ b → thr a ≤ thr b) (length L : Nat)
    (h1 : 1 ≤ L) (h2 : L ≤ length) : allowedAt (errorRanges thr length) L = thr L :=
  allowedAt_errorRanges thr hm length L h1 h2

/-- the last range ends at the adapter length, and there is one range per allowed error count `0..thr length` -/
theorem error_ranges_last (thr : Nat → Nat) (hm : ∀ a b, a ≤ b → thr a ≤ thr b) (length : Nat) (h : 1 ≤ length) :
    (errorRanges thr length).getLast? = some length ∧ (errorRanges thr length).length = thr length + 1 := by
  refine ⟨errorRanges_getLast thr length, ?_⟩
  rw [errorRanges_length thr hm]
  have : length ≠ 0 := by omega
  simp [thrz, this]

/-- range number `e` ends just before the first length at which more than `e` errors are allowed -/
theorem error_ranges_entry (thr : Nat → Nat) (hm : ∀ a b, a ≤ b → thr a ≤ thr b) (length e x : Nat)
    (hx1 : 1 ≤ x) (hxn : x ≤ length) (hgt : e < thr x) (hmin : ∀ y, 1 ≤ y → y < x → thr y ≤ e) :
    (errorRanges thr length)[e]? = some (x - 1) :=
  errorRanges_entry thr hm length e x hx1 hxn hgt hmin

/-! ## Non-vacuity -/

/-- 20 % on a 12-base adapter: "1-4 bp: 0; 5-9 bp: 1; 10-12 bp: 2" -/
example : errorRanges (fun L => L * 2 / 10) 12 = [4, 9, 12] := by decide
example : (List.range 12).map (fun i => allowedAt (errorRanges (fun L => L * 2 / 10) 12) (i+1)) =
    (List.range 12).map (fun i => (i+1) * 2 / 10) := by decide

def exRec (rstart rstop errors : Nat) (before : Bool) (seq : Bytes) : MatchRec := ⟨⟨0, 3, rstart, rstop, 3, errors, before⟩, seq⟩
def exBack : Matchable :=
  .single { ty := .back, seq := [65,65,65], thr := (fun L => L / 10), minOverlap := 3, readWildcards := false, adapterWildcards := false, indels := true }
def exLog : List Event :=
  [.input 9 none, .withAdapter 0, .matched 0 (.single 0 (exRec 6 9 0 false [71,71,67,67,67,78,65,65,65])) false,   -- adjacent base `N`: booked under ""
   .matched 1 (.single 0 (exRec 1 4 0 false [71,65,65,65])) false,                 -- other side: ignored
   .matched 0 (.single 1 (exRec 1 4 0 false [71,65,65,65])) false,                 -- other adapter: ignored
   .withAdapter 0, .matched 0 (.single 0 (exRec 5 8 1 false [71,71,67,67,67,65,67,65])) true]
example : ((adapterStats [exBack, exBack] 0 exLog)[0]? ==
    some { front := {}, back := { errors := [((3, 0), 1), ((3, 1), 1)], adjacent := [([], 1), ([67], 1)] }, reverseComplemented := 1 }) = true := by
  decide

end Cutadapt.C20
