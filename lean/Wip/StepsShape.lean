import Cutadapt.Proofs.StepsMake
import Cutadapt.Proofs.StepsFate
/-! Shape of the step list that `makeSteps` builds: terminal, ordered by rank, distinct identifiers, fresh writer indices. -/
namespace Cutadapt.Steps
open Cutadapt

/-! ## Rank of a step in the documented filter order -/

def predRank : Pred → Nat
  | .tooShort _ => 1
  | .tooLong _ => 2
  | .tooManyN _ => 3
  | .maxEE _ => 4
  | .maxAER _ => 5
  | .casava => 6
  | .isTrimmed => 7
  | .isUntrimmed => 7

def stepRank : Step → Nat
  | .restWriter _ => 0
  | .infoWriter _ => 0
  | .wildcardWriter _ => 0
  | .filter (some p) _ _ _ => predRank p
  | .filter none (some p) _ _ => predRank p
  | .filter none none _ _ => 0
  | .sink _ => 8
  | .demux .. => 8
  | .combDemux _ => 8

/-- strictly increasing rank, except among the text-file writers -/
def RankLt (a b : Step) : Prop := stepRank a < stepRank b ∨ (stepRank a = 0 ∧ stepRank b = 0)

/-- invariants of a step list under construction: pass-through steps only, ordered with all ranks `≤ hi`, identifiers a
    sublist of `ids`, record-writer indices below `n` -/
structure Built (steps : List Step) (hi : Nat) (ids : List String) (n : Nat) : Prop where
  pass : ∀ s ∈ steps, s.isPass = true
  ord : steps.Pairwise RankLt
  le : ∀ s ∈ steps, stepRank s ≤ hi
  idents : (steps.filterMap Step.filterIdent).Sublist ids
  below : ∀ s ∈ steps, ∀ w ∈ s.writers, w < n

theorem Built.nil (hi n : Nat) : Built [] hi [] n :=
  ⟨by simp, by simp, by simp, by simp, by simp⟩

theorem Built.mono {steps hi ids n} (h : Built steps hi ids n) {hi' n' : Nat} (h1 : hi ≤ hi') (h2 : n ≤ n') :
    Built steps hi' ids n' :=
  ⟨h.pass, h.ord, fun s hs => Nat.le_trans (h.le s hs) h1, h.idents, fun s hs w hw => Nat.lt_of_lt_of_le (h.below s hs w hw) h2⟩

/-- appending one pass-through step of higher rank -/
theorem Built.snoc {steps hi ids n} (h : Built steps hi ids n) (s : Step) (hp : s.isPass = true)
    (hr : hi < stepRank s ∨ (hi = 0 ∧ stepRank s = 0)) {ids' : List String}
    (hid : s.filterIdent.toList = ids') {n' : Nat} (hn : n ≤ n') (hw : ∀ w ∈ s.writers, w < n') :
    Built (steps ++ [s]) (stepRank s) (ids ++ ids') n' := by
  refine ⟨?_, ?_, ?_, ?_, ?_⟩
  · intro x hx
    rcases List.mem_append.1 hx with hx | hx
    · exact h.pass x hx
    · simp at hx; subst hx; exact hp
  · rw [List.pairwise_append]
    refine ⟨h.ord, by simp, ?_⟩
    intro a ha b hb
    simp at hb; subst hb
    have := h.le a ha
    rcases hr with hr | ⟨h0, hs0⟩
    · exact .inl (by omega)
    · exact .inr ⟨by omega, hs0⟩
  · intro x hx
    rcases List.mem_append.1 hx with hx | hx
    · have := h.le x hx
      rcases hr with hr | ⟨h0, hs0⟩ <;> omega
    · simp at hx; subst hx; exact Nat.le_refl _
  · rw [List.filterMap_append]
    refine List.Sublist.append h.idents ?_
    subst hid
    cases hs : s.filterIdent <;> simp [hs]
  · intro x hx w hw'
    rcases List.mem_append.1 hx with hx | hx
    · exact Nat.lt_of_lt_of_le (h.below x hx w hw') hn
    · simp at hx; subst hx; exact hw w hw'

theorem Built.ids_mono {steps hi ids n} (h : Built steps hi ids n) {ids' : List String} (hs : ids.Sublist ids') :
    Built steps hi ids' n :=
  ⟨h.pass, h.ord, h.le, h.idents.trans hs, h.below⟩

/-- appending at most one pass-through step of rank `r > hi` with identifier `id` -/
theorem Built.snoc_opt {steps hi ids n} (h : Built steps hi ids n) (l : List Step) (r : Nat) (id : String) {n' : Nat}
    (hl : l = [] ∨ ∃ s, l = [s] ∧ s.isPass = true ∧ stepRank s = r ∧ s.filterIdent = some id ∧ ∀ w ∈ s.writers, w < n')
    (hr : hi < r) (hn : n ≤ n') : Built (steps ++ l) r (ids ++ [id]) n' := by
  rcases hl with rfl | ⟨s, rfl, hp, hrk, hid, hw⟩
  · simpa using (h.mono (Nat.le_of_lt hr) hn).ids_mono (List.sublist_append_left ids [id])
  · subst hrk
    exact h.snoc s hp (.inl hr) (by simp [hid]) hn hw

theorem filterWriter_spec (paired : Bool) (f : Files) (a b : Option String) :
    f.writers.length ≤ (filterWriter paired f a b).1.writers.length ∧
    (filterWriter paired f a b).1.texts = f.texts ∧
    ∀ w ∈ (filterWriter paired f a b).2, f.writers.length ≤ w ∧ w < (filterWriter paired f a b).1.writers.length := by
  cases a <;> cases b <;> simp [filterWriter, Files.openWriter]

/-- a `-m`/`-M` specification gives at least one usable bound -/
def lenBounded (paired : Bool) (l : Option (Option Int × Option Int)) : Prop :=
  ∀ x, l = some x → x.1.isSome = true ∨ (paired = true ∧ x.2.isSome = true)

theorem addText_built {st : Files × List Step} {n : Nat} (p : Option String) (mk : Nat → Step)
    (hmk : ∀ i, (mk i).isPass = true ∧ stepRank (mk i) = 0 ∧ (mk i).filterIdent = none ∧ (mk i).writers = [])
    (h : Built st.2 0 [] n) :
    Built (addText p mk st).2 0 [] n ∧ (addText p mk st).1.writers = st.1.writers := by
  cases p with
  | none => exact ⟨h, rfl⟩
  | some p =>
    obtain ⟨h1, h2, h3, h4⟩ := hmk (st.1.openText p).2
    refine ⟨?_, rfl⟩
    have := h.snoc (mk (st.1.openText p).2) h1 (.inr ⟨rfl, h2⟩) (ids' := []) (by simp [h3]) (Nat.le_refl n) (by simp [h4])
    simpa [addText, h2] using this

theorem addLen_built {st : Files × List Step} {hi : Nat} {ids : List String} (paired : Bool) (mode : PairMode)
    (l : Option (Option Int × Option Int)) (mk : Int → Pred) (out outP : Option String) (r : Nat) (id : String)
    (hmk : ∀ c, predRank (mk c) = r ∧ (mk c).ident = id) (hb : lenBounded paired l) (hr : hi < r)
    (h : Built st.2 hi ids st.1.writers.length) :
    Built (addLen paired mode l mk out outP st).2 r (ids ++ [id]) (addLen paired mode l mk out outP st).1.writers.length := by
  cases l with
  | none => simpa [addLen] using h.snoc_opt [] r id (.inl rfl) hr (Nat.le_refl _)
  | some x =>
    obtain ⟨g1, -, g3⟩ := filterWriter_spec paired st.1 out outP
    simp only [addLen]
    refine h.snoc_opt _ r id (.inr ⟨_, rfl, rfl, ?_, ?_, ?_⟩) hr g1
    · obtain ⟨a, b⟩ := x
      rcases hb _ rfl with h1 | ⟨h1, h2⟩
      · obtain ⟨a, rfl⟩ := Option.isSome_iff_exists.1 h1
        cases paired <;> simp [lengthPreds, stepRank, (hmk a).1]
      · subst h1
        obtain ⟨b, rfl⟩ := Option.isSome_iff_exists.1 h2
        cases a <;> simp [lengthPreds, stepRank, (hmk _).1]
    · obtain ⟨a, b⟩ := x
      rcases hb _ rfl with h1 | ⟨h1, h2⟩
      · obtain ⟨a, rfl⟩ := Option.isSome_iff_exists.1 h1
        cases paired <;> simp [lengthPreds, Step.filterIdent, (hmk a).2]
      · subst h1
        obtain ⟨b, rfl⟩ := Option.isSome_iff_exists.1 h2
        cases a <;> simp [lengthPreds, Step.filterIdent, (hmk _).2]
    · intro w hw
      simp only [Step.writers, Option.mem_toList] at hw
      exact (g3 w hw).2

theorem bothStep_spec (paired : Bool) (mode : PairMode) (p : Pred) :
    (bothStep paired mode p).isPass = true ∧ stepRank (bothStep paired mode p) = predRank p ∧
    (bothStep paired mode p).filterIdent = some p.ident ∧ (bothStep paired mode p).writers = [] := by
  cases paired <;> simp [bothStep, Step.isPass, stepRank, Step.filterIdent, Step.writers]

theorem optSteps_built {steps hi ids n} (h : Built steps hi ids n) (x : Option α) (cond : Bool) (paired : Bool)
    (mode : PairMode) (mk : α → Pred) (r : Nat) (id : String) (hmk : ∀ c, predRank (mk c) = r ∧ (mk c).ident = id)
    (hr : hi < r) : Built (steps ++ optSteps x cond (fun c => bothStep paired mode (mk c))) r (ids ++ [id]) n := by
  refine h.snoc_opt _ r id ?_ hr (Nat.le_refl n)
  cases x with
  | none => exact .inl rfl
  | some c =>
    cases cond with
    | false => exact .inl rfl
    | true =>
      obtain ⟨h1, h2, h3, h4⟩ := bothStep_spec paired mode (mk c)
      exact .inr ⟨_, rfl, h1, by rw [h2, (hmk c).1], by rw [h3, (hmk c).2], by simp [h4]⟩

/-- both length options, when given, carry a usable bound (always true for what `parse_lengths` accepts) -/
def LenBounds (o : Opts) : Prop := lenBounded o.paired o.minLen ∧ lenBounded o.paired o.maxLen

theorem front_built (o : Opts) (hb : LenBounds o) :
    Built (front o).2 2 ["too_short", "too_long"] (front o).1.writers.length := by
  have t0 : Built (({}, []) : Files × List Step).2 0 [] 0 := Built.nil 0 0
  obtain ⟨t1, w1⟩ := addText_built o.restFile .restWriter (fun i => ⟨rfl, rfl, rfl, rfl⟩) t0
  obtain ⟨t2, w2⟩ := addText_built o.infoFile .infoWriter (fun i => ⟨rfl, rfl, rfl, rfl⟩) t1
  obtain ⟨t3, w3⟩ := addText_built o.wildcardFile .wildcardWriter (fun i => ⟨rfl, rfl, rfl, rfl⟩) t2
  have t3' := t3.mono (Nat.le_refl 0) (Nat.zero_le (addText o.wildcardFile Step.wildcardWriter
    (addText o.infoFile Step.infoWriter (addText o.restFile Step.restWriter ({}, [])))).1.writers.length)
  have t4 := addLen_built o.paired (o.pairFilter.getD .any) o.minLen .tooShort o.tooShortOut o.tooShortPaired 1 "too_short"
    (fun c => ⟨rfl, rfl⟩) hb.1 (by omega) t3'
  have t5 := addLen_built o.paired (o.pairFilter.getD .any) o.maxLen .tooLong o.tooLongOut o.tooLongPaired 2 "too_long"
    (fun c => ⟨rfl, rfl⟩) hb.2 (by omega) t4
  exact t5

theorem simple_built (o : Opts) (hb : LenBounds o) :
    Built ((front o).2 ++ simpleSteps o) 6
      ["too_short", "too_long", "too_many_n", "too_many_expected_errors", "too_high_average_error_rate", "casava_filtered"]
      (front o).1.writers.length := by
  have t0 := front_built o hb
  have t1 := optSteps_built t0 o.maxN true o.paired (o.pairFilter.getD .any) .tooManyN 3 "too_many_n"
    (fun c => ⟨rfl, rfl⟩) (by omega)
  have t2 := optSteps_built t1 o.maxEE o.inputHasQualities o.paired (o.pairFilter.getD .any) .maxEE 4
    "too_many_expected_errors" (fun c => ⟨rfl, rfl⟩) (by omega)
  have t3 := optSteps_built t2 o.maxAER o.inputHasQualities o.paired (o.pairFilter.getD .any) .maxAER 5
    "too_high_average_error_rate" (fun c => ⟨rfl, rfl⟩) (by omega)
  have t4 := t3.snoc_opt (if o.discardCasava = true then [bothStep o.paired (o.pairFilter.getD .any) .casava] else []) 6
    "casava_filtered" (n' := (front o).1.writers.length) (by
      cases o.discardCasava with
      | false => exact .inl rfl
      | true =>
        obtain ⟨h1, h2, h3, h4⟩ := bothStep_spec o.paired (o.pairFilter.getD .any) .casava
        exact .inr ⟨_, rfl, h1, h2, h3, by simp [h4]⟩) (by omega) (Nat.le_refl _)
  simpa [simpleSteps, List.append_assoc] using t4

def sixIds : List String :=
  ["too_short", "too_long", "too_many_n", "too_many_expected_errors", "too_high_average_error_rate", "casava_filtered"]
def allIds : List String := sixIds ++ ["discard_trimmed", "discard_untrimmed"]

theorem untrimmed_built {pre : List Step} {f : Files} (o : Opts) (names names2 : List String) (mode : PairMode)
    (h : Built pre 6 sixIds f.writers.length) :
    Built (pre ++ (untrimmedFilter o names names2 mode f).2) 7 allIds (untrimmedFilter o names names2 mode f).1.writers.length ∧
    f.writers.length ≤ (untrimmedFilter o names names2 mode f).1.writers.length := by
  have hdt : (sixIds ++ ["discard_trimmed"]).Sublist allIds := by decide
  have hdu : (sixIds ++ ["discard_untrimmed"]).Sublist allIds := by decide
  unfold untrimmedFilter
  by_cases c1 : o.discardTrimmed = true
  · simp only [c1, if_true]
    obtain ⟨h1, h2, h3, h4⟩ := bothStep_spec o.paired mode .isTrimmed
    exact ⟨(h.snoc_opt _ 7 "discard_trimmed" (.inr ⟨_, rfl, h1, h2, h3, by simp [h4]⟩) (by omega) (Nat.le_refl _)).ids_mono hdt,
      Nat.le_refl _⟩
  · by_cases c2 : o.discardUntrimmed = true
    · simp only [c1, c2, if_true, if_false]
      refine ⟨(h.snoc_opt _ 7 "discard_untrimmed" (.inr ⟨_, rfl, ?_, ?_, ?_, ?_⟩) (by omega) (Nat.le_refl _)).ids_mono hdu,
        Nat.le_refl _⟩
      · cases o.paired <;> rfl
      · cases o.paired <;> rfl
      · cases o.paired <;> rfl
      · cases o.paired <;> simp [Step.writers]
    · by_cases c3 : (o.untrimmedOut.isSome || o.untrimmedPaired.isSome) = true
      · simp only [c1, c2, c3, if_true, if_false]
        obtain ⟨g1, -, g3⟩ := filterWriter_spec o.paired f o.untrimmedOut o.untrimmedPaired
        refine ⟨(h.snoc_opt _ 7 "discard_untrimmed" (.inr ⟨_, rfl, rfl, rfl, rfl, ?_⟩) (by omega) g1).ids_mono hdu, g1⟩
        intro w hw
        simp only [Step.writers, Option.mem_toList] at hw
        exact (g3 w hw).2
      · simp only [c1, c2, c3, if_false]
        have : sixIds.Sublist allIds := by decide
        simpa using ⟨(h.mono (by omega) (Nat.le_refl _)).ids_mono this, Nat.le_refl _⟩

/-- **Shape of the assembled step list.** -/
theorem makeSteps_shape {o : Opts} {names names2 : List String} {steps : List Step} {f : Files}
    (hb : LenBounds o) (h : makeSteps o names names2 = .ok (steps, f)) :
    ∃ pre last n, steps = pre ++ [last] ∧ Built pre 7 allIds n ∧ last.isFinal = true ∧ stepRank last = 8 ∧
      (∀ w ∈ last.writers, n ≤ w) ∧ ((pre ++ [last]).filterMap Step.filterIdent).Sublist allIds := by
  obtain ⟨dm, hdm, hf, hk, heq⟩ := makeSteps_ok h
  have hs := simple_built o hb
  have h6 : sixIds.Sublist allIds := by decide
  have h6u : (sixIds ++ ["discard_untrimmed"]).Sublist allIds := by decide
  unfold finalD at heq
  by_cases hd1 : dm = 1
  · simp only [hd1, if_true] at heq
    have hkeys : ((front o).2 ++ simpleSteps o ++ [Step.demux (openMany (front o).1 names (demuxWriter o)).2 none]).filterMap
        Step.filterIdent |>.Sublist allIds := by
      rw [List.filterMap_append]
      exact (List.Sublist.append hs.idents (List.Sublist.refl _)).trans h6u
    by_cases c : o.discardUntrimmed = true
    · simp only [c, if_true, Prod.mk.injEq] at heq
      refine ⟨_, _, (front o).1.writers.length, heq.1, (hs.mono (by omega) (Nat.le_refl _)).ids_mono h6, rfl, rfl, ?_, hkeys⟩
      intro w hw
      simp only [Step.writers, openMany, Option.toList_none, List.append_nil, List.mem_map] at hw
      obtain ⟨⟨a, i⟩, hm, rfl⟩ := hw
      exact (List.mem_zipIdx hm).1
    · simp only [c, Prod.mk.injEq] at heq
      refine ⟨_, _, (front o).1.writers.length, heq.1, (hs.mono (by omega) (Nat.le_refl _)).ids_mono h6, rfl, rfl, ?_, ?_⟩
      · intro w hw
        simp only [Step.writers, openMany, List.mem_append, List.mem_map, Option.toList_some, List.mem_singleton,
          List.length_append, List.length_map] at hw
        rcases hw with ⟨⟨a, i⟩, hm, rfl⟩ | rfl
        · exact (List.mem_zipIdx hm).1
        · omega
      · rw [List.filterMap_append]
        exact (List.Sublist.append hs.idents (List.Sublist.refl _)).trans h6u
  · by_cases hd2 : dm = 2
    · simp only [hd2, if_true, Prod.mk.injEq] at heq
      simp only [show (2 : Nat) = 1 ↔ False by decide, if_false] at heq
      refine ⟨_, _, (front o).1.writers.length, heq.1, (hs.mono (by omega) (Nat.le_refl _)).ids_mono h6, rfl, rfl, ?_, ?_⟩
      · intro w hw
        simp only [Step.writers, openMany, List.mem_map] at hw
        obtain ⟨⟨a, i⟩, hm, rfl⟩ := hw
        exact (List.mem_zipIdx hm).1
      · rw [List.filterMap_append]
        exact (List.Sublist.append hs.idents (List.Sublist.refl _)).trans h6u
    · simp only [hd1, hd2, if_false, Prod.mk.injEq] at heq
      obtain ⟨hu, hle⟩ := untrimmed_built o names names2 (o.pairFilter.getD .any) hs
      refine ⟨_, _, _, heq.1, hu, rfl, rfl, ?_, ?_⟩
      · intro w hw
        simp only [Step.writers, List.mem_singleton] at hw
        omega
      · rw [List.filterMap_append]
        simpa [Step.filterIdent] using hu.idents
end Cutadapt.Steps
