import Cutadapt.Proofs.DpExactAnchored
/-! Exactness of the banded DP, part 8: the cell recurrence in pointwise form; origins right of an error-free copy. -/
namespace Cutadapt.Align.Exact
open Cutadapt Cutadapt.Align Cutadapt.Spec Cutadapt.Generated Cutadapt.Align.Sound Cutadapt.MatchSound

theorem fillCells_getD (cfg : Cfg) (ascii : Bool) (q : Sym) (last : Nat) (d : Entry) :
    ∀ (olds : List Entry) (rs : List Sym) (i0 : Nat) (diag prevNew : Entry), olds.length ≤ rs.length →
    ∀ t, t < olds.length →
      (fillCells cfg ascii q last (i0+1) diag prevNew rs olds).getD t d =
        if i0 + 1 + t ≤ last then
          cell cfg (charsEqual ascii (rs.getD t 0) q) (if t = 0 then diag else olds.getD (t-1) d) (olds.getD t d)
            (if t = 0 then prevNew else (fillCells cfg ascii q last (i0+1) diag prevNew rs olds).getD (t-1) d)
        else olds.getD t d
  | [], _, _, _, _, _, t, ht => by simp at ht
  | _ :: _, [], _, _, _, h, _, _ => by simp at h
  | cur :: olds, r :: rs, i0, diag, prevNew, hlen, t, ht => by
    have hlen' : olds.length ≤ rs.length := by simpa using hlen
    rw [fillCells]
    by_cases hle : i0 + 1 ≤ last
    · simp only [hle, if_true]
      cases t with
      | zero => simp [hle]
      | succ t =>
        have ht' : t < olds.length := by simpa using ht
        have ih := fillCells_getD cfg ascii q last d olds rs (i0+1) cur
          (cell cfg (charsEqual ascii r q) diag cur prevNew) hlen' t ht'
        simp only [List.getD_cons_succ, Nat.add_sub_cancel]
        rw [ih]
        have e : i0 + 1 + 1 + t = i0 + 1 + (t + 1) := by omega
        rw [e]
        split
        · congr 1
          · cases t with
            | zero => simp
            | succ t => simp
          · cases t with
            | zero => simp
            | succ t => simp
        · rfl
    · simp only [hle, if_false]
      rw [if_neg (by omega)]

end Cutadapt.Align.Exact
