import Cutadapt.Proofs.DpExactMain
/-! Exactness of the banded DP, part 5: an acceptable end cell within the band is always found. -/
namespace Cutadapt.Align.Exact
open Cutadapt Cutadapt.Align Cutadapt.Spec Cutadapt.Generated Cutadapt.Align.Sound

/-- end cell `(i, j)` is within the band and every cell content the DP may hold there passes the acceptance test -/
def Qual (cfg : Cfg) (ref query : Bytes) (i j : Nat) : Prop :=
  D (mkCtx cfg ref query) (minNOf cfg ref.length query.length) i (j - minNOf cfg ref.length query.length) ≤ cfg.k ∧
  ∀ e : Entry, Good (mkCtx cfg ref query) i j e →
    e.cost ≤ D (mkCtx cfg ref query) (minNOf cfg ref.length query.length) i (j - minNOf cfg ref.length query.length) →
    accB cfg ref ref.length i e = true

structure InvF (cfg : Cfg) (ref query : Bytes) (j : Nat) (s : LoopState) : Prop where
  rowFound : cfg.stopInQuery = true → ∀ j', minNOf cfg ref.length query.length < j' → j' ≤ j →
    Qual cfg ref query ref.length j' → s.best.found = true
  filled : s.done = false → minNOf cfg ref.length query.length < j → ∀ i, s.lastFilled < i → i ≤ ref.length →
    cfg.k < D (mkCtx cfg ref query) (minNOf cfg ref.length query.length) i (j - minNOf cfg ref.length query.length)

theorem shrinkLast_full (k : Nat) (col : List Entry) (m : Nat) (h : (col.getD m default).cost ≤ k) :
    shrinkLast k col m = m + 1 := by
  cases m with
  | zero => unfold shrinkLast; rw [if_neg (by omega)]
  | succ l => unfold shrinkLast; rw [if_neg (by omega)]

theorem columnLoop_F {cfg : Cfg} {ref query : Bytes} (hwf : cfg.WF ref.length) {j : Nat}
    (hj : j < query.length) {s : LoopState} (h : Inv cfg ref query j s) (hu : InvU cfg ref query j s)
    (hf : InvF cfg ref query j s) :
    InvF cfg ref query (j+1) (columnLoop cfg (compareAscii cfg) (encodeRef cfg ref) ref ref.length s
      (j+1, (encodeQuery cfg query)[j]'(by rw [encodeQuery_length]; exact hj))) := by
  have hge := hu.ge
  by_cases hd : s.done = true
  · unfold columnLoop
    simp only [hd, if_true]
    refine ⟨fun hsq j' h1 h2 hq => ?_, fun h' => (by rw [hd] at h'; cases h')⟩
    exact (h.doneBest hd).1
  · have hd' : s.done = false := by simpa using hd
    have hcol := h.col hd'
    have hmlen : (mkCtx cfg ref query).ref.length = ref.length := encodeRef_length cfg ref
    have hj' : j < (mkCtx cfg ref query).query.length := by
      show j < (encodeQuery cfg query).length
      rw [encodeQuery_length]; exact hj
    have hstep : ColInv (mkCtx cfg ref query) (j+1) s.last (stepColumn cfg (compareAscii cfg) (encodeRef cfg ref)
        (encodeQuery cfg query)[j] s.last s.col) := stepColumn_inv hwf.indel_pos hj' hcol
    have e1 : j + 1 - minNOf cfg ref.length query.length = j - minNOf cfg ref.length query.length + 1 := by omega
    have hU : ∀ i, i ≤ ref.length → UCell (mkCtx cfg ref query) (minNOf cfg ref.length query.length) i
        (j + 1 - minNOf cfg ref.length query.length)
        ((stepColumn cfg (compareAscii cfg) (encodeRef cfg ref) (encodeQuery cfg query)[j] s.last s.col).getD i default) := by
      intro i hi
      rw [e1]
      exact stepColumn_U (ctx := mkCtx cfg ref query) (by omega) hj' hcol (hu.u hd') i (by rw [hmlen]; exact hi)
    have hhigh : ∀ i, s.last < i → i ≤ ref.length → cfg.k <
        D (mkCtx cfg ref query) (minNOf cfg ref.length query.length) i (j + 1 - minNOf cfg ref.length query.length) := by
      intro i h1 h2
      rw [e1]
      exact D_high_beyond (hu.u hd') i h1 (by rw [hmlen]; exact h2)
    -- the last-row event of column j+1
    have hrow : cfg.stopInQuery = true → Qual cfg ref query ref.length (j+1) →
        (columnLoop cfg (compareAscii cfg) (encodeRef cfg ref) ref ref.length s
          (j+1, (encodeQuery cfg query)[j]'(by rw [encodeQuery_length]; exact hj))).best.found = true := by
      intro hsq ⟨hq1, hq2⟩
      have hlast : s.last = ref.length := by
        have := h.last_le
        apply Nat.le_antisymm this
        apply Nat.le_of_not_lt; intro hlt
        have := hhigh ref.length hlt (Nat.le_refl _)
        omega
      have hcost := hU ref.length (Nat.le_refl _) hq1
      have hgood := (hstep.cells ref.length (by rw [hmlen]; exact Nat.le_refl _)).1
        (by show _ ≤ cfg.k; omega)
      have hacc := hq2 _ hgood hcost
      rw [columnLoop_eq _ _ _ _ _ _ _ _ hd']
      rw [hlast] at hcost hacc ⊢
      rw [shrinkLast_full _ _ _ (by omega)]
      simp only [Nat.lt_irrefl, if_false, hsq, if_true]
      unfold rowUpd
      rw [hacc]
      cases hfd : s.best.found
      · simp
      · simp [hfd]
    have hmono : s.best.found = true →
        (columnLoop cfg (compareAscii cfg) (encodeRef cfg ref) ref ref.length s
          (j+1, (encodeQuery cfg query)[j]'(by rw [encodeQuery_length]; exact hj))).best.found = true := by
      intro hfd
      rw [columnLoop_eq _ _ _ _ _ _ _ _ hd']
      split
      · exact hfd
      · split
        · split
          · rfl
          · exact hfd
        · exact hfd
    refine ⟨fun hsq j' h1 h2 hq => ?_, fun hdn _ i h1 h2 => ?_⟩
    · by_cases hjj : j' = j + 1
      · subst hjj; exact hrow hsq hq
      · exact hmono (hf.rowFound hsq j' h1 (by omega) hq)
    · have hlf : (columnLoop cfg (compareAscii cfg) (encodeRef cfg ref) ref ref.length s
          (j+1, (encodeQuery cfg query)[j]'(by rw [encodeQuery_length]; exact hj))).lastFilled = s.last := by
        rw [columnLoop_eq _ _ _ _ _ _ _ _ hd']
        split
        · rfl
        · split
          · split <;> rfl
          · rfl
      rw [hlf] at h1
      exact hhigh i h1 h2

end Cutadapt.Align.Exact
