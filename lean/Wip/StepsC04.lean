import Cutadapt.Proofs.StepsReport
/-! # C04 — each read is written once or counted as filtered once; totals add up

Model: `Cutadapt.Pipeline` (`stepS`, `stepP`, `runStepsS/P`, `processReadS/P`, `runSingle/runPaired`),
`Cutadapt.Stats` (`summarize`, `collectFiltered`). A run produces an event log; statistics are folds over it.
All theorems hold for every step list of the shape `make_pipeline_from_args` builds (`Terminal`), every modifier list,
every read. Helper lemmas: `Cutadapt/Proofs/StepsCore.lean`, `StepsFate.lean`. -/
namespace Cutadapt.C04
open Cutadapt Cutadapt.Steps

/-- The shape of the step list of every pipeline: rest/info/wildcard writers and filters, closed by exactly one
    sink, demultiplexer or combinatorial demultiplexer. -/
def Terminal (steps : List Step) : Prop :=
  ∃ pre last, steps = pre ++ [last] ∧ (∀ s ∈ pre, s.isPass = true) ∧ last.isFinal = true

/-! ## One fate per read -/

/-- Single-end. The events a terminal step list appends for one read contain exactly one fate event (`sinkStat` = counted as
    written, `filtered k` = counted in the category of step `k`) and at most one `write`; a `sinkStat` belongs to the last
    step, carries the length of the read and comes with exactly one `write` of this read to a writer of the last step;
    a `filtered k` belongs to a step `k` that has a filter category, and any `write` next to it is the redirect file of
    exactly that filter, receiving this read. -/
theorem each_read_one_fate {ads : List Matchable} {steps : List Step} {idx : Nat} {r : Read} {i : Info}
    {evs0 evs : List Event} (ht : Terminal steps) (h : runStepsS ads steps idx r i evs0 = .ok evs) :
    ∃ app, evs = evs0 ++ app ∧
      app.countP isFate = 1 ∧ app.countP isWrite ≤ 1 ∧ app.countP isInput = 0 ∧
      (∀ k l1 l2, Event.sinkStat k l1 l2 ∈ app →
          k + 1 = idx + steps.length ∧ l1 = r.len ∧ l2 = none ∧
          ∃ w, w ∈ lastWriters steps ∧ app.filter isWrite = [.write w r none]) ∧
      (∀ k, Event.filtered k ∈ app → idx ≤ k ∧
          ∃ s, steps[k - idx]? = some s ∧ s.filterIdent.isSome = true ∧
            ∀ w a b, Event.write w a b ∈ app → a = r ∧ b = none ∧ ∃ p1 p2 mode, s = .filter p1 p2 mode (some w)) := by
  obtain ⟨pre, last, rfl, hp, hl⟩ := ht
  obtain ⟨texts, tail, rfl, htx, htl⟩ := runStepsS_terminal hp hl h
  exact ⟨texts ++ tail, by simp, fate_of_tail htx htl⟩

/-- Paired-end: the same for a pair; the `write` carries both mates. -/
theorem each_pair_one_fate {a1 a2 : List Matchable} {steps : List Step} {idx : Nat} {r1 r2 : Read} {i : Info × Info}
    {evs0 evs : List Event} (ht : Terminal steps) (h : runStepsP a1 a2 steps idx (r1, r2) i evs0 = .ok evs) :
    ∃ app, evs = evs0 ++ app ∧
      app.countP isFate = 1 ∧ app.countP isWrite ≤ 1 ∧ app.countP isInput = 0 ∧
      (∀ k l1 l2, Event.sinkStat k l1 l2 ∈ app →
          k + 1 = idx + steps.length ∧ l1 = r1.len ∧ l2 = some r2.len ∧
          ∃ w, w ∈ lastWriters steps ∧ app.filter isWrite = [.write w r1 (some r2)]) ∧
      (∀ k, Event.filtered k ∈ app → idx ≤ k ∧
          ∃ s, steps[k - idx]? = some s ∧ s.filterIdent.isSome = true ∧
            ∀ w a b, Event.write w a b ∈ app → a = r1 ∧ b = some r2 ∧ ∃ p1 p2 mode, s = .filter p1 p2 mode (some w)) := by
  obtain ⟨pre, last, rfl, hp, hl⟩ := ht
  obtain ⟨texts, tail, rfl, htx, htl⟩ := runStepsP_terminal hp hl h
  exact ⟨texts ++ tail, by simp, fate_of_tail htx htl⟩

/-- a concrete pipeline tail: `-m 3 --too-short-output`, `--max-n 0`, then the sink -/
def exSteps : List Step :=
  [.restWriter 0, .filter (some (.tooShort 3)) none .any (some 0), .filter (some (.tooManyN 0)) none .any none, .sink 1]
def exRead (s : Bytes) : Read := ⟨[114], s, none⟩

theorem exSteps_terminal : Terminal exSteps :=
  ⟨[.restWriter 0, .filter (some (.tooShort 3)) none .any (some 0), .filter (some (.tooManyN 0)) none .any none], .sink 1,
   rfl, by simp [Step.isPass], rfl⟩

example : runStepsS [] exSteps 0 (exRead [65, 67]) { original := exRead [65, 67] } [] =
    .ok [.filtered 1, .write 0 (exRead [65, 67]) none] := by rfl
example : runStepsS [] exSteps 0 (exRead [65, 67, 71, 84]) { original := exRead [65, 67, 71, 84] } [] =
    .ok [.write 1 (exRead [65, 67, 71, 84]) none, .sinkStat 3 4 none] := by rfl

/-! ## The statistics are sums over the log -/

/-- `summarize` is a monoid homomorphism from event logs (with `++`) to summaries with componentwise addition
    (`IsSum`; the per-step and per-length tables are compared entry by entry through `getCount`). -/
theorem summarize_append (a b : List Event) : IsSum (summarize (a ++ b)) [summarize a, summarize b] := by
  simpa using summarize_flatten [a, b]

/-- every reported figure of an error-free run is the sum of the figures of the individual reads -/
theorem figures_are_sums_over_reads_single {p : SinglePipeline} {reads : List Read} {evs : List Event}
    (h : runSingle p reads = (evs, none)) :
    evs = (reads.map (evsOf (processReadS p))).flatten ∧
    IsSum (summarize evs) (reads.map (fun r => summarize (evsOf (processReadS p) r))) :=
  ⟨(run_is_concat h).1, summarize_run h⟩

theorem figures_are_sums_over_reads_paired {p : PairedPipeline} {reads : List (Read × Read)} {evs : List Event}
    (h : runPaired p reads = (evs, none)) :
    evs = (reads.map (evsOf (processReadP p))).flatten ∧
    IsSum (summarize evs) (reads.map (fun r => summarize (evsOf (processReadP p) r))) :=
  ⟨(run_is_concat h).1, summarize_run h⟩

/-- Single-end totals of an error-free run: the input count is the number of reads; input = written + Σ filter counters;
    the written count is the number of `sinkStat` events; input bases are the bases of the reads; and, when no redirect
    file shares a writer with the last step, written reads / bases are exactly the records that the writers of the last
    step received. -/
theorem counts_add_up_single {p : SinglePipeline} {reads : List Read} {evs : List Event}
    (ht : Terminal p.steps) (h : runSingle p reads = (evs, none)) :
    (summarize evs).n = reads.length ∧
    (summarize evs).n = (summarize evs).written + ((summarize evs).filteredByStep.map (·.2)).sum ∧
    (summarize evs).written = evs.countP isSinkStat ∧
    (summarize evs).bp1 = (reads.map Read.len).sum ∧
    (summarize evs).bp2 = 0 ∧
    (RedirectsApart p.steps →
      (summarize evs).written = (recordsTo (lastWriters p.steps) evs).length ∧
      (summarize evs).writtenBp1 = ((recordsTo (lastWriters p.steps) evs).map (·.1.len)).sum ∧
      (summarize evs).writtenBp2 = 0 ∧
      ∀ x ∈ recordsTo (lastWriters p.steps) evs, x.2 = none) := by
  have hlog : ∀ r e, processReadS p r = .ok e → ∃ r1 r2, ReadLog p.steps (Read.len r) ((fun _ => none) r) r1 r2 e :=
    fun r e he => by obtain ⟨r', _, _, _, _, hl⟩ := processReadS_log ht he; exact ⟨r', none, hl⟩
  obtain ⟨h1, h2, h3, h4, h5, h6⟩ := counts_of_logs hlog h
  refine ⟨h1, h2, h3, h4, by rw [h5]; exact sum_map_zero _, fun hd => ?_⟩
  obtain ⟨g1, g2, g3⟩ := h6 hd
  have hnone : ∀ x ∈ recordsTo (lastWriters p.steps) evs, x.2 = none := by
    intro x hx
    rw [(run_is_concat h).1] at hx
    simp only [recordsTo, List.mem_filterMap, List.mem_flatten, List.mem_map] at hx
    obtain ⟨ev, ⟨l, ⟨r, hr, rfl⟩, hev⟩, hx⟩ := hx
    obtain ⟨r', _, _, _, _, cnt, texts, tail, he, hc, htx, htl⟩ := processReadS_log ht ((run_is_concat h).2 r hr)
    cases ev with
    | write w a b =>
      split at hx
      · simp only [Option.some.injEq] at hx
        subst hx
        rw [he] at hev
        simp only [List.mem_cons, reduceCtorEq, false_or, List.mem_append] at hev
        rcases hev with hev | hev
        · have := hc _ hev; simp [isCounter] at this
        · have := fate_of_tail htx htl
          cases htl with
          | written k s w' e hk hl hf hw he' =>
            rcases hev with hev | hev
            · have := htx _ hev; simp [isText] at this
            · rcases he' with rfl | rfl <;> simp at hev <;> simp [hev]
          | filtered k s w' hk hi hs =>
            rcases hev with hev | hev
            · have := htx _ hev; simp [isText] at this
            · cases w' <;> simp [redir] at hev
              simp [hev]
      · simp at hx
    | _ => simp at hx
  refine ⟨g1, g2, ?_, hnone⟩
  rw [g3]
  have : ∀ x ∈ recordsTo (lastWriters p.steps) evs, (x.2.map Read.len).getD 0 = 0 := fun x hx => by simp [hnone x hx]
  rw [List.map_congr_left this]
  exact sum_map_zero _

/-- Paired-end totals of an error-free run. -/
theorem counts_add_up_paired {p : PairedPipeline} {reads : List (Read × Read)} {evs : List Event}
    (ht : Terminal p.steps) (h : runPaired p reads = (evs, none)) :
    (summarize evs).n = reads.length ∧
    (summarize evs).n = (summarize evs).written + ((summarize evs).filteredByStep.map (·.2)).sum ∧
    (summarize evs).written = evs.countP isSinkStat ∧
    (summarize evs).bp1 = (reads.map (·.1.len)).sum ∧
    (summarize evs).bp2 = (reads.map (·.2.len)).sum ∧
    (RedirectsApart p.steps →
      (summarize evs).written = (recordsTo (lastWriters p.steps) evs).length ∧
      (summarize evs).writtenBp1 = ((recordsTo (lastWriters p.steps) evs).map (·.1.len)).sum ∧
      (summarize evs).writtenBp2 = ((recordsTo (lastWriters p.steps) evs).map (fun x => (x.2.map Read.len).getD 0)).sum) := by
  have hlog : ∀ r e, processReadP p r = .ok e →
      ∃ r1 r2, ReadLog p.steps ((fun r : Read × Read => r.1.len) r) ((fun r : Read × Read => some r.2.len) r) r1 r2 e :=
    fun r e he => by obtain ⟨r', _, _, _, _, hl⟩ := processReadP_log ht he; exact ⟨r'.1, some r'.2, hl⟩
  obtain ⟨h1, h2, h3, h4, h5, h6⟩ := counts_of_logs hlog h
  exact ⟨h1, h2, h3, h4, by simpa using h5, h6⟩
end Cutadapt.C04
