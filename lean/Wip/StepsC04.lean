import Cutadapt.Proofs.StepsFate
/-! # C04 — each read is written once or counted as filtered once; totals add up

Model: `Cutadapt.Pipeline` (`stepS`, `stepP`, `runStepsS/P`, `processReadS/P`, `runSingle/runPaired`),
`Cutadapt.Stats` (`summarize`, `collectFiltered`). A run produces an event log; statistics are folds over it.
All theorems hold for every step list of the shape `make_pipeline_from_args` builds (`Terminal`), every modifier list,
every read. Helper lemmas: `Cutadapt/Proofs/StepsCore.lean`, `StepsFate.lean`. -/
namespace Cutadapt.C04
open Cutadapt Cutadapt.Steps

/-- The shape of the step list of every pipeline: rest/info/wildcard writers and filters, closed by exactly one
    sink, demultiplexer or combinatorial demultiplexer. -/
def Terminal (steps : List Step) : Prop :=
  ∃ pre last, steps = pre ++ [last] ∧ (∀ s ∈ pre, s.isPass = true) ∧ last.isFinal = true

/-! ## One fate per read -/

/-- Single-end. The events a terminal step list appends for one read contain exactly one fate event (`sinkStat` = counted as
    written, `filtered k` = counted in the category of step `k`) and at most one `write`; a `sinkStat` belongs to the last
    step, carries the length of the read and comes with exactly one `write` of this read to a writer of the last step;
    a `filtered k` belongs to a step `k` that has a filter category, and any `write` next to it is the redirect file of
    exactly that filter, receiving this read. -/
theorem each_read_one_fate {ads : List Matchable} {steps : List Step} {idx : Nat} {r : Read} {i : Info}
    {evs0 evs : List Event} (ht : Terminal steps) (h : runStepsS ads steps idx r i evs0 = .ok evs) :
    ∃ app, evs = evs0 ++ app ∧
      app.countP isFate = 1 ∧ app.countP isWrite ≤ 1 ∧ app.countP isInput = 0 ∧
      (∀ k l1 l2, Event.sinkStat k l1 l2 ∈ app →
          k + 1 = idx + steps.length ∧ l1 = r.len ∧ l2 = none ∧
          ∃ w, w ∈ lastWriters steps ∧ app.filter isWrite = [.write w r none]) ∧
      (∀ k, Event.filtered k ∈ app → idx ≤ k ∧
          ∃ s, steps[k - idx]? = some s ∧ s.filterIdent.isSome = true ∧
            ∀ w a b, Event.write w a b ∈ app → a = r ∧ b = none ∧ ∃ p1 p2 mode, s = .filter p1 p2 mode (some w)) := by
  obtain ⟨pre, last, rfl, hp, hl⟩ := ht
  obtain ⟨texts, tail, rfl, htx, htl⟩ := runStepsS_terminal hp hl h
  exact ⟨texts ++ tail, by simp, fate_of_tail htx htl⟩

/-- Paired-end: the same for a pair; the `write` carries both mates. -/
theorem each_pair_one_fate {a1 a2 : List Matchable} {steps : List Step} {idx : Nat} {r1 r2 : Read} {i : Info × Info}
    {evs0 evs : List Event} (ht : Terminal steps) (h : runStepsP a1 a2 steps idx (r1, r2) i evs0 = .ok evs) :
    ∃ app, evs = evs0 ++ app ∧
      app.countP isFate = 1 ∧ app.countP isWrite ≤ 1 ∧ app.countP isInput = 0 ∧
      (∀ k l1 l2, Event.sinkStat k l1 l2 ∈ app →
          k + 1 = idx + steps.length ∧ l1 = r1.len ∧ l2 = some r2.len ∧
          ∃ w, w ∈ lastWriters steps ∧ app.filter isWrite = [.write w r1 (some r2)]) ∧
      (∀ k, Event.filtered k ∈ app → idx ≤ k ∧
          ∃ s, steps[k - idx]? = some s ∧ s.filterIdent.isSome = true ∧
            ∀ w a b, Event.write w a b ∈ app → a = r1 ∧ b = some r2 ∧ ∃ p1 p2 mode, s = .filter p1 p2 mode (some w)) := by
  obtain ⟨pre, last, rfl, hp, hl⟩ := ht
  obtain ⟨texts, tail, rfl, htx, htl⟩ := runStepsP_terminal hp hl h
  exact ⟨texts ++ tail, by simp, fate_of_tail htx htl⟩

/-- a concrete pipeline tail: `-m 3 --too-short-output`, `--max-n 0`, then the sink -/
def exSteps : List Step :=
  [.restWriter 0, .filter (some (.tooShort 3)) none .any (some 0), .filter (some (.tooManyN 0)) none .any none, .sink 1]
def exRead (s : Bytes) : Read := ⟨[114], s, none⟩

theorem exSteps_terminal : Terminal exSteps :=
  ⟨[.restWriter 0, .filter (some (.tooShort 3)) none .any (some 0), .filter (some (.tooManyN 0)) none .any none], .sink 1,
   rfl, by simp [Step.isPass], rfl⟩

example : runStepsS [] exSteps 0 (exRead [65, 67]) { original := exRead [65, 67] } [] =
    .ok [.filtered 1, .write 0 (exRead [65, 67]) none] := by rfl
example : runStepsS [] exSteps 0 (exRead [65, 67, 71, 84]) { original := exRead [65, 67, 71, 84] } [] =
    .ok [.write 1 (exRead [65, 67, 71, 84]) none, .sinkStat 3 4 none] := by rfl
end Cutadapt.C04
