import Wip.OrderBest
/-! # C09 — best-adapter choice, repeated rounds (`--times`) and linked adapters follow the rules

Model: `bestMatch` (= `MultipleAdapters.match_to`, index-free), `rounds`/`matchAndTrim` (= `AdapterCutter.match_and_trim`),
`Matchable.matchTo … (.linked …)` (= `LinkedAdapter.match_to`), `applyS … (.adapters …)` (= `AdapterCutter.__call__`).
All theorems hold for every adapter list, every read and every option value. -/
namespace Cutadapt.C09
open Cutadapt Cutadapt.Adapters

/-! ## Best-adapter choice -/

/-- **The applied match is the arg-max**: the result of `MultipleAdapters.match_to` is the match of some adapter `k`
    of the list, and every other adapter's match has a lower score, or the same score and more errors, or the same
    score and errors and a later position. -/
theorem best_is_argmax (ads : List Matchable) (s : Bytes) (m : AnyMatch) (h : bestMatch ads s = some m) :
    ∃ k, (ads[k]?.bind (·.matchTo k s)) = some m ∧
      ∀ (j : Nat) (a : Matchable) (m' : AnyMatch), ads[j]? = some a → a.matchTo j s = some m' →
        (m'.score < m.score ∨ (m'.score = m.score ∧ m.errors < m'.errors) ∨
         (m'.score = m.score ∧ m'.errors = m.errors ∧ k ≤ j)) :=
  bestMatch_some_spec ads s m h

/-- no match is reported iff no adapter matches -/
theorem best_none_iff (ads : List Matchable) (s : Bytes) :
    bestMatch ads s = none ↔ ∀ (j : Nat) (a : Matchable), ads[j]? = some a → a.matchTo j s = none :=
  bestMatch_none_iff ads s

/-- the winner is unique: two adapters cannot both satisfy the arg-max condition with different positions -/
theorem best_position_unique (ads : List Matchable) (s : Bytes) (m : AnyMatch) (k k' : Nat)
    (hk : (ads[k]?.bind (·.matchTo k s)) = some m) (hk' : (ads[k']?.bind (·.matchTo k' s)) = some m)
    (hd : ∀ (j : Nat) (a : Matchable) (m' : AnyMatch), ads[j]? = some a → a.matchTo j s = some m' → Dominates m k m' j)
    (hd' : ∀ (j : Nat) (a : Matchable) (m' : AnyMatch), ads[j]? = some a → a.matchTo j s = some m' → Dominates m k' m' j) :
    k = k' := by
  cases h1 : ads[k]? with
  | none => simp [h1] at hk
  | some a =>
    cases h2 : ads[k']? with
    | none => simp [h2] at hk'
    | some a' =>
      simp [h1] at hk; simp [h2] at hk'
      have d1 := hd k' a' m h2 hk'
      have d2 := hd' k a m h1 hk
      unfold Dominates at d1 d2
      omega

/-! ## Rounds (`--times`) -/

/-- **One adapter per round, each round on the already trimmed read, stop at the first round without a match or at
    the limit.** With `r_0 = read`, `r_{i+1} = ms[i].trimmed r_i` (`readAfter read ms i = r_i`). -/
theorem rounds_spec (ads : List Matchable) (t : Nat) (read tr : Read) (ms : List AnyMatch)
    (h : rounds ads t read [] = (tr, ms)) :
    ms.length ≤ t ∧
    (∀ i (hi : i < ms.length), bestMatch ads (readAfter read ms i).seq = some ms[i]) ∧
    (∀ i (hi : i < ms.length), readAfter read ms (i+1) = ms[i].trimmed (readAfter read ms i)) ∧
    readAfter read ms 0 = read ∧
    tr = readAfter read ms ms.length ∧
    (ms.length < t → bestMatch ads tr.seq = none) := by
  have := Cutadapt.rounds_spec ads t read
  rw [h] at this
  obtain ⟨h1, h2, h3, h4⟩ := this
  exact ⟨h1, h2, fun i hi => readAfter_succ read ms i hi, readAfter_zero read ms, h3, h4⟩

theorem action_beq (a b : Action) : (a == b) = decide (a = b) := by cases a <;> cases b <;> rfl

/-- the read the cutter works on: upper-cased first under the `lowercase` action (that is what the code does) -/
def inputOf (c : Cutter) (read : Read) : Read :=
  if c.action == .lowercase then { read with seq := upperBytes read.seq } else read

/-- the fast path `_match_and_trim_once_action_trim` agrees with the general loop -/
theorem fast_path_is_one_round (c : Cutter) (read : Read) (h : (c.times == 1 && c.action == .trim) = true) :
    matchAndTrim c read = .ok ((rounds c.adapters 1 read []).1, (rounds c.adapters 1 read []).2, read) := by
  unfold matchAndTrim
  rw [if_pos h]
  cases hb : bestMatch c.adapters read.seq <;> simp [rounds, hb]

/-- **Action `trim`**: the result is the read after all rounds -/
theorem trim_result (c : Cutter) (read tr : Read) (ms : List AnyMatch) (ha : c.action = .trim)
    (h : rounds c.adapters c.times read [] = (tr, ms)) :
    matchAndTrim c read = .ok (tr, ms, read) := by
  by_cases hf : (c.times == 1 && c.action == .trim) = true
  · rw [fast_path_is_one_round c read hf]
    have : c.times = 1 := by simp at hf; exact hf.1
    rw [this] at h; rw [h]
  · unfold matchAndTrim
    rw [if_neg hf]
    simp only [ha]
    have e : (if (Action.trim == Action.lowercase) = true then { read with seq := upperBytes read.seq } else read) = read := by
      simp [action_beq]
    rw [e, h]
    cases hl : ms.getLast? with
    | none =>
      have : ms = [] := by simpa using hl
      subst this
      have h1 := (rounds_spec _ _ _ _ _ h).2.2.2.2.1
      simp only [readAfter, List.length_nil, List.take_nil, List.foldl_nil] at h1
      rw [h1]
    | some l => rfl

/-- **Non-trim actions are applied once, to the original read, over all matches**: under `(rounds … = (tr, ms)) ∧ ms ≠ []`
    the results of `mask`, `lowercase`, `retain`, `crop`, `none` are computed from the input read (upper-cased first for
    `lowercase`) and the complete match list — not from the successively trimmed read `tr`. -/
theorem nontrim_actions_once (c : Cutter) (read tr : Read) (ms : List AnyMatch)
    (h : rounds c.adapters c.times (inputOf c read) [] = (tr, ms)) (hne : ms ≠ []) :
    (c.action = .mask → matchAndTrim c read = .ok (maskedRead read ms, ms, read)) ∧
    (c.action = .lowercase → matchAndTrim c read =
        .ok (lowercasedRead (inputOf c read) ms, ms, inputOf c read) ∧ inputOf c read = { read with seq := upperBytes read.seq }) ∧
    (c.action = .retain → matchAndTrim c read =
        .ok (read.sub (ms.getLast hne).retainedAdapterInterval.1 (ms.getLast hne).retainedAdapterInterval.2, ms, read)) ∧
    (c.action = .crop → matchAndTrim c read =
        match ms.getLast hne with
        | .single _ r => .ok (read.sub r.m.rstart r.m.rstop, ms, read)
        | .linked _ _ _ => .error .attribute) ∧
    (c.action = .none → matchAndTrim c read = .ok (read, ms, read)) := by
  have hl : ms.getLast? = some (ms.getLast hne) := List.getLast?_eq_some_getLast hne
  refine ⟨?_, ?_, ?_, ?_, ?_⟩ <;> intro ha <;>
    (have hf : ¬ (c.times == 1 && c.action == .trim) = true := by simp [ha, action_beq]) <;>
    unfold matchAndTrim <;> rw [if_neg hf] <;> simp only [inputOf, ha, action_beq] at h ⊢
  · simp at h; simp [h, hl]
  · simp at h; simp [h, hl]
  · simp at h; simp [h, hl]
  · simp at h; simp [h, hl]
    cases ms.getLast hne <;> simp
  · simp at h; simp [h, hl]

/-- **No match: the read is untouched** (for `lowercase`: upper-cased — the code upper-cases before searching and
    returns that object). Covers both the fast path and the general path. -/
theorem no_match_untouched (c : Cutter) (read : Read)
    (h : bestMatch c.adapters (inputOf c read).seq = none ∨ c.times = 0) :
    matchAndTrim c read = .ok (inputOf c read, [], inputOf c read) := by
  by_cases hf : (c.times == 1 && c.action == .trim) = true
  · have ha : c.action = .trim := by simp [action_beq] at hf; exact hf.2
    have ht : c.times = 1 := by simp at hf; exact hf.1
    have hi : inputOf c read = read := by simp [inputOf, ha, action_beq]
    rw [hi] at h ⊢
    unfold matchAndTrim
    rw [if_pos hf]
    rcases h with h | h
    · simp [h]
    · omega
  · unfold matchAndTrim
    rw [if_neg hf]
    have hr : rounds c.adapters c.times (inputOf c read) [] = (inputOf c read, []) := by
      rcases h with h | h
      · cases ht : c.times with
        | zero => simp [rounds]
        | succ t => simp [rounds, h]
      · simp [h, rounds]
    unfold inputOf at hr
    simp only [hr]
    simp [inputOf]

/-- the converse: an empty match list means nothing matched in the first round (or `--times 0`) -/
theorem no_matches_iff (ads : List Matchable) (t : Nat) (read : Read) :
    (rounds ads t read []).2 = [] ↔ (bestMatch ads read.seq = none ∨ t = 0) := by
  cases t with
  | zero => simp [rounds]
  | succ t =>
    rw [rounds_succ]
    cases bestMatch ads read.seq <;> simp

/-! ## Linked adapters -/

/-- what remains of `s` after the front match (`sequence[front_match.trim_slice()]`) -/
def remainderAfter (s : Bytes) (fm : Option SingleMatch) : Bytes :=
  match fm with
  | some m => if m.before then s.drop m.rstop else s.take m.rstart
  | none => s

/-- the front adapter's match on `s` -/
def frontMatch (f : Adapter) (s : Bytes) : Option SingleMatch := Adapters.matchTo f s
/-- the back adapter's match: searched in what remains after the front match (in `s` itself when the front adapter did not match) -/
def backMatch (f b : Adapter) (s : Bytes) : Option SingleMatch := Adapters.matchTo b (remainderAfter s (frontMatch f s))

/-- `LinkedAdapter.match_to` in terms of the two searches -/
theorem linked_matchTo_eq (idx : Nat) (f b : Adapter) (fr br : Bool) (name : String) (s : Bytes) :
    Matchable.matchTo idx (.linked f b fr br name) s =
      if (fr && (frontMatch f s).isNone) = true then none
      else if ((backMatch f b s).isNone && (br || (frontMatch f s).isNone)) = true then none
      else some (.linked idx ((frontMatch f s).map (⟨·, s⟩)) ((backMatch f b s).map (⟨·, remainderAfter s (frontMatch f s)⟩))) := by
  rw [Matchable.matchTo]
  unfold backMatch frontMatch remainderAfter
  generalize Adapters.matchTo f s = fm
  cases fm <;> rfl

/-- **(1)** a linked adapter reports no match iff a required part is missing (or nothing matched at all) -/
theorem linked_none_iff (idx : Nat) (f b : Adapter) (fr br : Bool) (name : String) (s : Bytes) :
    Matchable.matchTo idx (.linked f b fr br name) s = none ↔
      ((fr = true ∧ frontMatch f s = none) ∨ (backMatch f b s = none ∧ (br = true ∨ frontMatch f s = none))) := by
  rw [linked_matchTo_eq]
  cases frontMatch f s <;> cases backMatch f b s <;> cases fr <;> cases br <;> simp

/-- **(2)** a returned match consists of exactly the front match on `s` (if the front adapter matched) and the back match on
    the remainder (if the back adapter matched there) -/
theorem linked_back_searched_in_remainder (idx : Nat) (f b : Adapter) (fr br : Bool) (name : String) (s : Bytes) (m : AnyMatch)
    (h : Matchable.matchTo idx (.linked f b fr br name) s = some m) :
    m = .linked idx ((frontMatch f s).map (⟨·, s⟩)) ((backMatch f b s).map (⟨·, remainderAfter s (frontMatch f s)⟩)) := by
  rw [linked_matchTo_eq] at h
  split at h
  · cases h
  · split at h
    · cases h
    · injection h with h; exact h.symm

/-- a 5' front adapter removes everything up to the end of its match: the back adapter is searched in `s.drop rstop` -/
theorem linked_remainder_front5 (f : Adapter) (s : Bytes) (fm : SingleMatch) (h : frontMatch f s = some fm)
    (hty : f.ty = .front ∨ f.ty = .rightmostFront ∨ f.ty = .nonInternalFront ∨ f.ty = .prefix) :
    remainderAfter s (frontMatch f s) = s.drop fm.rstop := by
  unfold frontMatch Adapters.matchTo at h
  rw [show frontMatch f s = some fm from by unfold frontMatch Adapters.matchTo; exact h]
  cases ha : alignment f s with
  | none => simp [ha] at h
  | some t =>
    obtain ⟨as, ae, rs, re, sc, er⟩ := t
    simp [ha] at h
    subst h
    rcases hty with e | e | e | e <;> simp [remainderAfter, removesBefore, e]

/-- the front part is present iff the front adapter matched on `s`, the back part iff the back adapter matched on the remainder -/
theorem linked_parts_iff (idx : Nat) (f b : Adapter) (fr br : Bool) (name : String) (s : Bytes) (a : Nat) (fp bp : Option MatchRec)
    (h : Matchable.matchTo idx (.linked f b fr br name) s = some (.linked a fp bp)) :
    a = idx ∧ (fp.isSome ↔ (frontMatch f s).isSome) ∧ (bp.isSome ↔ (backMatch f b s).isSome) ∧
    (fr = true → fp.isSome) ∧ (br = true → bp.isSome) ∧ (fp.isSome ∨ bp.isSome) := by
  have h2 := linked_back_searched_in_remainder idx f b fr br name s _ h
  have hn : ¬ (Matchable.matchTo idx (.linked f b fr br name) s = none) := by rw [h]; simp
  rw [linked_none_iff] at hn
  injection h2 with e1 e2 e3
  subst e1 e2 e3
  refine ⟨rfl, by simp, by simp, ?_, ?_, ?_⟩
  · intro hfr
    cases hf : frontMatch f s with
    | none => exact absurd (Or.inl ⟨hfr, hf⟩) hn
    | some _ => simp
  · intro hbr
    cases hb : backMatch f b s with
    | none => exact absurd (Or.inr ⟨hb, Or.inl hbr⟩) hn
    | some _ => simp
  · cases hf : frontMatch f s with
    | some _ => simp
    | none =>
      cases hb : backMatch f b s with
      | some _ => simp
      | none => exact absurd (Or.inr ⟨hb, Or.inr hf⟩) hn

/-- a single (non-linked) adapter never produces a linked match and vice versa -/
theorem linked_match_is_linked (idx : Nat) (f b : Adapter) (fr br : Bool) (name : String) (s : Bytes) (m : AnyMatch)
    (h : Matchable.matchTo idx (.linked f b fr br name) s = some m) : ∃ fp bp, m = .linked idx fp bp :=
  ⟨_, _, linked_back_searched_in_remainder idx f b fr br name s m h⟩

/-- **(3)** when the linked adapter is the only adapter and a required part is missing, the read is completely untouched:
    `matchAndTrim` returns it unchanged without matches … -/
theorem linked_none_untouched (c : Cutter) (f b : Adapter) (fr br : Bool) (name : String) (read : Read)
    (hc : c.adapters = [.linked f b fr br name])
    (h : Matchable.matchTo 0 (.linked f b fr br name) (inputOf c read).seq = none) :
    matchAndTrim c read = .ok (inputOf c read, [], inputOf c read) := by
  apply no_match_untouched
  left
  rw [hc, bestMatch_singleton, h]

/-- … hence `AdapterCutter.__call__` emits no `with_adapters`/`add_match` event and records no match: the read does not
    count as trimmed -/
theorem linked_none_not_counted (names : Names) (side : Nat) (c : Cutter) (first : Bool) (f b : Adapter) (fr br : Bool)
    (name : String) (read : Read) (info : Info)
    (hc : c.adapters = [.linked f b fr br name])
    (h : Matchable.matchTo 0 (.linked f b fr br name) (inputOf c read).seq = none) :
    ∃ info', applyS names side (.adapters c first) read info = .ok (inputOf c read, info', []) ∧ info'.mts = info.mts ∧
      info'.isRc = info.isRc ∧ info'.cutPrefix = info.cutPrefix ∧ info'.cutSuffix = info.cutSuffix := by
  have := linked_none_untouched c f b fr br name read hc h
  simp only [applyS, this]
  cases first <;> simp

/-- **(4)** `with_adapters` is incremented iff the cutter recorded at least one match for this read, once per read, followed by one
    `add_match` per applied match -/
theorem with_adapters_iff_match (names : Names) (side : Nat) (c : Cutter) (first : Bool) (r r' : Read) (i i' : Info)
    (evs : List Event) (h : applyS names side (.adapters c first) r i = .ok (r', i', evs)) :
    (Event.withAdapter side ∈ evs ↔ i'.mts ≠ i.mts) ∧
    ∃ ms, i'.mts = i.mts ++ ms ∧
      evs = (if ms = [] then [] else Event.withAdapter side :: ms.map (fun m => Event.matched side m false)) ∧
      (∃ tr ra, matchAndTrim c r = .ok (tr, ms, ra) ∧ r' = tr) := by
  simp only [applyS] at h
  cases hm : matchAndTrim c r with
  | error e => simp [hm] at h
  | ok t =>
    obtain ⟨tr, ms, ra⟩ := t
    simp only [hm] at h
    injection h with h
    injection h with h1 h
    injection h with h2 h3
    subst h1 h2 h3
    have hmem : ∀ (l : List AnyMatch), Event.withAdapter side ∉ l.map (fun m => Event.matched side m false) := by
      intro l hc
      simp at hc
    refine ⟨?_, ms, by cases first <;> simp, ?_, tr, ra, rfl, rfl⟩
    · cases ms with
      | nil => cases first <;> simp
      | cons m ms => cases first <;> simp
    · cases ms <;> simp

/-! ## Non-vacuity: concrete instances -/

def exAd (ty : AdapterType) (seq : Bytes) : Adapter :=
  { ty := ty, seq := seq, thr := fun L => L / 10, minOverlap := 3, readWildcards := false, adapterWildcards := false, indels := true }

/-- two 3' adapters, the second matches with a higher score: it wins although it is given second -/
example : (bestMatch [.single (exAd .back [65,65,65]), .single (exAd .back [67,67,67,67])] [71,71,67,67,67,67,65,65,65]).map
    (fun m => (m.adapter, m.score, m.errors)) = some (1, 4, 0) := by decide +kernel
/-- equal score and errors: the adapter given first wins -/
example : (bestMatch [.single (exAd .back [67,67,67]), .single (exAd .back [65,65,65])] [71,71,67,67,67,71,65,65,65]).map
    (fun m => (m.adapter, m.score, m.errors)) = some (0, 3, 0) := by decide +kernel
/-- `--times 2`: the second round searches the already trimmed read (`GGCCCG`), `--times 3` stops after the round without match -/
example : let r := rounds [.single (exAd .back [65,65,65]), .single (exAd .back [67,67,67])] 3 ⟨[], [71,71,67,67,67,71,65,65,65], none⟩ []
    (r.1.seq, r.2.map (·.adapter), r.2.map (·.remainderInterval)) = ([71, 71], [0, 1], [(0, 6), (0, 2)]) := by decide +kernel
/-- a linked adapter whose required 3' part is missing reports nothing (the read stays untouched) … -/
example : Matchable.matchTo 0 (.linked (exAd .prefix [65,65,65]) (exAd .back [67,67,67]) true true "l") [65,65,65,71,71,71] = none := by
  decide +kernel
/-- … with an optional 3' part the 5' part alone is a match … -/
example : (Matchable.matchTo 0 (.linked (exAd .prefix [65,65,65]) (exAd .back [67,67,67]) true false "l") [65,65,65,71,71,71]).map
    (fun m => m.remainderInterval) = some (3, 6) := by decide +kernel
/-- … and the 3' part is searched in what remains after the 5' part (`GGGCCCT`: found at 3..6 of the remainder) -/
example : Matchable.matchTo 0 (.linked (exAd .prefix [65,65,65]) (exAd .back [67,67,67]) true true "l") [65,65,65,71,71,71,67,67,67,84] =
    some (.linked 0 (some ⟨⟨0, 3, 0, 3, 3, 0, true⟩, [65,65,65,71,71,71,67,67,67,84]⟩)
                    (some ⟨⟨0, 3, 3, 6, 3, 0, false⟩, [71,71,71,67,67,67,84]⟩)) := by decide +kernel

end Cutadapt.C09
