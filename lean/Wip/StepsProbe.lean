import Cutadapt.Proofs.StepsMake
open Cutadapt Cutadapt.Steps
example {o : Opts} {ads : List Matchable} {p : SinglePipeline} {f : Files}
    (h : makeSingle o ads = .ok (p, f)) : makeSteps o (namesOf ads) [] = .ok (p.steps, f) ∧ p.ads = ads := by
  unfold makeSingle at h
  simp only [bind, Except.bind, pure, Except.pure] at h
  repeat' split at h
  all_goals try (simp at h; done)
  trace_state
  sorry
