import Wip.StepsCore
open Cutadapt Cutadapt.Steps
example (w idx : Nat) (r1 : Read) (r2 : Option Read) : List.countP isFate [Event.filtered (idx), Event.write w r1 r2] = 1 := by
  simp [List.countP_cons, isFate]
example (w idx : Nat) (r1 : Read) (r2 : Option Read) : List.countP isFate [Event.filtered (idx), Event.write w r1 r2] = 1 := by
  rfl
