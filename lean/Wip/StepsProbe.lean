import Cutadapt.Stats
open Cutadapt
set_option pp.proofs false
example (o : Opts) (n1 n2 : List String) : makeSteps o n1 n2 = .error .cmdline := by
  unfold makeSteps
  trace_state
  sorry
