import Cutadapt.Proofs.AlignSoundMain
/-! Exactness of the banded DP, part 1: the full DP matrix `D` (relative to the first processed column `j0`),
    its adjacent-cell properties, and `D` as a lower bound for every script from an admissible start. -/
namespace Cutadapt.Align.Exact
open Cutadapt Cutadapt.Align Cutadapt.Spec Cutadapt.Generated Cutadapt.Align.Sound

/-- mismatch indicator of reference position `i` and query position `j` -/
def delta (ctx : Ctx) (i j : Nat) : Nat := if ctx.eq (ctx.ref.getD i 0) (ctx.query.getD j 0) then 0 else 1

/-- the unbanded DP matrix; second index is the column relative to the first processed column `j0` -/
def D (ctx : Ctx) (j0 : Nat) : Nat → Nat → Nat
  | i, 0 => if j0 = 0 ∧ ctx.cfg.startInRef = true then 0 else i * ctx.cfg.indelCost
  | 0, t+1 => if ctx.cfg.startInQuery = true then 0 else (t+1) * ctx.cfg.indelCost
  | i+1, t+1 => min (D ctx j0 i t + delta ctx i (j0 + t))
                  (min (D ctx j0 i (t+1) + ctx.cfg.indelCost) (D ctx j0 (i+1) t + ctx.cfg.indelCost))
termination_by i t => (t, i)

variable {ctx : Ctx} {j0 : Nat}

theorem D_col0 (i : Nat) : D ctx j0 i 0 = if j0 = 0 ∧ ctx.cfg.startInRef = true then 0 else i * ctx.cfg.indelCost := by
  cases i <;> rw [D]

theorem D_row0 (t : Nat) : D ctx j0 0 (t+1) = if ctx.cfg.startInQuery = true then 0 else (t+1) * ctx.cfg.indelCost := by
  rw [D]

theorem D_succ (i t : Nat) : D ctx j0 (i+1) (t+1) = min (D ctx j0 i t + delta ctx i (j0 + t))
    (min (D ctx j0 i (t+1) + ctx.cfg.indelCost) (D ctx j0 (i+1) t + ctx.cfg.indelCost)) := by
  rw [D]

theorem D_00 : D ctx j0 0 0 = 0 := by
  rw [D_col0]; split <;> simp

theorem delta_le (i j : Nat) : delta ctx i j ≤ 1 := by unfold delta; split <;> omega

/-- one more reference character costs at most one deletion -/
theorem D_del (i t : Nat) : D ctx j0 (i+1) t ≤ D ctx j0 i t + ctx.cfg.indelCost := by
  cases t with
  | zero =>
    rw [D_col0, D_col0]; split
    · omega
    · rw [Nat.add_mul]; omega
  | succ t => rw [D_succ]; omega

/-- one more query character costs at most one insertion -/
theorem D_ins (i t : Nat) : D ctx j0 i (t+1) ≤ D ctx j0 i t + ctx.cfg.indelCost := by
  cases i with
  | zero =>
    cases t with
    | zero => rw [D_00, D_row0]; split <;> omega
    | succ t =>
      rw [D_row0, D_row0]; split
      · omega
      · rw [Nat.add_mul (t+1) 1]; omega
  | succ i => rw [D_succ]; omega

theorem D_sub (i t : Nat) : D ctx j0 (i+1) (t+1) ≤ D ctx j0 i t + delta ctx i (j0 + t) := by
  rw [D_succ]; omega

theorem D_le_ins : ∀ (i t : Nat), D ctx j0 i t ≤ D ctx j0 i (t+1) + ctx.cfg.indelCost
  | 0, t => by
    cases t with
    | zero => rw [D_00]; omega
    | succ t =>
      rw [D_row0, D_row0]; split
      · omega
      · rw [Nat.add_mul (t+1) 1]; omega
  | i+1, t => by
    have ih := D_le_ins i t
    have h1 := D_del (ctx := ctx) (j0 := j0) i t
    rw [D_succ]
    omega

theorem D_le_del : ∀ (t i : Nat), D ctx j0 i t ≤ D ctx j0 (i+1) t + ctx.cfg.indelCost
  | 0, i => by
    rw [D_col0, D_col0]; split
    · omega
    · rw [Nat.add_mul]; omega
  | t+1, i => by
    have ih := D_le_del t i
    have h1 := D_ins (ctx := ctx) (j0 := j0) i t
    rw [D_succ]
    omega

/-- values do not decrease along a diagonal -/
theorem D_diag (i t : Nat) : D ctx j0 i t ≤ D ctx j0 (i+1) (t+1) := by
  have h1 := D_le_ins (ctx := ctx) (j0 := j0) i t
  have h2 := D_le_del (ctx := ctx) (j0 := j0) t i
  rw [D_succ]; omega

/-- on equal characters the diagonal is optimal -/
theorem D_match (i t : Nat) (h : delta ctx i (j0 + t) = 0) : D ctx j0 (i+1) (t+1) = D ctx j0 i t := by
  have h1 := D_le_ins (ctx := ctx) (j0 := j0) i t
  have h2 := D_le_del (ctx := ctx) (j0 := j0) t i
  rw [D_succ, h]; omega

end Cutadapt.Align.Exact
