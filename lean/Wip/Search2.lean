import Cutadapt.Adapters
open Cutadapt Cutadapt.Align Cutadapt.Adapters

def lcg (s : UInt64) : UInt64 := s * 6364136223846793005 + 1442695040888963407
def rnd (s : UInt64) (n : Nat) : Nat × UInt64 := let s' := lcg s; ((s' >>> 33).toNat % n, s')

def alpha : Array UInt8 := #[65, 67, 71]

def genSeq (len : Nat) (al : Nat) (s : UInt64) : List UInt8 × UInt64 := Id.run do
  let mut s := s
  let mut out : Array UInt8 := #[]
  for _ in [0:len] do
    let (x, s') := rnd s al
    s := s'
    out := out.push alpha[x]!
  return (out.toList, s)

/-- mutate a copy of the adapter: each position with prob 1/4 gets sub/del/ins -/
def mutate (a : List UInt8) (al : Nat) (s : UInt64) : List UInt8 × UInt64 := Id.run do
  let mut s := s
  let mut out : Array UInt8 := #[]
  for c in a do
    let (x, s1) := rnd s 12
    s := s1
    if x == 0 then
      let (y, s2) := rnd s al; s := s2
      out := out.push alpha[y]!
    else if x == 1 then
      pure ()
    else if x == 2 then
      let (y, s2) := rnd s al; s := s2
      out := (out.push alpha[y]!).push c
    else out := out.push c
  return (out.toList, s)

def isCopyAt (a r : List UInt8) (p : Nat) : Bool := (r.drop p).take a.length == a

def leftmost (a r : List UInt8) : Option Nat := (List.range (r.length + 1)).find? (fun p => p + a.length ≤ r.length && isCopyAt a r p)
def rightmost (a r : List UInt8) : Option Nat := (List.range (r.length + 1)).reverse.find? (fun p => p + a.length ≤ r.length && isCopyAt a r p)


def genPeriodic (len : Nat) (al : Nat) (s : UInt64) : List UInt8 × UInt64 := Id.run do
  let (per0, s1) := rnd s 4
  let per := per0 + 1
  let (unit, s2) := genSeq per al s1
  let mut s := s2
  let mut out : Array UInt8 := #[]
  for i in [0:len] do
    let (x, s3) := rnd s 8; s := s3
    if x == 0 then
      let (y, s4) := rnd s al; s := s4
      out := out.push alpha[y]!
    else out := out.push (unit.getD (i % per) 65)
  return (out.toList, s)

def main (args : List String) : IO Unit := do
  let seed := (args.headD "1").toNat!
  let iters := (args.getD 1 "100000").toNat!
  let mut s : UInt64 := UInt64.ofNat (seed * 104729 + 17)
  let mut bad := 0
  for it in [0:iters] do
    let (al0, s1) := rnd s 2; s := s1
    let al := al0 + 2
    let (m0, s2) := rnd s 12; s := s2
    let m := m0 + 4
    let (adp, s3) := genPeriodic m al s; s := s3
    let (num, s4) := rnd s 5; s := s4
    let (mo0, s5) := rnd s m; s := s5
    let mo := mo0 + 1
    -- read: head junk, near copy, (overlap) exact copy, short tail made of adapter prefix / junk
    let (hl, s6) := rnd s 4; s := s6
    let (head, s7) := genPeriodic hl al s; s := s7
    let (near, s8) := mutate adp al s; s := s8
    let (ov, s9) := rnd s (m + 1); s := s9          -- how much of the near copy survives before the exact copy
    let (gap, s10) := rnd s 3; s := s10
    let (gapS, s11) := genSeq (if gap == 0 then 1 else 0) al s; s := s11
    let (tl, s12) := rnd s (m + 3); s := s12
    let (tk, s13) := rnd s 3; s := s13
    let (junk, s14) := genPeriodic tl al s; s := s14
    let tail := if tk == 0 then adp.take tl else if tk == 1 then junk else (adp.take tl).reverse
    let (tm, s15) := mutate tail al s; s := s15
    let (usetm, s16) := rnd s 3; s := s16
    let read := head ++ near.take ov ++ gapS ++ adp ++ (if usetm == 0 then tm else tail)
    let (indel, s17) := rnd s 5; s := s17
    let indels := indel != 0
    let thr := fun L => L * (num + 1) / 10
    match leftmost adp read, rightmost adp read with
    | some p, some p' =>
      let mkA (ty : AdapterType) : Adapter := { ty := ty, seq := adp, thr := thr, minOverlap := mo, readWildcards := false, adapterWildcards := false, indels := indels }
      let rb := matchTo (mkA .back) read
      let okb := match rb with | some mt => mt.rstart ≤ p | none => false
      let rf := matchTo (mkA .front) read
      let okf := match rf with | some mt => mt.rstop ≤ p + m | none => false
      let rr := matchTo (mkA .rightmostFront) (read.reverse.reverse)
      let okr := match rr with | some mt => mt.rstop ≥ p' + m | none => false
      -- mirrored read for the 5' variants
      let readM := read.reverse
      let adpM := adp.reverse
      let mkM (ty : AdapterType) : Adapter := { ty := ty, seq := adpM, thr := thr, minOverlap := mo, readWildcards := false, adapterWildcards := false, indels := indels }
      let okf2 := match leftmost adpM readM, matchTo (mkM .front) readM with
        | some q, some mt => mt.rstop ≤ q + m | _, _ => false
      let okr2 := match rightmost adpM readM, matchTo (mkM .rightmostFront) readM with
        | some q, some mt => mt.rstop ≥ q + m | _, _ => false
      if !(okb && okf && okr && okf2 && okr2) then
        bad := bad + 1
        if bad ≤ 10 then
          IO.println s!"VIOLATION it={it} adp={adp} read={read} num={num+1} mo={mo} indels={indels} p={p} p'={p'} back={repr rb} front={repr rf} rfront={repr rr} ok={okb},{okf},{okr},{okf2},{okr2}"
    | _, _ => pure ()
  IO.println s!"done seed={seed} iters={iters} bad={bad}"
