import Wip.ModsStages
namespace Cutadapt
open Cutadapt.Adapters Cutadapt.Qualtrim

def pairLower (c1 c2 : Option Cutter) : Bool :=
  (c1.map (·.action == .lowercase)).getD false || (c2.map (·.action == .lowercase)).getD false
def upperIf (b : Bool) (r : Read) : Read := if b then { r with seq := upperBytes r.seq } else r
def pairUseRc (m1 m2 m1s m2s : List AnyMatch) : Bool :=
  (!m1s.isEmpty || !m2s.isEmpty) && scoreSum m1s + scoreSum m2s > scoreSum m1 + scoreSum m2

theorem applyP_pairedRevcomp (ads1 ads2 : List Matchable) (c1 c2 : Option Cutter) (suffix first1 first2 : Bool)
    (r1 r2 : Read) (i1 i2 : Info) :
    applyP ads1 ads2 (.pairedRevcomp c1 c2 suffix first1 first2) (r1, r2) (i1, i2) =
      match cutterOpt c1 (upperIf (pairLower c1 c2) r1) with
      | .error e => .error e
      | .ok (t1, m1, _) =>
      match cutterOpt c2 (upperIf (pairLower c1 c2) r2) with
      | .error e => .error e
      | .ok (t2, m2, _) =>
      match cutterOpt c1 (upperIf (pairLower c1 c2) r2) with
      | .error e => .error e
      | .ok (t1s, m1s, _) =>
      match cutterOpt c2 (upperIf (pairLower c1 c2) r1) with
      | .error e => .error e
      | .ok (t2s, m2s, _) =>
        let u := pairUseRc m1 m2 m1s m2s
        let n1 := if u then m1s else m1
        let n2 := if u then m2s else m2
        let o1 := if u then t1s else t1
        let o2 := if u then t2s else t2
        if (!n1.isEmpty && c1.isNone) || (!n2.isEmpty && c2.isNone) then .error .attribute else
        .ok ((if u && suffix then { o1 with name := o1.name ++ bytesOfStr " rc" } else o1,
              if u && suffix then { o2 with name := o2.name ++ bytesOfStr " rc" } else o2),
             ({ originalAfter first1 i1 (upperIf (pairLower c1 c2) r1) with
                  isRc := some u, mts := (originalAfter first1 i1 (upperIf (pairLower c1 c2) r1)).mts ++ n1 },
              { originalAfter first2 i2 (upperIf (pairLower c1 c2) r2) with
                  isRc := some u, mts := (originalAfter first2 i2 (upperIf (pairLower c1 c2) r2)).mts ++ n2 }),
             (if u then [Event.revComp] else []) ++ matchedEvents 0 n1 u ++ matchedEvents 1 n2 u) := by
  simp only [applyP, pairLower, upperIf, bind, Except.bind, pure, Except.pure, throw, throwThe, MonadExcept.throw]
  generalize hA : cutterOpt c1 _ = A
  trace_state
  sorry
end Cutadapt
