import Wip.ModsStages
namespace Cutadapt
open Cutadapt.Adapters Cutadapt.Qualtrim

def pairLower (c1 c2 : Option Cutter) : Bool :=
  (c1.map (·.action == .lowercase)).getD false || (c2.map (·.action == .lowercase)).getD false
def upperIf (b : Bool) (r : Read) : Read := if b then { r with seq := upperBytes r.seq } else r
def pairUseRc (m1 m2 m1s m2s : List AnyMatch) : Bool :=
  (!m1s.isEmpty || !m2s.isEmpty) && scoreSum m1s + scoreSum m2s > scoreSum m1 + scoreSum m2

/-- `PairedReverseComplementer.__call__` after the (possible) in-place upper-casing of the two reads -/
def pairedRevcompCore (c1 c2 : Option Cutter) (suffix first1 first2 : Bool) (r1 r2 : Read) (i1 i2 : Info) :
    Except Err ((Read × Read) × (Info × Info) × List Event) := do
  let (t1, m1, _) ← cutterOpt c1 r1
  let (t2, m2, _) ← cutterOpt c2 r2
  let (t1s, m1s, _) ← cutterOpt c1 r2
  let (t2s, m2s, _) ← cutterOpt c2 r1
  let i1 := if first1 then { i1 with original := { i1.original with seq := r1.seq } } else i1
  let i2 := if first2 then { i2 with original := { i2.original with seq := r2.seq } } else i2
  let useRc := (!m1s.isEmpty || !m2s.isEmpty) && scoreSum m1s + scoreSum m2s > scoreSum m1 + scoreSum m2
  let (o1, o2, n1, n2) := if useRc then (t1s, t2s, m1s, m2s) else (t1, t2, m1, m2)
  let o1 := if useRc && suffix then { o1 with name := o1.name ++ bytesOfStr " rc" } else o1
  let o2 := if useRc && suffix then { o2 with name := o2.name ++ bytesOfStr " rc" } else o2
  if (!n1.isEmpty && c1.isNone) || (!n2.isEmpty && c2.isNone) then throw .attribute else
  pure ((o1, o2),
    ({ i1 with isRc := some useRc, mts := i1.mts ++ n1 }, { i2 with isRc := some useRc, mts := i2.mts ++ n2 }),
    (if useRc then [Event.revComp] else []) ++ matchedEvents 0 n1 useRc ++ matchedEvents 1 n2 useRc)

theorem applyP_pairedRevcomp_core (ads1 ads2 : List Matchable) (c1 c2 : Option Cutter) (suffix first1 first2 : Bool)
    (r1 r2 : Read) (i1 i2 : Info) :
    applyP ads1 ads2 (.pairedRevcomp c1 c2 suffix first1 first2) (r1, r2) (i1, i2) =
      pairedRevcompCore c1 c2 suffix first1 first2 (upperIf (pairLower c1 c2) r1) (upperIf (pairLower c1 c2) r2) i1 i2 := rfl

theorem pairedRevcompCore_eq (c1 c2 : Option Cutter) (suffix first1 first2 : Bool) (r1 r2 : Read) (i1 i2 : Info) :
    pairedRevcompCore c1 c2 suffix first1 first2 r1 r2 i1 i2 =
      match cutterOpt c1 r1 with
      | .error e => .error e
      | .ok (t1, m1, _) =>
      match cutterOpt c2 r2 with
      | .error e => .error e
      | .ok (t2, m2, _) =>
      match cutterOpt c1 r2 with
      | .error e => .error e
      | .ok (t1s, m1s, _) =>
      match cutterOpt c2 r1 with
      | .error e => .error e
      | .ok (t2s, m2s, _) =>
        let u := pairUseRc m1 m2 m1s m2s
        let n1 := if u then m1s else m1
        let n2 := if u then m2s else m2
        let o1 := if u then t1s else t1
        let o2 := if u then t2s else t2
        if (!n1.isEmpty && c1.isNone) || (!n2.isEmpty && c2.isNone) then .error .attribute else
        .ok ((if u && suffix then { o1 with name := o1.name ++ bytesOfStr " rc" } else o1,
              if u && suffix then { o2 with name := o2.name ++ bytesOfStr " rc" } else o2),
             ({ originalAfter first1 i1 r1 with isRc := some u, mts := (originalAfter first1 i1 r1).mts ++ n1 },
              { originalAfter first2 i2 r2 with isRc := some u, mts := (originalAfter first2 i2 r2).mts ++ n2 }),
             (if u then [Event.revComp] else []) ++ matchedEvents 0 n1 u ++ matchedEvents 1 n2 u) := by
  unfold pairedRevcompCore
  simp only [bind, Except.bind, pure, Except.pure, throw, throwThe, MonadExcept.throw]
  cases cutterOpt c1 r1 with
  | error e => rfl
  | ok v1 =>
    obtain ⟨t1, m1, x1⟩ := v1
    cases cutterOpt c2 r2 with
    | error e => rfl
    | ok v2 =>
      obtain ⟨t2, m2, x2⟩ := v2
      cases cutterOpt c1 r2 with
      | error e => rfl
      | ok v3 =>
        obtain ⟨t1s, m1s, x3⟩ := v3
        cases cutterOpt c2 r1 with
        | error e => rfl
        | ok v4 =>
          obtain ⟨t2s, m2s, x4⟩ := v4
          simp only [pairUseRc, originalAfter]
          by_cases hu : ((!m1s.isEmpty || !m2s.isEmpty) && decide (scoreSum m1s + scoreSum m2s > scoreSum m1 + scoreSum m2)) = true
          · simp only [hu, if_true]
            rfl
          · simp only [hu, if_false]
            rfl
end Cutadapt
