import Wip.RunnerInv
/-! Inversion lemmas for `step` and preservation of `RunInv` / `SafeInv` by every action. -/
namespace Cutadapt.Runner
variable {Chunk Stats Fault : Type} {cfg : Config Chunk Stats Fault} {s s' : State Stats}

theorem count_single_self (w : Nat) : List.count w [w] = 1 := by simp
theorem count_single_ne {v w : Nat} (h : v ≠ w) : List.count v [w] = 0 := by
  simp [List.count_cons]; exact fun e => h e.symm

/-! ## Inversion of `step` -/

theorem step_running {a : Action} (hs : step cfg s a = some s') : s.outcome = .running := by
  cases a <;> simp only [step] at hs <;> split at hs <;> first | (rename_i hg; exact hg.1) | cases hs

theorem step_workerRequest {w : Nat} (hs : step cfg s (.workerRequest w) = some s') :
    w < cfg.nWorkers ∧ (s.workers w).phase = .idle ∧
    s' = { s.setW w { s.workers w with phase := .requested } with queue := s.queue ++ [w] } := by
  simp only [step] at hs
  split at hs
  · rename_i hg
    cases hs
    exact ⟨hg.2.1, hg.2.2, rfl⟩
  · cases hs

theorem step_readerSend (hs : step cfg s .readerSend = some s') :
    s.rfailed = false ∧ s.next < cfg.chunks.length ∧ ∃ w q, s.queue = w :: q ∧
    s' = { s.setW w { s.workers w with inbox := (s.workers w).inbox ++ [.chunk s.next] } with queue := q, next := s.next + 1 } := by
  simp only [step] at hs
  split at hs
  · rename_i hg
    split at hs
    · cases hs
    · rename_i w q hq; cases hs; exact ⟨hg.2.1, hg.2.2, w, q, hq, rfl⟩
  · cases hs

theorem step_readerPill (hs : step cfg s .readerPill = some s') :
    s.rfailed = false ∧ cfg.readerFault = false ∧ s.next = cfg.chunks.length ∧ s.pills < cfg.nWorkers ∧ ∃ w q, s.queue = w :: q ∧
    s' = { s.setW w { s.workers w with inbox := (s.workers w).inbox ++ [.pill] } with queue := q, pills := s.pills + 1 } := by
  simp only [step] at hs
  split at hs
  · rename_i hg
    split at hs
    · cases hs
    · rename_i w q hq; cases hs; exact ⟨hg.2.1, hg.2.2.1, hg.2.2.2.1, hg.2.2.2.2, w, q, hq, rfl⟩
  · cases hs

theorem step_readerFault (hs : step cfg s .readerFault = some s') :
    s.rfailed = false ∧ cfg.readerFault = true ∧ s.next = cfg.chunks.length ∧
    s' = { s with rfailed := true,
                  workers := fun v => if v < cfg.nWorkers then { s.workers v with inbox := (s.workers v).inbox ++ [.readerError] } else s.workers v } := by
  simp only [step] at hs
  split at hs
  · rename_i hg; cases hs; exact ⟨hg.2.1, hg.2.2.1, hg.2.2.2, rfl⟩
  · cases hs

theorem step_workerStep {w : Nat} (hs : step cfg s (.workerStep w) = some s') :
    w < cfg.nWorkers ∧
    ( (∃ i rest, (s.workers w).phase = .requested ∧ (s.workers w).inbox = .chunk i :: rest ∧
          s' = s.setW w { s.workers w with inbox := rest, phase := .processing i })
    ∨ (∃ rest, (s.workers w).phase = .requested ∧ (s.workers w).inbox = .pill :: rest ∧
          s' = s.setW w { s.workers w with inbox := rest, phase := .finished, outbox := (s.workers w).outbox ++ [.done (s.workers w).stats] })
    ∨ (∃ rest, (s.workers w).phase = .requested ∧ (s.workers w).inbox = .readerError :: rest ∧
          s' = s.setW w { s.workers w with inbox := rest, phase := .failed, outbox := (s.workers w).outbox ++ [.workerError] })
    ∨ (∃ i c d st, (s.workers w).phase = .processing i ∧ cfg.chunks[i]? = some c ∧ cfg.process c = .ok (d, st) ∧
          s' = s.setW w { s.workers w with phase := .idle, stats := cfg.add (s.workers w).stats st, outbox := (s.workers w).outbox ++ [.result i d] })
    ∨ (∃ i c e, (s.workers w).phase = .processing i ∧ cfg.chunks[i]? = some c ∧ cfg.process c = .error e ∧
          s' = s.setW w { s.workers w with phase := .failed, outbox := (s.workers w).outbox ++ [.workerError], lost := some i })) := by
  simp only [step] at hs
  split at hs
  · rename_i hg
    refine ⟨hg.2, ?_⟩
    split at hs
    · rename_i hph
      split at hs
      · cases hs
      · rename_i i rest hin; cases hs; exact Or.inl ⟨i, rest, hph, hin, rfl⟩
      · rename_i rest hin; cases hs; exact Or.inr (Or.inl ⟨rest, hph, hin, rfl⟩)
      · rename_i rest hin; cases hs; exact Or.inr (Or.inr (Or.inl ⟨rest, hph, hin, rfl⟩))
    · rename_i i hph
      split at hs
      · cases hs
      · rename_i c hc
        split at hs
        · rename_i d st hp; cases hs; exact Or.inr (Or.inr (Or.inr (Or.inl ⟨i, c, d, st, hph, hc, hp, rfl⟩)))
        · rename_i e hp; cases hs; exact Or.inr (Or.inr (Or.inr (Or.inr ⟨i, c, e, hph, hc, hp, rfl⟩)))
    · cases hs
  · cases hs

theorem step_mainRecv {w : Nat} (hs : step cfg s (.mainRecv w) = some s') :
    w < cfg.nWorkers ∧ s.isOpen w = true ∧
    ( (∃ i d rest, (s.workers w).outbox = .result i d :: rest ∧
          s' = { s.setW w { s.workers w with outbox := rest } with
                 writers := fun f => (s.writers f).write (d.getD f []) i, received := i :: s.received })
    ∨ (∃ st rest, (s.workers w).outbox = .done st :: rest ∧
          s' = { s.setW w { s.workers w with outbox := rest } with
                 mstats := cfg.add s.mstats st, isOpen := fun v => if v = w then false else s.isOpen v })
    ∨ (∃ rest, (s.workers w).outbox = .workerError :: rest ∧
          s' = { s.setW w { s.workers w with outbox := rest } with outcome := .failed })) := by
  simp only [step] at hs
  split at hs
  · rename_i hg
    refine ⟨hg.2.1, hg.2.2, ?_⟩
    split at hs
    · cases hs
    · rename_i i d rest ho; cases hs; exact Or.inl ⟨i, d, rest, ho, rfl⟩
    · rename_i st rest ho; cases hs; exact Or.inr (Or.inl ⟨st, rest, ho, rfl⟩)
    · rename_i rest ho; cases hs; exact Or.inr (Or.inr ⟨rest, ho, rfl⟩)
  · cases hs

theorem step_mainFinish (hs : step cfg s .mainFinish = some s') :
    allDone cfg s = true ∧ s' = { s with outcome := .ok } := by
  simp only [step] at hs
  split at hs
  · rename_i hg; cases hs; exact ⟨hg.2, rfl⟩
  · cases hs

/-! ## A change at one worker (and possibly of `received` / `isOpen w`) -/

theorem runInv_local {w : Nat} {W' : Worker Stats} (h : RunInv cfg s) (hw : w < cfg.nWorkers)
    (hwk : ∀ v, s'.workers v = if v = w then W' else s.workers v)
    (hnext : s'.next = s.next) (hpills : s'.pills = s.pills) (hrf : s'.rfailed = s.rfailed) (hqueue : s'.queue = s.queue)
    (hopen : ∀ v, v ≠ w → s'.isOpen v = s.isOpen v)
    (ha : ∀ i, cntWk i W' + s'.received.count i = cntWk i (s.workers w) + s.received.count i)
    (hb : QOk W'.phase (s.queue.count w + nonErr W'.inbox))
    (hc : pillWk W' = pillWk (s.workers w))
    (hd : s.rfailed = true → W'.phase = .failed ∨ InMsg.readerError ∈ W'.inbox)
    (he : OutboxOk W' (s'.isOpen w))
    (hf : ∀ i d, OutMsg.result i d ∈ W'.outbox → ∃ st, outOf cfg i = some (d, st))
    (hg : W'.phase ≠ .failed → W'.lost = none) :
    RunInv cfg s' := by
  have hsame : s'.workers w = W' := by rw [hwk]; simp
  have hne : ∀ v, v ≠ w → s'.workers v = s.workers v := fun v hv => by rw [hwk]; simp [hv]
  refine ⟨by rw [hnext]; exact h.next_le, by rw [hnext, hpills]; exact h.pills_pos, by rw [hnext, hrf]; exact h.rfailed,
    ?_, ?_, by rw [hqueue]; exact h.queue_lt, ?_, ?_, ?_, ?_, ?_⟩
  · intro i
    have hsum := sumW_update (n := cfg.nWorkers) (w := w) (f := fun v => cntWk i (s.workers v)) (g := fun v => cntWk i (s'.workers v)) hw
      (fun v hv => by simp only [hne v hv])
    simp only [hsame] at hsum
    have h1 := h.once i
    have h2 := ha i
    rw [hnext]
    omega
  · intro v hv
    rw [hqueue]
    by_cases hvw : v = w
    · subst hvw; rw [hsame]; exact hb
    · rw [hne v hvw]; exact h.queue v hv
  · have hsum := sumW_update (n := cfg.nWorkers) (w := w) (f := fun v => pillWk (s.workers v)) (g := fun v => pillWk (s'.workers v)) hw
      (fun v hv => by simp only [hne v hv])
    simp only [hsame] at hsum
    have h1 := h.pillsum
    rw [hpills]
    omega
  · intro hr v hv
    rw [hrf] at hr
    by_cases hvw : v = w
    · subst hvw; rw [hsame]; exact hd hr
    · rw [hne v hvw]; exact h.rerr hr v hv
  · intro v hv
    by_cases hvw : v = w
    · subst hvw; rw [hsame]; exact he
    · rw [hne v hvw, hopen v hvw]; exact h.outbox v hv
  · intro v hv
    by_cases hvw : v = w
    · subst hvw; rw [hsame]; exact hf
    · rw [hne v hvw]; exact h.results v hv
  · intro v hv
    by_cases hvw : v = w
    · subst hvw; rw [hsame]; exact hg
    · rw [hne v hvw]; exact h.lost v hv

/-- chunk indices that occur at a worker are below the reader's position -/
theorem RunInv.cnt_lt (h : RunInv cfg s) {w i : Nat} (hw : w < cfg.nWorkers) (hc : 0 < cntWk i (s.workers w)) : i < s.next := by
  have h1 := h.once i
  have h2 := sumW_pos (f := fun v => cntWk i (s.workers v)) hw hc
  by_cases hi : i < s.next
  · exact hi
  · simp only [hi, if_false] at h1; omega

/-! ## Worker actions -/

theorem runInv_workerRequest {w : Nat} (h : RunInv cfg s) (hs : step cfg s (.workerRequest w) = some s') : RunInv cfg s' := by
  obtain ⟨hw, hph, rfl⟩ := step_workerRequest hs
  let W' : Worker Stats := { s.workers w with phase := .requested }
  refine ⟨h.next_le, h.pills_pos, h.rfailed, ?_, ?_, ?_, ?_, ?_, ?_, ?_, ?_⟩
  · intro i
    show sumW _ (fun v => cntWk i ((s.setW w W').workers v)) + s.received.count i = if i < s.next then 1 else 0
    have hsum := sumW_setW (cntWk i) s hw W'
    have hloc : cntWk i W' = cntWk i (s.workers w) := by simp [W', cntWk, cntProc, hph]
    have h1 := h.once i
    omega
  · intro v hv
    show QOk ((s.setW w W').workers v).phase ((s.queue ++ [w]).count v + nonErr ((s.setW w W').workers v).inbox)
    have h1 := h.queue v hv
    rw [List.count_append]
    by_cases hvw : v = w
    · subst hvw
      rw [setW_workers_same, count_single_self]
      simp only [hph, QOk] at h1
      simp only [W', QOk]
      omega
    · rw [setW_workers_ne _ _ hvw, count_single_ne hvw]
      exact h1
  · intro v hv
    have hv : v ∈ s.queue ++ [w] := hv
    simp at hv
    rcases hv with hv | hv
    · exact h.queue_lt v hv
    · omega
  · show s.pills = sumW _ (fun v => pillWk ((s.setW w W').workers v))
    have hsum := sumW_setW pillWk s hw W'
    have hloc : pillWk W' = pillWk (s.workers w) := by simp [W', pillWk, hph]
    have h1 := h.pillsum
    omega
  · intro hr v hv
    show ((s.setW w W').workers v).phase = .failed ∨ InMsg.readerError ∈ ((s.setW w W').workers v).inbox
    have h1 := h.rerr hr v hv
    by_cases hvw : v = w
    · subst hvw
      rw [setW_workers_same]
      simpa [W', hph] using h1
    · rw [setW_workers_ne _ _ hvw]; exact h1
  · intro v hv
    show OutboxOk ((s.setW w W').workers v) (s.isOpen v)
    have h1 := h.outbox v hv
    by_cases hvw : v = w
    · subst hvw
      rw [setW_workers_same]
      simp only [OutboxOk, hph] at h1
      simpa [OutboxOk, W'] using h1
    · rw [setW_workers_ne _ _ hvw]; exact h1
  · intro v hv
    show ∀ i d, OutMsg.result i d ∈ ((s.setW w W').workers v).outbox → _
    have h1 := h.results v hv
    by_cases hvw : v = w
    · subst hvw
      rw [setW_workers_same]; exact h1
    · rw [setW_workers_ne _ _ hvw]; exact h1
  · intro v hv
    show ((s.setW w W').workers v).phase ≠ .failed → ((s.setW w W').workers v).lost = none
    have h1 := h.lost v hv
    by_cases hvw : v = w
    · subst hvw
      rw [setW_workers_same]
      intro _
      exact h1 (by simp [hph])
    · rw [setW_workers_ne _ _ hvw]; exact h1

theorem runInv_workerStep {w : Nat} (h : RunInv cfg s) (hs : step cfg s (.workerStep w) = some s') : RunInv cfg s' := by
  obtain ⟨hw, hcase⟩ := step_workerStep hs
  have hq := h.queue w hw
  have ho := h.outbox w hw
  have hr := h.results w hw
  have hl := h.lost w hw
  have hwk : ∀ (W' : Worker Stats) v, (s.setW w W').workers v = if v = w then W' else s.workers v := fun W' v => rfl
  rcases hcase with ⟨i, rest, hph, hin, rfl⟩ | ⟨rest, hph, hin, rfl⟩ | ⟨rest, hph, hin, rfl⟩ | ⟨i, c, d, st, hph, hc, hp, rfl⟩ | ⟨i, c, e, hph, hc, hp, rfl⟩
  · -- received a chunk
    refine runInv_local h hw (hwk _) rfl rfl rfl rfl (fun _ _ => rfl) ?_ ?_ ?_ ?_ ?_ ?_ ?_
    · intro j
      simp only [cntWk, hin, hph, cntProc, setW_received, List.count_cons]
      by_cases hj : i = j
      · subst hj; simp
      · simp [hj]
    · simp only [hph, hin, nonErr, QOk] at hq
      simp only [QOk]; omega
    · simp [pillWk, hin, hph, List.count_cons]
    · intro hrf
      have := h.rerr hrf w hw
      simpa [hph, hin] using this
    · simp only [OutboxOk, hph] at ho
      simpa [OutboxOk] using ho
    · exact hr
    · intro _; exact hl (by simp [hph])
  · -- received the pill
    refine runInv_local h hw (hwk _) rfl rfl rfl rfl (fun _ _ => rfl) ?_ ?_ ?_ ?_ ?_ ?_ ?_
    · intro j
      simp [cntWk, hin, hph, cntProc, cntRes_append, cntRes, List.count_cons]
    · simp only [hph, hin, nonErr, QOk] at hq
      simp only [QOk]; omega
    · simp [pillWk, hin, hph]
    · intro hrf
      have := h.rfailed hrf
      have hp : 0 < s.pills := by
        rw [h.pillsum]
        exact sumW_pos (f := fun v => pillWk (s.workers v)) hw (by simp [pillWk, hin]; omega)
      have := h.pills_pos hp
      simp_all
    · simp only [OutboxOk, hph] at ho
      simp only [OutboxOk, setW_isOpen]
      refine ⟨fun _ => ⟨_, rfl, ho.2⟩, fun hcl => ?_⟩
      rw [ho.1] at hcl; cases hcl
    · intro j d hm
      simp at hm
      exact hr j d hm
    · intro _; exact hl (by simp [hph])
  · -- received the reader's error
    refine runInv_local h hw (hwk _) rfl rfl rfl rfl (fun _ _ => rfl) ?_ ?_ ?_ ?_ ?_ ?_ ?_
    · intro j
      simp [cntWk, hin, hph, cntProc, cntRes_append, cntRes, List.count_cons]
    · simp only [hph, hin, nonErr, QOk] at hq
      simp only [QOk]; omega
    · simp [pillWk, hin, hph, List.count_cons]
    · intro _; exact Or.inl rfl
    · simp only [OutboxOk, hph] at ho
      simp only [OutboxOk, setW_isOpen]
      exact ⟨ho.1, _, rfl, ho.2⟩
    · intro j d hm
      simp at hm
      exact hr j d hm
    · intro hc; exact absurd rfl hc
  · -- processed a chunk
    refine runInv_local h hw (hwk _) rfl rfl rfl rfl (fun _ _ => rfl) ?_ ?_ ?_ ?_ ?_ ?_ ?_
    · intro j
      simp only [cntWk, hph, cntProc, cntRes_append, cntRes, setW_received]
      omega
    · simp only [hph, QOk] at hq
      simp only [QOk]; omega
    · simp [pillWk, hph]
    · intro hrf
      have := h.rerr hrf w hw
      simpa [hph] using this
    · simp only [OutboxOk, hph] at ho
      simp only [OutboxOk, setW_isOpen]
      exact ⟨ho.1, resultsOnly_append ho.2 (resultsOnly_single i d)⟩
    · intro j d' hm
      simp at hm
      rcases hm with hm | ⟨rfl, rfl⟩
      · exact hr j d' hm
      · exact ⟨st, by simp [outOf, hc, hp]⟩
    · intro _; exact hl (by simp [hph])
  · -- processing faulted
    refine runInv_local h hw (hwk _) rfl rfl rfl rfl (fun _ _ => rfl) ?_ ?_ ?_ ?_ ?_ ?_ ?_
    · intro j
      have hl0 := hl (by simp [hph])
      simp only [cntWk, hph, cntProc, cntRes_append, cntRes, setW_received, hl0]
      simp only [Option.some.injEq, reduceCtorEq, if_false]
      omega
    · simp only [hph, QOk] at hq
      simp only [QOk]; omega
    · simp [pillWk, hph]
    · intro _; exact Or.inl rfl
    · simp only [OutboxOk, hph] at ho
      simp only [OutboxOk, setW_isOpen]
      exact ⟨ho.1, _, rfl, ho.2⟩
    · intro j d hm
      simp at hm
      exact hr j d hm
    · intro hc; exact absurd rfl hc

end Cutadapt.Runner
