import Cutadapt.Properties.C08
import Cutadapt.Proofs.IndexNearest
namespace Cutadapt.C08
open Cutadapt Cutadapt.Adapters Cutadapt.Index

/-- **The nearest admissible adapter is reported when no two admissible adapters are equally close** (equally long
    adapters, no indels, upper-case ACGT read at least as long as the adapters). `Admissible adapters s j b`: `b` is the
    adapter at position `j` and `s` is within `b`'s tolerance. This is `index_nearest_statement` with the additional
    hypothesis `hdistinct` (ties between *worse* candidates must be excluded too: see `index_nearest_counterexample`). -/
theorem index_nearest_partial {D : Type} (ops : DictOps D) (hl : ops.Lawful) (adapters : List Adapter) (isPrefix : Bool)
    (read : Bytes) (L : Nat)
    (hads : ∀ a ∈ adapters, IsACGT a.seq ∧ a.seq.length = L ∧ a.indels = false)
    (hread : IsACGT read) (hL : L ≤ read.length) (hL1 : 1 ≤ L)
    (i : Nat) (a : Adapter) (hadm : Admissible adapters (removedAffix isPrefix read L) i a)
    (hnear : ∀ j b, Admissible adapters (removedAffix isPrefix read L) j b →
      Spec.hamming (· == ·) (removedAffix isPrefix read L) a.seq ≤ Spec.hamming (· == ·) (removedAffix isPrefix read L) b.seq)
    (hdistinct : ∀ j j' b b', Admissible adapters (removedAffix isPrefix read L) j b →
      Admissible adapters (removedAffix isPrefix read L) j' b' →
      Spec.hamming (· == ·) (removedAffix isPrefix read L) b.seq = Spec.hamming (· == ·) (removedAffix isPrefix read L) b'.seq →
      j = j') :
    ∃ mt, indexMatchTo ops (makeIndex ops adapters isPrefix) read = some mt ∧ mt.adapter = i ∧
      mt.errors = Spec.hamming (· == ·) (removedAffix isPrefix read L) a.seq ∧
      mt.astart = 0 ∧ mt.astop = L ∧
      (if isPrefix then mt.rstart = 0 ∧ mt.rstop = L else mt.rstart = ((read.length - L : Nat) : Int) ∧ mt.rstop = read.length) := by
  have hmem : a ∈ adapters := List.mem_of_getElem? hadm.1
  have hne : adapters ≠ [] := List.ne_nil_of_mem hmem
  have hlens := makeIndex_lengths_equal ops adapters isPrefix L hne (fun b hb => ⟨(hads b hb).2.2, (hads b hb).2.1⟩)
  have hup := asciiUpper_acgt read hread
  have hN : (78 : UInt8) ∉ read.map asciiUpper := by
    rw [hup]; intro h; exact absurd (hread 78 h) (by decide)
  have hsub : ∀ c ∈ removedAffix isPrefix read L, c ∈ acgt := fun c hc => hread c (removedAffix_subset _ _ _ c hc)
  have hentry := nearest_entry ops hl adapters isPrefix L hads (removedAffix isPrefix read L) hsub
    (removedAffix_length _ _ _ hL) i a hadm hnear hdistinct
  have hidxp : (makeIndex ops adapters isPrefix).isPrefix = isPrefix := rfl
  have hg : ops.get? (makeIndex ops adapters isPrefix).index
      (removedAffix (makeIndex ops adapters isPrefix).isPrefix (read.map asciiUpper) L) = some
        (i, Spec.hamming (· == ·) (removedAffix isPrefix read L) a.seq,
          L - Spec.hamming (· == ·) (removedAffix isPrefix read L) a.seq) := by
    rw [hidxp, hup]; exact hentry
  have hit := indexMatchTo_one_hit ops (makeIndex ops adapters isPrefix) read L hlens hN (fun _ => hL1) _ _ _ hg
  refine ⟨_, hit, ?_⟩
  have hgetD : (makeIndex ops adapters isPrefix).adapters.getD i default = a := by
    show adapters.getD i default = a
    simp [List.getD_eq_getElem?_getD, hadm.1]
  have hla := (hads a hmem).2.1
  cases isPrefix
  · simp only [makeMatch, hidxp, Bool.false_eq_true, if_false, hgetD, hla]
    refine ⟨trivial, trivial, trivial, trivial, by omega, trivial⟩
  · simp only [makeMatch, hidxp, if_true, hgetD, hla]
    exact ⟨trivial, trivial, trivial, trivial, trivial, trivial⟩

/-- **Uniqueness** (equally long adapters, no indels): when exactly one indexed adapter is within its tolerance of the
    read's affix, the index reports that adapter. -/
theorem index_unique_partial {D : Type} (ops : DictOps D) (hl : ops.Lawful) (adapters : List Adapter) (isPrefix : Bool)
    (read : Bytes) (L : Nat)
    (hads : ∀ a ∈ adapters, IsACGT a.seq ∧ a.seq.length = L ∧ a.indels = false)
    (hread : IsACGT read) (hL : L ≤ read.length) (hL1 : 1 ≤ L)
    (i : Nat) (a : Adapter) (hadm : Admissible adapters (removedAffix isPrefix read L) i a)
    (honly : ∀ j b, Admissible adapters (removedAffix isPrefix read L) j b → j = i) :
    ∃ mt, indexMatchTo ops (makeIndex ops adapters isPrefix) read = some mt ∧ mt.adapter = i ∧
      mt.errors = Spec.hamming (· == ·) (removedAffix isPrefix read L) a.seq := by
  have hsame : ∀ j b, Admissible adapters (removedAffix isPrefix read L) j b → b = a := by
    intro j b hb
    have := honly j b hb
    subst this
    have h1 := hb.1
    rw [hadm.1] at h1
    exact (Option.some.inj h1).symm
  obtain ⟨mt, h1, h2, h3, _⟩ := index_nearest_partial ops hl adapters isPrefix read L hads hread hL hL1 i a hadm
    (fun j b hb => by rw [hsame j b hb]; exact Nat.le_refl _)
    (fun j j' b b' hb hb' _ => by rw [honly j b hb, honly j' b' hb'])
  exact ⟨mt, h1, h2, h3⟩

/-- the three adapters of the counterexample with the exact one listed first, read `TCGTACGTAA`: adapter 1 is the only
    one at distance 0, the others are at distance 1 and 1 … a tie among admissible adapters, so `index_nearest_partial`
    does not apply; with one mismatch allowed only for the first two adapters there is no tie and it does -/
example : ∃ mt, indexMatchTo alistOps (makeIndex alistOps
      [mkA .prefix [84,67,71,84,65,67,71,84] 1 false, mkA .prefix [67,67,71,84,65,67,71,84] 0 false,
       mkA .prefix [65,67,71,84,65,67,71,84] 0 false] true) [65,67,71,84,65,67,71,84,65,65] = some mt ∧ mt.adapter = 2 ∧
      mt.errors = 0 := by
  have := index_unique_partial alistOps alistOps_lawful
    [mkA .prefix [84,67,71,84,65,67,71,84] 1 false, mkA .prefix [67,67,71,84,65,67,71,84] 0 false,
     mkA .prefix [65,67,71,84,65,67,71,84] 0 false] true [65,67,71,84,65,67,71,84,65,65] 8
    (by decide) (by decide) (by decide) (by decide) 2 _ ⟨rfl, by decide⟩
    (by
      intro j b hb
      match j, hb with
      | 0, ⟨h1, h2⟩ => simp at h1; subst h1; revert h2; decide
      | 1, ⟨h1, h2⟩ => simp at h1; subst h1; revert h2; decide
      | 2, _ => rfl
      | j+3, ⟨h1, _⟩ => simp at h1)
  obtain ⟨mt, h1, h2, h3⟩ := this
  exact ⟨mt, h1, h2, by rw [h3]; decide⟩

end Cutadapt.C08
