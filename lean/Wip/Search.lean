import Cutadapt.Adapters
open Cutadapt Cutadapt.Align Cutadapt.Adapters

def lcg (s : UInt64) : UInt64 := s * 6364136223846793005 + 1442695040888963407
def rnd (s : UInt64) (n : Nat) : Nat × UInt64 := let s' := lcg s; ((s' >>> 33).toNat % n, s')

def alpha : Array UInt8 := #[65, 67, 71]

def genSeq (len : Nat) (al : Nat) (s : UInt64) : List UInt8 × UInt64 := Id.run do
  let mut s := s
  let mut out : Array UInt8 := #[]
  for _ in [0:len] do
    let (x, s') := rnd s al
    s := s'
    out := out.push alpha[x]!
  return (out.toList, s)

/-- mutate a copy of the adapter: each position with prob 1/4 gets sub/del/ins -/
def mutate (a : List UInt8) (al : Nat) (s : UInt64) : List UInt8 × UInt64 := Id.run do
  let mut s := s
  let mut out : Array UInt8 := #[]
  for c in a do
    let (x, s1) := rnd s 12
    s := s1
    if x == 0 then
      let (y, s2) := rnd s al; s := s2
      out := out.push alpha[y]!
    else if x == 1 then
      pure ()
    else if x == 2 then
      let (y, s2) := rnd s al; s := s2
      out := (out.push alpha[y]!).push c
    else out := out.push c
  return (out.toList, s)

def isCopyAt (a r : List UInt8) (p : Nat) : Bool := (r.drop p).take a.length == a

def leftmost (a r : List UInt8) : Option Nat := (List.range (r.length + 1)).find? (fun p => p + a.length ≤ r.length && isCopyAt a r p)
def rightmost (a r : List UInt8) : Option Nat := (List.range (r.length + 1)).reverse.find? (fun p => p + a.length ≤ r.length && isCopyAt a r p)

def main (args : List String) : IO Unit := do
  let seed := (args.headD "1").toNat!
  let iters := (args.getD 1 "100000").toNat!
  let mut s : UInt64 := UInt64.ofNat (seed * 7919 + 13)
  let mut bad := 0
  for it in [0:iters] do
    let (al0, s1) := rnd s 2; s := s1
    let al := al0 + 2
    let (m0, s2) := rnd s 10; s := s2
    let m := m0 + 3
    let (adp, s3) := genSeq m al s; s := s3
    let (num, s4) := rnd s 6; s := s4     -- rate = num/10 .. 0..0.5
    let (mo0, s5) := rnd s m; s := s5
    let mo := mo0 + 1
    -- read: pieces
    let (np, s6) := rnd s 4; s := s6
    let mut read : List UInt8 := []
    for _ in [0:np+1] do
      let (k, s7) := rnd s 4; s := s7
      if k == 0 then
        let (l, s8) := rnd s 6; s := s8
        let (g, s9) := genSeq l al s; s := s9
        read := read ++ g
      else if k == 1 then
        read := read ++ adp
      else
        let (g, s9) := mutate adp al s; s := s9
        let (cut, s10) := rnd s 3; s := s10
        let (off, s11) := rnd s (g.length + 1); s := s11
        read := read ++ (if cut == 0 then g.drop off else if cut == 1 then g.take off else g)
    let (indel, s12) := rnd s 4; s := s12
    let indels := indel != 0
    let thr := fun L => L * num / 10
    match leftmost adp read, rightmost adp read with
    | some p, some p' =>
      let mkA (ty : AdapterType) : Adapter := { ty := ty, seq := adp, thr := thr, minOverlap := mo, readWildcards := false, adapterWildcards := false, indels := indels }
      let rb := matchTo (mkA .back) read
      let okb := match rb with | some mt => mt.rstart ≤ p | none => false
      let rf := matchTo (mkA .front) read
      let okf := match rf with | some mt => mt.rstop ≤ p + m | none => false
      let rr := matchTo (mkA .rightmostFront) read
      let okr := match rr with | some mt => mt.rstop ≥ p' + m | none => false
      if !(okb && okf && okr) then
        bad := bad + 1
        if bad ≤ 20 then
          IO.println s!"VIOLATION it={it} adp={adp} read={read} num={num} mo={mo} indels={indels} p={p} p'={p'} back={repr rb} front={repr rf} rfront={repr rr} ok={okb},{okf},{okr}"
    | _, _ => pure ()
  IO.println s!"done seed={seed} iters={iters} bad={bad}"
