import Cutadapt.Index
import Cutadapt.Spec.Edit
/-! `hamming_sphere`: the model `hammingSphereK` (special cases `k = 0, 1, 2`, recursion for `k ≥ 3`) enumerates, in the
    same order, the uniform recursion `sphereG`; its elements are exactly the `ACGT` strings at Hamming distance `k`,
    each listed once. Core Lean only. -/
namespace Cutadapt.Index
open Cutadapt Cutadapt.Spec

/-- a uniform description of the sphere: vary the first character or keep it -/
def sphereG : Nat → Bytes → List Bytes
  | 0, s => [s]
  | _+1, [] => []
  | k+1, c :: cs => (others c).flatMap (fun p => (sphereG k cs).map (p :: ·)) ++ (sphereG (k+1) cs).map (c :: ·)

/-! ### the enumeration order -/

theorem flatMap_singleton_map {α β : Type} (f : α → β) (l : List α) :
    l.flatMap (fun p => [f p]) = l.map f := by
  induction l with
  | nil => rfl
  | cons a l ih => simp [List.flatMap_cons, ih]

theorem sphere1_eq_sphereG (s : Bytes) : sphere1 s = sphereG 1 s := by
  induction s with
  | nil => rfl
  | cons c cs ih =>
    simp only [sphere1, sphereG, ih, List.map_cons, List.map_nil]
    rw [flatMap_singleton_map (fun p => p :: cs)]

theorem sphere2_eq_sphereG (s : Bytes) : sphere2 s = sphereG 2 s := by
  induction s with
  | nil => rfl
  | cons c cs ih =>
    simp only [sphere2, sphereG, ih, sphere1_eq_sphereG]

theorem sphereG_of_length_lt : ∀ (s : Bytes) (k : Nat), s.length < k → sphereG k s = []
  | _, 0, h => absurd h (Nat.not_lt_zero _)
  | [], _+1, _ => rfl
  | c :: cs, k+1, h => by
    have h1 : cs.length < k := by simpa using h
    have h2 : cs.length < k + 1 := Nat.lt_succ_of_lt h1
    simp [sphereG, sphereG_of_length_lt cs k h1, sphereG_of_length_lt cs (k+1) h2]

theorem sphereFrom_nil (sub : Bytes → List Bytes) (cnt : Nat) : sphereFrom sub cnt [] = [] := by
  cases cnt <;> rfl

theorem sphereFrom_sphereG (k : Nat) : ∀ s : Bytes,
    sphereFrom (sphereG k) (s.length + 1 - (k+1)) s = sphereG (k+1) s
  | [] => by rw [sphereFrom_nil]; rfl
  | c :: cs => by
    by_cases h : cs.length < k
    · have h0 : (c :: cs).length + 1 - (k+1) = 0 := by simp only [List.length_cons]; omega
      rw [h0, sphereG_of_length_lt (c :: cs) (k+1) (by simp only [List.length_cons]; omega)]
      rfl
    · have h0 : (c :: cs).length + 1 - (k+1) = (cs.length + 1 - (k+1)) + 1 := by
        simp only [List.length_cons]; omega
      rw [h0]
      simp only [sphereFrom, sphereG, sphereFrom_sphereG k cs]

theorem hammingSphereK_eq_sphereG : ∀ (k : Nat) (s : Bytes), hammingSphereK k s = sphereG k s
  | 0, _ => by simp only [hammingSphereK, sphereG]
  | 1, s => by simp only [hammingSphereK, sphere1_eq_sphereG]
  | 2, s => by simp only [hammingSphereK, sphere2_eq_sphereG]
  | k+3, s => by
    have hf : hammingSphereK (k+2) = sphereG (k+2) := funext (hammingSphereK_eq_sphereG (k+2))
    simp only [hammingSphereK, hf]
    exact sphereFrom_sphereG (k+2) s

/-! ### the elements -/

theorem mem_others (p c : UInt8) : p ∈ others c ↔ p ∈ acgt ∧ p ≠ c := by
  simp [others, List.mem_filter]

theorem others_nodup (c : UInt8) : (others c).Nodup :=
  List.Nodup.sublist List.filter_sublist (by decide : acgt.Nodup)

theorem hamming_nil_right (s : Bytes) : hamming (· == ·) s [] = 0 := by
  cases s <;> rfl

theorem hamming_cons (x y : UInt8) (xs ys : Bytes) :
    hamming (· == ·) (x :: xs) (y :: ys) = (if x = y then 0 else 1) + hamming (· == ·) xs ys := by
  simp [hamming]

theorem hamming_eq_zero : ∀ (s t : Bytes), s.length = t.length → (hamming (· == ·) s t = 0 ↔ s = t)
  | [], [], _ => by simp [hamming]
  | [], _ :: _, h => by simp at h
  | _ :: _, [], h => by simp at h
  | x :: xs, y :: ys, h => by
    have h' : xs.length = ys.length := by simpa using h
    rw [hamming_cons]
    by_cases hxy : x = y
    · simp [hxy, hamming_eq_zero xs ys h']
    · simp [hxy]

theorem mem_sphereG : ∀ (t : Bytes) (k : Nat), (∀ c ∈ t, c ∈ acgt) → ∀ s : Bytes,
    (s ∈ sphereG k t ↔ s.length = t.length ∧ (∀ c ∈ s, c ∈ acgt) ∧ hamming (· == ·) s t = k)
  | t, 0, ht, s => by
    simp only [sphereG, List.mem_singleton]
    constructor
    · rintro rfl
      exact ⟨rfl, ht, (hamming_eq_zero s s rfl).2 rfl⟩
    · rintro ⟨hl, _, hh⟩
      exact (hamming_eq_zero s t hl).1 hh
  | [], k+1, _, s => by
    simp only [sphereG, List.not_mem_nil, false_iff, hamming_nil_right]
    rintro ⟨_, _, h⟩
    exact absurd h (by omega)
  | c :: cs, k+1, ht, s => by
    have hc : c ∈ acgt := ht c (List.mem_cons_self)
    have hcs : ∀ x ∈ cs, x ∈ acgt := fun x hx => ht x (List.mem_cons_of_mem _ hx)
    simp only [sphereG, List.mem_append, List.mem_flatMap, List.mem_map]
    constructor
    · rintro (⟨p, hp, s', hs', rfl⟩ | ⟨s', hs', rfl⟩)
      · obtain ⟨hl, ha, hh⟩ := (mem_sphereG cs k hcs s').1 hs'
        obtain ⟨hpa, hpc⟩ := (mem_others p c).1 hp
        refine ⟨by simp [hl], ?_, ?_⟩
        · intro x hx
          rcases List.mem_cons.1 hx with rfl | hx
          · exact hpa
          · exact ha x hx
        · rw [hamming_cons, if_neg hpc, hh]; omega
      · obtain ⟨hl, ha, hh⟩ := (mem_sphereG cs (k+1) hcs s').1 hs'
        refine ⟨by simp [hl], ?_, ?_⟩
        · intro x hx
          rcases List.mem_cons.1 hx with rfl | hx
          · exact hc
          · exact ha x hx
        · rw [hamming_cons, if_pos rfl, hh]; omega
    · rintro ⟨hl, ha, hh⟩
      cases s with
      | nil => simp at hl
      | cons x xs =>
        have hl' : xs.length = cs.length := by simpa using hl
        have hxa : x ∈ acgt := ha x List.mem_cons_self
        have hxsa : ∀ y ∈ xs, y ∈ acgt := fun y hy => ha y (List.mem_cons_of_mem _ hy)
        rw [hamming_cons] at hh
        by_cases hxc : x = c
        · right
          rw [if_pos hxc] at hh
          refine ⟨xs, (mem_sphereG cs (k+1) hcs xs).2 ⟨hl', hxsa, by omega⟩, by rw [hxc]⟩
        · left
          rw [if_neg hxc] at hh
          exact ⟨x, (mem_others x c).2 ⟨hxa, hxc⟩, xs,
            (mem_sphereG cs k hcs xs).2 ⟨hl', hxsa, by omega⟩, rfl⟩

theorem hammingSphere_spec (t : Bytes) (e : Nat) (ht : ∀ c ∈ t, c ∈ acgt) (s : Bytes) :
    s ∈ hammingSphere t e ↔ s.length = t.length ∧ (∀ c ∈ s, c ∈ acgt) ∧ Cutadapt.Spec.hamming (· == ·) s t = e := by
  unfold hammingSphere
  rw [hammingSphereK_eq_sphereG]
  exact mem_sphereG t e ht s

/-! ### no repetition -/

theorem nodup_map_cons (p : UInt8) (l : List Bytes) (h : l.Nodup) : (l.map (p :: ·)).Nodup := by
  refine List.Pairwise.map _ ?_ h
  intro a b hab heq
  exact hab (List.cons.inj heq).2

theorem sphereG_nodup : ∀ (t : Bytes) (k : Nat), (sphereG k t).Nodup
  | t, 0 => by simp [sphereG]
  | [], k+1 => by simp [sphereG]
  | c :: cs, k+1 => by
    simp only [sphereG]
    rw [List.nodup_append]
    refine ⟨?_, nodup_map_cons c _ (sphereG_nodup cs (k+1)), ?_⟩
    · rw [List.Nodup, List.pairwise_flatMap]
      refine ⟨fun p _ => nodup_map_cons p _ (sphereG_nodup cs k), ?_⟩
      refine List.Pairwise.imp ?_ (others_nodup c)
      intro p q hpq x hx y hy hxy
      obtain ⟨x', _, rfl⟩ := List.mem_map.1 hx
      obtain ⟨y', _, rfl⟩ := List.mem_map.1 hy
      exact hpq (List.cons.inj hxy).1
    · intro a ha b hb hab
      obtain ⟨p, hp, ha⟩ := List.mem_flatMap.1 ha
      obtain ⟨a', _, rfl⟩ := List.mem_map.1 ha
      obtain ⟨b', _, rfl⟩ := List.mem_map.1 hb
      exact ((mem_others p c).1 hp).2 (List.cons.inj hab).1

/- `ht` is not needed: `others c` is duplicate-free for every `c` -/
set_option linter.unusedVariables false in
theorem hammingSphere_nodup (t : Bytes) (e : Nat) (ht : ∀ c ∈ t, c ∈ acgt) : (hammingSphere t e).Nodup := by
  unfold hammingSphere
  rw [hammingSphereK_eq_sphereG]
  exact sphereG_nodup t e

/-! ### concrete instances -/

example : (hammingSphere [65, 67, 71] 3).length = 27 := by decide

example : (hammingSphere [65, 67, 71, 84] 3).length = 108 := by decide

/-- `"CCTT"` differs from `"ACGT"` at two positions, so the generator yields it for `k = 2` -/
example : [67, 67, 84, 84] ∈ hammingSphere [65, 67, 71, 84] 2 :=
  (hammingSphere_spec [65, 67, 71, 84] 2 (by decide) [67, 67, 84, 84]).2 (by decide)

/-- … and for no other `k` -/
example : [67, 67, 84, 84] ∉ hammingSphere [65, 67, 71, 84] 3 := fun h =>
  absurd ((hammingSphere_spec [65, 67, 71, 84] 3 (by decide) _).1 h).2.2 (by decide)

#print axioms hammingSphereK_eq_sphereG
#print axioms hammingSphere_spec
#print axioms hammingSphere_nodup

end Cutadapt.Index
