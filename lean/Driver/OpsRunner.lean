import Driver.Util
import Cutadapt.Runner
import Std.Data.HashSet
/-! Driver ops for the multi-core protocol model (`Cutadapt/Runner.lean`).

`runnertrace <nWorkers> <nChunks> <faultSpec> <action tokens…>` replays a trace through `Runner.step`.
  faultSpec: `-` (no fault) or a comma-separated list of `c<i>` (processing chunk `i` raises in the worker) and
  `r` (the chunker raises in the reader after `nChunks` chunks).
  tokens: `q<w>` workerRequest, `s` readerSend, `p` readerPill, `f` readerFault, `w<w>` workerStep, `m<w>` mainRecv,
  `e` mainFinish.
  Output: `ok <terminal|nonterminal> written=<i.j.k per file, files separated by /> outcome=<running|ok|failed> stats=<n>`
  (chunk `i` contributes the two bytes `[i, f]` to file `f`, two files; its statistics are `2^i`), or `illegal <position>`.
`runnerexplore <nWorkers> <nChunks> <faultSpec>` explores all reachable states (merging equal states) and reports
  `states=… ok=… failed=… stuck=… bad=…` (`bad` = terminal `ok` states whose files or statistics differ from `serialRun`,
  plus states whose written bytes are not a chunk prefix). A sanity check of the model, not a proof. -/
namespace Driver
namespace RunnerOps
open Cutadapt Cutadapt.Runner

def toyFiles : Nat := 2

def parseFaultSpec (spec : String) : Option (List Nat × Bool) :=
  if spec == "-" then some ([], false) else
  (spec.splitOn ",").foldlM (fun (acc : List Nat × Bool) tok =>
    if tok == "r" then some (acc.1, true)
    else if tok.startsWith "c" then (tok.drop 1).toString.toNat?.map (fun i => (acc.1 ++ [i], acc.2))
    else none) ([], false)

def parseAction (tok : String) : Option Action :=
  if tok == "s" then some .readerSend
  else if tok == "p" then some .readerPill
  else if tok == "f" then some .readerFault
  else if tok == "e" then some .mainFinish
  else
    let arg := (tok.drop 1).toString.toNat?
    if tok.startsWith "q" then arg.map .workerRequest
    else if tok.startsWith "w" then arg.map .workerStep
    else if tok.startsWith "m" then arg.map .mainRecv
    else none

/-- chunk indices (first byte of every two-byte piece) -/
def writtenIndices : Bytes → List Nat
  | a :: _ :: r => a.toNat :: writtenIndices r
  | _ => []

def showWritten (s : State Nat) : String :=
  "/".intercalate ((List.range toyFiles).map (fun f =>
    let ix := writtenIndices (s.writers f).written
    if ix.isEmpty then "-" else ".".intercalate (ix.map toString)))

def showOutcome : Outcome → String
  | .running => "running" | .ok => "ok" | .failed => "failed"

def replay (cfg : Config Nat Nat Unit) : State Nat → List Action → Nat → Except Nat (State Nat)
  | s, [], _ => .ok s
  | s, a :: as, pos => match step cfg s a with
    | none => .error pos
    | some s' => replay cfg s' as (pos + 1)

/-! state key for the explorer -/
def showIn : InMsg → String
  | .chunk i => s!"c{i}" | .pill => "p" | .readerError => "E"
def showOut : OutMsg Nat → String
  | .result i _ => s!"r{i}" | .done st => s!"d{st}" | .workerError => "E"
def showPhase : Phase → String
  | .idle => "i" | .requested => "q" | .processing i => s!"x{i}" | .finished => "f" | .failed => "F"

def stateKey (cfg : Config Nat Nat Unit) (s : State Nat) : String :=
  let ws := (List.range cfg.nWorkers).map (fun w =>
    let W := s.workers w
    s!"[{",".intercalate (W.inbox.map showIn)}|{",".intercalate (W.outbox.map showOut)}|{showPhase W.phase}|{W.stats}|{s.isOpen w}|{W.lost}]")
  let fs := (List.range toyFiles).map (fun f =>
    let wr := s.writers f
    s!"<{wr.pending.map (·.1)}|{wr.current}|{writtenIndices wr.written}>")
  s!"{s.next} {s.pills} {s.rfailed} {s.queue} {ws} {fs} {s.received} {s.mstats} {showOutcome s.outcome}"

structure Explored where
  states : Nat := 0
  ok : Nat := 0
  failed : Nat := 0
  stuck : Nat := 0
  bad : Nat := 0

def prefixOk (cfg : Config Nat Nat Unit) (s : State Nat) : Bool :=
  (List.range toyFiles).all (fun f =>
    let ix := writtenIndices (s.writers f).written
    ix == List.range ix.length && (s.writers f).written == concatRange (fun i => outData cfg i f) ix.length)

def endOk (cfg : Config Nat Nat Unit) (s : State Nat) : Bool :=
  let r := serialRun cfg
  r.outcome == .ok && s.mstats == r.stats && (List.range toyFiles).all (fun f => (s.writers f).written == r.written f)
  && (List.range toyFiles).all (fun f => (s.writers f).wroteEverything)

instance : BEq Outcome := ⟨fun a b => decide (a = b)⟩

partial def exploreLoop (cfg : Config Nat Nat Unit) (todo : List (State Nat)) (seen : Std.HashSet String) (acc : Explored) : Explored :=
  match todo with
  | [] => acc
  | s :: rest =>
    let en := enabled cfg s
    let acc := { acc with states := acc.states + 1, bad := acc.bad + (if prefixOk cfg s then 0 else 1) }
    let acc := match en, s.outcome with
      | [], .running => { acc with stuck := acc.stuck + 1 }
      | [], .ok => { acc with ok := acc.ok + 1, bad := acc.bad + (if endOk cfg s then 0 else 1) }
      | [], .failed => { acc with failed := acc.failed + 1, bad := acc.bad + (if (serialRun cfg).outcome == .failed then 0 else 1) }
      | _, _ => acc
    let (todo, seen) := en.foldl (fun (ts : List (State Nat) × Std.HashSet String) a =>
      match step cfg s a with
      | none => ts
      | some s' =>
        let k := stateKey cfg s'
        if ts.2.contains k then ts else (s' :: ts.1, ts.2.insert k)) (rest, seen)
    exploreLoop cfg todo seen acc

end RunnerOps
open Cutadapt Cutadapt.Runner RunnerOps in
def opsRunner : List String → Option String
  | "runnertrace" :: nw :: nc :: spec :: toks => do
    let nw ← nw.toNat?; let nc ← nc.toNat?
    let (faulty, rf) ← parseFaultSpec spec
    let acts ← toks.mapM parseAction
    if nw == 0 then none else
    let cfg := toyConfig nw nc faulty rf toyFiles
    match replay cfg (init cfg) acts 0 with
    | .error pos => pure s!"illegal {pos}"
    | .ok s =>
      let term := if (enabled cfg s).isEmpty then "terminal" else "nonterminal"
      pure s!"ok {term} written={showWritten s} outcome={showOutcome s.outcome} stats={s.mstats}"
  | ["runnerexplore", nw, nc, spec] => do
    let nw ← nw.toNat?; let nc ← nc.toNat?
    let (faulty, rf) ← parseFaultSpec spec
    if nw == 0 then none else
    let cfg := toyConfig nw nc faulty rf toyFiles
    let s0 := init cfg
    let r := exploreLoop cfg [s0] (Std.HashSet.emptyWithCapacity.insert (stateKey cfg s0)) {}
    pure s!"states={r.states} ok={r.ok} failed={r.failed} stuck={r.stuck} bad={r.bad}"
  | _ => none

end Driver
