import Driver.Util
import Driver.OpsAlign
import Cutadapt.Kmer
namespace Driver
open Cutadapt Cutadapt.Adapters Cutadapt.Kmer

def showStop : Option Int → String
  | none => "None"
  | some s => toString s

/-- canonical rendering of `positions_and_kmers`: entries `start,stop,kmer|kmer|…` joined by `;` (k-mers in hex) -/
def showEntries (es : List Entry) : String :=
  if es.isEmpty then "[]" else
  ";".intercalate (es.map fun e => s!"{e.start},{showStop e.stop},{"|".intercalate (e.kmers.map hex)}")

def parseStop (s : String) : Option (Option Int) := if s == "None" then some none else (parseInt s).map some

def parseTriple (s : String) : Option (Bytes × Kmer.Pos) :=
  match s.splitOn ":" with
  | [k, a, b] => do
    let k ← unhex k; let a ← parseInt a; let b ← parseStop b
    pure (k, (a, b))
  | _ => none

def opsKmer : List String → Option String
  -- kmerchunks <hex seq> <chunks>
  | ["kmerchunks", s, c] => do
    let s ← unhex s; let c ← c.toNat?
    pure ("|".intercalate ((kmerChunks s c).map hex))
  -- minimize <hexkmer:start:stop>...
  | "minimize" :: items => do
    let l ← items.mapM parseTriple
    match minimizeKmerSearchList l with
    | .error _ => pure "error:not-implemented"
    | .ok r =>
      let r := sortUniq (fun (a b : Bytes × Kmer.Pos) => bytesLt a.1 b.1 || (a.1 == b.1 && posLt a.2 b.2)) r
      pure (if r.isEmpty then "[]" else " ".intercalate (r.map fun (k, p) => s!"{hex k}:{p.1}:{showStop p.2}"))
  -- poskmers <hex adapter> <minOverlap> <rateBits> <back> <front> <internal> [indels]
  | "poskmers" :: s :: mo :: rb :: b :: f :: i :: rest => do
    let s ← unhex s; let mo ← mo.toNat?; let rate ← floatOfBits rb
    let b ← parseBool b; let f ← parseBool f; let i ← parseBool i
    let ind ← match rest with
      | [] => some false
      | [x] => parseBool x
      | _ => none
    match createPositionsAndKmers s mo (thrOfRate rate) b f i ind with
    | .error _ => pure "error:not-implemented"
    | .ok es => pure (showEntries es)
  -- kmerspresent <type> <hex seq> <rateBits> <minOverlap> <readWild> <adapterWild> <indels> <hex read> <hex beyond> [forceAnywhere]
  | "kmerspresent" :: ty :: sq :: rb :: mo :: rw :: aw :: ind :: rd :: bd :: rest => do
    let ty ← parseType ty; let sq ← unhex sq; let me ← floatOfBits rb; let mo ← mo.toNat?
    let rw ← parseBool rw; let aw ← parseBool aw; let ind ← parseBool ind
    let rd ← unhex rd; let bd ← unhex bd
    let fa ← match rest with
      | [] => some false
      | [x] => parseBool x
      | _ => none
    match mkAdapter ty sq me mo rw aw ind fa with
    | .error e => pure (showMkErr e)
    | .ok (a, _) => pure (if kmersPresent (finderFor a) rd bd then "True" else "False")
  -- safedomain <type> <hex seq> <rateBits> <minOverlap> <readWild> <adapterWild> <indels> <hex read> [forceAnywhere]
  | "safedomain" :: ty :: sq :: rb :: mo :: rw :: aw :: ind :: rd :: rest => do
    let ty ← parseType ty; let sq ← unhex sq; let me ← floatOfBits rb; let mo ← mo.toNat?
    let rw ← parseBool rw; let aw ← parseBool aw; let ind ← parseBool ind; let rd ← unhex rd
    let fa ← match rest with
      | [] => some false
      | [x] => parseBool x
      | _ => none
    match mkAdapter ty sq me mo rw aw ind fa with
    | .error e => pure (showMkErr e)
    | .ok (_, _) => pure (if asciiNoNul rd then "True" else "False")   -- the domain of `C07.prefilter_safe_partial`
  -- prefilter <type> <hex seq> <rateBits> <minOverlap> <readWild> <adapterWild> <indels> <hex read> [forceAnywhere]
  --   the verdict `match_to` acts on: `self.kmer_finder.kmers_present(...)` incl. the `ShortReadsPassKmerFinder` wrapper
  | "prefilter" :: ty :: sq :: rb :: mo :: rw :: aw :: ind :: rd :: rest => do
    let ty ← parseType ty; let sq ← unhex sq; let me ← floatOfBits rb; let mo ← mo.toNat?
    let rw ← parseBool rw; let aw ← parseBool aw; let ind ← parseBool ind; let rd ← unhex rd
    let fa ← match rest with
      | [] => some false
      | [x] => parseBool x
      | _ => none
    match mkAdapter ty sq me mo rw aw ind fa with
    | .error e => pure (showMkErr e)
    | .ok (a, _) => pure (if shortReadPasses a rd || kmersPresent (finderFor a) (finderInput a rd) [] then "True" else "False")
  -- finderkind <type> <hex seq> <rateBits> <minOverlap> <readWild> <adapterWild> <indels> [forceAnywhere] : mock | masks
  | "finderkind" :: ty :: sq :: rb :: mo :: rw :: aw :: ind :: rest => do
    let ty ← parseType ty; let sq ← unhex sq; let me ← floatOfBits rb; let mo ← mo.toNat?
    let rw ← parseBool rw; let aw ← parseBool aw; let ind ← parseBool ind
    let fa ← match rest with
      | [] => some false
      | [x] => parseBool x
      | _ => none
    match mkAdapter ty sq me mo rw aw ind fa with
    | .error e => pure (showMkErr e)
    | .ok (a, _) =>
      match finderFor a with
      | .mock => pure "mock"
      | .masks _ _ _ => pure "masks"
  | _ => none

end Driver
