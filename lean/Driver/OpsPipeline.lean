import Lean.Data.Json
import Driver.Util
import Cutadapt.Regroup
import Driver.OpsParser
/-! `pipeline <json>`: run the pipeline model on an option record, adapters and reads given as JSON; print JSON. -/
namespace Driver
open Lean Cutadapt Cutadapt.Adapters

def jstr (j : Json) (k : String) : Except String String := j.getObjValAs? String k
def jnat (j : Json) (k : String) : Except String Nat := j.getObjValAs? Nat k
def jint (j : Json) (k : String) : Except String Int := j.getObjValAs? Int k
def jbool (j : Json) (k : String) : Except String Bool := j.getObjValAs? Bool k
def jopt (j : Json) (k : String) : Option Json :=
  match j.getObjVal? k with
  | .ok .null => none
  | .ok v => some v
  | .error _ => none

def bytesOf (s : String) : Bytes := s.toUTF8.toList
def strOf (b : Bytes) : String := String.mk (b.map (fun c => Char.ofNat c.toNat))

def parseTy (s : String) : Except String AdapterType :=
  match s with
  | "front" => .ok .front | "rightmost" => .ok .rightmostFront | "back" => .ok .back
  | "anywhere" => .ok .anywhere | "nifront" => .ok .nonInternalFront | "niback" => .ok .nonInternalBack
  | "prefix" => .ok .prefix | "suffix" => .ok .suffix | _ => .error s!"type {s}"

def floatOfJsonBits (j : Json) : Except String Float := do
  let s ← j.getStr?
  match s.toNat? with
  | some n => pure (Float.ofBits n.toUInt64)
  | none => throw "bits"

def parseSingle (j : Json) : Except String Adapter := do
  let ty ← parseTy (← jstr j "type")
  let rate ← floatOfJsonBits (← j.getObjVal? "rate")
  pure { ty := ty, seq := bytesOf (← jstr j "seq"), thr := thrOfRate rate, minOverlap := ← jnat j "min_overlap",
         readWildcards := ← jbool j "rw", adapterWildcards := ← jbool j "aw", indels := ← jbool j "indels",
         forceAnywhere := (jbool j "force_anywhere").toOption.getD false, name := ← jstr j "name" }

def parseMatchable (j : Json) : Except String Matchable := do
  match ← jstr j "kind" with
  | "single" => pure (.single (← parseSingle j))
  | "linked" =>
    pure (.linked (← parseSingle (← j.getObjVal? "front")) (← parseSingle (← j.getObjVal? "back"))
      (← jbool j "front_required") (← jbool j "back_required") (← jstr j "name"))
  | k => throw s!"kind {k}"

/-! ### Adapters from the specifications on the command line (`-a`/`-g`/`-b SPEC` and the global search options), through the parser model
    of C18: the adapter list of the pipeline model is then a function of the command line, not of the objects the real parser built. -/

def adapterOfSingle (a : Parser.Single) (name : String) : Except String Adapter := do
  let ty : AdapterType := match a.cls with
    | .front => .front | .rightmostFront => .rightmostFront | .back => .back | .anywhere => .anywhere
    | .nonInternalFront => .nonInternalFront | .nonInternalBack => .nonInternalBack | .prefix => .prefix | .suffix => .suffix
  let bits ← match (P.rateBits a.maxErrors a.divisor).toNat? with | some n => pure n | none => throw "rate-not-representable"
  let mo ← match a.minOverlap with
    | .int n => pure n
    | .bool b => pure (if b then 1 else 0)
    | .float _ => throw "min_overlap-float"
  pure { ty := ty, seq := P.bytesOfStr a.sequence, thr := thrOfRate (Float.ofBits bits.toUInt64), minOverlap := mo,
         readWildcards := a.readWildcards.truthy, adapterWildcards := a.adapterWildcards, indels := a.indels.truthy,
         forceAnywhere := a.forceAnywhere, name := name }

/-- one `{"flag": "a"|"g"|"b", "spec": …, "auto_name": …}` entry; `auto_name` is used only when the specification carries no name (the real
    program numbers unnamed adapters with a process-wide counter) -/
def matchableOfSpec (g : Parser.Globals) (j : Json) : Except String (Except Parser.Err Matchable) := do
  let t ← match P.parseType (← jstr j "flag") with | some t => pure t | none => throw "flag"
  let spec ← jstr j "spec"
  let auto ← jstr j "auto_name"
  match Parser.parse spec.toList t g [] with
  | .error e => pure (.error e)
  | .ok [Parser.AdapterDesc.single a] =>
    let nm := match a.name with | some n => String.ofList n | none => auto
    pure (.ok (.single (← adapterOfSingle a nm)))
  | .ok [Parser.AdapterDesc.linked f b fr br name] =>
    let nm := match name with | some n => String.ofList n | none => auto
    pure (.ok (.linked (← adapterOfSingle f "linked_front") (← adapterOfSingle b "linked_back") fr.truthy br.truthy nm))
  | .ok _ => throw "specification does not denote exactly one adapter"

def parseGlobalsJson (j : Json) : Except String Parser.Globals := do
  let e ← match P.parseValueTok ("f:" ++ (← jstr j "e")) with | some v => pure v | none => throw "globals e"
  let o ← match P.parseValueTok ("i:" ++ (← jstr j "O")) with | some v => pure v | none => throw "globals O"
  pure ⟨e, o, ← jbool j "rw", ← jbool j "aw", ← jbool j "indels"⟩

/-- the adapter list of one read: either `"adapters"` (objects, as before) or `"specs"` (command-line specifications) -/
def adapterList (j : Json) (key keySpecs : String) : Except String (Except Parser.Err (List Matchable)) := do
  match j.getObjVal? keySpecs with
  | .ok specs =>
    let g ← parseGlobalsJson (← j.getObjVal? "globals")
    let rs ← (← specs.getArr?).toList.mapM (matchableOfSpec g)
    pure (rs.mapM id)
  | .error _ =>
    pure (.ok (← (← (← j.getObjVal? key).getArr?).toList.mapM parseMatchable))

def parseRead (j : Json) : Except String Read := do
  let a ← j.getArr?
  if h : a.size = 3 then
    let q : Option Bytes := match a[2] with | .null => none | v => (v.getStr?.toOption.map bytesOf)
    pure ⟨bytesOf (← a[0].getStr?), bytesOf (← a[1].getStr?), q⟩
  else throw "read"

def optStr (j : Json) (k : String) : Option String := (jopt j k).bind (·.getStr?.toOption)
def optInt (j : Json) (k : String) : Option Int := (jopt j k).bind (·.getInt?.toOption)
def optFloat (j : Json) (k : String) : Option Float := (jopt j k).bind (fun v => (floatOfJsonBits v).toOption)
def flag (j : Json) (k : String) : Bool := ((jopt j k).bind (·.getBool?.toOption)).getD false
def intList (j : Json) (k : String) : List Int :=
  match jopt j k with
  | some (.arr a) => a.toList.filterMap (·.getInt?.toOption)
  | _ => []

def parseLens (j : Json) (k : String) : Option (Option Int × Option Int) :=
  match jopt j k with
  | some (.arr a) => some ((a[0]?.bind (·.getInt?.toOption)), (a[1]?.bind (·.getInt?.toOption)))
  | _ => none

def parseCutoff (j : Json) (k : String) : Option (Option (Int × Int)) :=
  match jopt j k with
  | some (.arr a) =>
    match a[0]?.bind (·.getInt?.toOption), a[1]?.bind (·.getInt?.toOption) with
    | some x, some y => some (some (x, y))
    | _, _ => some none
  | some _ => some none      -- the literal "0"
  | none => none

def parseToks (j : Json) (k : String) : Option (List Tok) :=
  match jopt j k with
  | some (.arr a) => some (a.toList.filterMap fun t =>
      match t.getObjValAs? String "lit" with
      | .ok s => some (Tok.lit (bytesOf s))
      | .error _ => (t.getObjValAs? String "var").toOption.map Tok.var)
  | _ => none

def parseAction (s : String) : Action :=
  match s with
  | "trim" => .trim | "mask" => .mask | "lowercase" => .lowercase | "retain" => .retain | "crop" => .crop | _ => .none

def parseOpts (j : Json) : Opts :=
  { paired := flag j "paired", cut := intList j "cut", cut2 := intList j "cut2", nextseqTrim := optInt j "nextseq_trim",
    qualityBase := (optInt j "quality_base").getD 33, qualityCutoff := parseCutoff j "quality_cutoff",
    qualityCutoff2 := parseCutoff j "quality_cutoff2", pairAdapters := flag j "pair_adapters",
    action := parseAction ((optStr j "action").getD "trim"), times := ((optInt j "times").getD 1).toNat,
    revcomp := flag j "revcomp", rename := parseToks j "rename", renameGiven := flag j "rename_given", polyA := flag j "poly_a",
    length := optInt j "length", length2 := optInt j "length2", trimN := flag j "trim_n",
    lengthTag := (optStr j "length_tag").map bytesOf,
    stripSuffix := (match jopt j "strip_suffix" with | some (.arr a) => a.toList.filterMap (fun v => v.getStr?.toOption.map bytesOf) | _ => []),
    pfx := bytesOf ((optStr j "prefix").getD ""), sfx := bytesOf ((optStr j "suffix").getD ""), zeroCap := flag j "zero_cap",
    minLen := parseLens j "min_len", maxLen := parseLens j "max_len",
    tooShortOut := optStr j "too_short_output", tooShortPaired := optStr j "too_short_paired_output",
    tooLongOut := optStr j "too_long_output", tooLongPaired := optStr j "too_long_paired_output",
    maxN := optFloat j "max_n", maxEE := optFloat j "max_ee", maxAER := optFloat j "max_aer",
    discardCasava := flag j "discard_casava", discardTrimmed := flag j "discard_trimmed", discardUntrimmed := flag j "discard_untrimmed",
    untrimmedOut := optStr j "untrimmed_output", untrimmedPaired := optStr j "untrimmed_paired_output",
    pairFilter := (optStr j "pair_filter").map (fun s => if s == "both" then .both else if s == "first" then .first else .any),
    output := (optStr j "output").getD "out", pairedOutput := optStr j "paired_output",
    restFile := optStr j "rest_file", infoFile := optStr j "info_file", wildcardFile := optStr j "wildcard_file",
    inputHasQualities := ((jopt j "input_has_qualities").bind (·.getBool?.toOption)).getD true,
    interleaved := flag j "interleaved" }

def readJson (r : Read) : Json :=
  Json.arr #[strOf r.name, strOf r.seq, match r.qual with | some q => Json.str (strOf q) | none => Json.null]

def showErr : Err → String
  | .attribute => "attribute" | .assertion => "assertion" | .value => "value" | .key => "key" | .cmdline => "cmdline"
  | .template => "template"

/-- file path ↦ records, from the `write` events -/
def filesOf (ws : List Writer) (evs : List Event) : List (String × List Read) :=
  let add (acc : List (String × List Read)) (p : String) (r : Read) : List (String × List Read) :=
    if acc.any (·.1 == p) then acc.map (fun e => if e.1 == p then (p, e.2 ++ [r]) else e) else acc ++ [(p, [r])]
  let init : List (String × List Read) := ws.foldl (fun acc w =>
    let acc := if acc.any (·.1 == w.path1) then acc else acc ++ [(w.path1, [])]
    match w.path2 with
    | some p => if acc.any (·.1 == p) then acc else acc ++ [(p, [])]
    | none => acc) []
  evs.foldl (fun acc ev =>
    match ev with
    | .write w r1 r2 =>
      match ws[w]? with
      | none => acc
      | some wr =>
        let acc := add acc wr.path1 r1
        match r2 with
        | none => acc
        | some r2 => match wr.path2 with
          | some p2 => add acc p2 r2
          | none => if wr.interleaved then add acc wr.path1 r2 else acc
    | _ => acc) init

def textsOf (ts : List String) (evs : List Event) : List (String × List String) :=
  ts.zipIdx.map fun (p, i) => (p, evs.filterMap fun ev => match ev with | .text f l => if f == i then some (strOf l) else none | _ => none)

def endJson (e : EndStats) : Json :=
  Json.mkObj [("errors", Json.arr (e.errors.map (fun ((l, er), c) => Json.arr #[l, er, c])).toArray),
              ("adjacent", Json.arr (e.adjacent.map (fun (b, c) => Json.arr #[strOf b, c])).toArray)]

def astatsJson (s : AdapterStats) : Json :=
  Json.mkObj [("front", endJson s.front), ("back", endJson s.back), ("rc", s.reverseComplemented)]

def summaryJson (s : Summary) (filtered : List (String × Nat)) : List (String × Json) :=
  [("n", s.n), ("bp1", s.bp1), ("bp2", s.bp2), ("written", s.written), ("written_bp1", s.writtenBp1), ("written_bp2", s.writtenBp2),
   ("filtered", Json.mkObj (filtered.map (fun (k, v) => (k, (v : Json))))),
   ("quality_trimmed1", s.qualTrimmed1), ("quality_trimmed2", s.qualTrimmed2),
   ("poly_a1", Json.arr (s.polyA1.map (fun (k, v) => Json.arr #[k, v])).toArray),
   ("poly_a2", Json.arr (s.polyA2.map (fun (k, v) => Json.arr #[k, v])).toArray),
   ("with_adapters1", s.withAdapters1), ("with_adapters2", s.withAdapters2), ("reverse_complemented", s.reverseComplemented)]

def opPipeline (line : String) : String :=
  match Json.parse line with
  | .error e => s!"bad-op json {e}"
  | .ok j =>
    let r : Except String String := do
      let o := parseOpts (← j.getObjVal? "opts")
      let adsE ← adapterList j "adapters" "specs"
      let ads2E ← adapterList j "adapters2" "specs2"
      -- a specification that the parser rejects: `adapters_from_args` turns KeyError/ValueError/InvalidCharacter into a command-line error
      let parseErr : Option Parser.Err := match adsE, ads2E with
        | .error e, _ => some e
        | _, .error e => some e
        | _, _ => none
      if let some e := parseErr then
        return (Json.mkObj [("error", if e.isCmdline then "cmdline" else "crash"), ("stage", "setup"), ("parser", P.errStr e)]).compress
      let ads := match adsE with | .ok l => l | .error _ => []
      let ads2 := match ads2E with | .ok l => l | .error _ => []
      let reads ← (← (← j.getObjVal? "reads").getArr?).toList.mapM parseRead
      let reads2 ← (← (← j.getObjVal? "reads2").getArr?).toList.mapM parseRead
      -- `Renamer.__init__` / `PairedEndRenamer.__init__` reject unknown placeholders (InvalidTemplate → command-line error)
      if (match o.rename with | some t => !renameVarsOK o.paired t | none => false) then
        pure (Json.mkObj [("error", "cmdline"), ("stage", "setup")]).compress
      else
        let noIndex := flag (← j.getObjVal? "opts") "no_index"
        if o.paired then
          let built : Except Err (PairedPipeline × Files × Regrouped × Regrouped) :=
            if noIndex then (makePaired o ads ads2).map (fun (p, f) =>
              (p, f, ⟨ads, (List.range ads.length).map some⟩, ⟨ads2, (List.range ads2.length).map some⟩))
            else makePairedIndexed o ads ads2
          match built with
          | .error e => pure (Json.mkObj [("error", showErr e), ("stage", "setup")]).compress
          | .ok (p, f, rg1, rg2) =>
            let (evs, err) := runPaired p (reads.zip reads2)
            match err with
            | some e => pure (Json.mkObj [("error", showErr e), ("stage", "run")]).compress
            | none =>
              let s := summarize evs
              pure (Json.mkObj ([("files", Json.mkObj ((filesOf f.writers evs).map (fun (p, rs) => (p, Json.arr (rs.map readJson).toArray)))),
                ("texts", Json.mkObj ((textsOf f.texts evs).map (fun (p, ls) => (p, Json.arr (ls.map Json.str).toArray)))),
                ("adapter_stats1", Json.arr ((statsInGivenOrder rg1 ads.length (adapterStatsT rg1.ads 0 evs)).map astatsJson).toArray),
                ("adapter_stats2", Json.arr ((statsInGivenOrder rg2 ads2.length (adapterStatsT rg2.ads 1 evs)).map astatsJson).toArray)] ++
                summaryJson s (collectFiltered p.steps s))).compress
        else
          let built : Except Err (SinglePipeline × Files × Regrouped) :=
            if noIndex then (makeSingle o ads).map (fun (p, f) => (p, f, ⟨ads, (List.range ads.length).map some⟩))
            else makeSingleIndexed o ads
          match built with
          | .error e => pure (Json.mkObj [("error", showErr e), ("stage", "setup")]).compress
          | .ok (p, f, rg) =>
            let (evs, err) := runSingle p reads
            match err with
            | some e => pure (Json.mkObj [("error", showErr e), ("stage", "run")]).compress
            | none =>
              let s := summarize evs
              pure (Json.mkObj ([("files", Json.mkObj ((filesOf f.writers evs).map (fun (p, rs) => (p, Json.arr (rs.map readJson).toArray)))),
                ("texts", Json.mkObj ((textsOf f.texts evs).map (fun (p, ls) => (p, Json.arr (ls.map Json.str).toArray)))),
                ("adapter_stats1", Json.arr ((statsInGivenOrder rg ads.length (adapterStatsT rg.ads 0 evs)).map astatsJson).toArray),
                ("adapter_stats2", Json.arr #[])] ++
                summaryJson s (collectFiltered p.steps s))).compress
    match r with
    | .ok s => s
    | .error e => s!"bad-op {e}"

/-- `regroup {"adapters": [...]}` → what `AdapterCutter.__init__` (index enabled) hands to `MultipleAdapters`: the entries in their new order
    (a plain entry by the position it had in the given list; an index object by its kind, the positions of its members and the rows its
    members get in the name table) and the origin column of the name table -/
def opRegroup (line : String) : String :=
  match Json.parse line with
  | .error e => s!"bad-op json {e}"
  | .ok j =>
    let r : Except String String := do
      let ads ← (← (← j.getObjVal? "adapters").getArr?).toList.mapM parseMatchable
      let rg := regroup ads
      let origin (k : Nat) : Json := match rg.origin[k]? with | some (some p) => (p : Json) | _ => Json.null
      let entries := rg.ads.zipIdx.map fun (m, k) =>
        match m with
        | .indexed ix ids => Json.mkObj [("index", if ix.isPrefix then "prefix" else "suffix"),
                                         ("members", Json.arr (ids.map origin).toArray),
                                         ("names", Json.arr (ix.adapters.map (fun a => Json.str a.name)).toArray)]
        | m => Json.mkObj [("pos", origin k), ("name", m.name)]
      pure (Json.mkObj [("entries", Json.arr entries.toArray), ("names", Json.arr ((namesOf rg.ads).map Json.str).toArray)]).compress
    match r with
    | .ok s => s
    | .error e => s!"bad-op {e}"

end Driver
