import Driver.Util
import Cutadapt.Files
namespace Driver
open Cutadapt.Files

def opsFiles : List String → Option String
  | ["outfmt", path, ff, q, prox] => do
    let ff ← parseBool ff; let q ← parseBool q; let prox ← parseBool prox
    pure (match outputFormat path ff q prox with | .fasta => "fasta" | .fastq => "fastq")
  | _ => none
end Driver
