import Driver.Util
import Cutadapt.Adapters
namespace Driver
open Cutadapt Cutadapt.Align Cutadapt.Adapters

def showAln : Option (Nat × Nat × Nat × Nat × Int × Nat) → String
  | none => "None"
  | some (a,b,c,d,s,e) => s!"({a}, {b}, {c}, {d}, {s}, {e})"

def parseType : String → Option AdapterType
  | "front" => some .front | "rightmost" => some .rightmostFront | "back" => some .back
  | "anywhere" => some .anywhere | "nifront" => some .nonInternalFront | "niback" => some .nonInternalBack
  | "prefix" => some .prefix | "suffix" => some .suffix | _ => none

def showMkErr : MkErr → String
  | .emptySequence => "error:empty" | .invalidCharacter => "error:invalid-character"
  | .onlyN => "error:only-n" | .badRate => "error:bad-rate"

def opsAlign : List String → Option String
  -- locate <flags> <wildRef> <wildQuery> <indelCost> <minOverlap> <rateBits> <ref> <query>
  | ["locate", flags, wr, wq, ic, mo, rb, r, q] => do
    let f ← flags.toNat?; let wr ← parseBool wr; let wq ← parseBool wq
    let ic ← ic.toNat?; let mo ← mo.toNat?; let rate ← floatOfBits rb
    let ref ← unhex r; let query ← unhex q
    let cfg := mkCfg f wr wq ic mo (thrOfRate rate) ref.length
    pure (showAln (locate cfg ref query))
  | ["cmpprefix", wr, wq, mo, rb, r, q] => do
    let wr ← parseBool wr; let wq ← parseBool wq; let mo ← mo.toNat?; let rate ← floatOfBits rb
    let ref ← unhex r; let query ← unhex q
    pure (showAln (comparePrefix ⟨wr, wq, mo, thrOfRate rate⟩ ref query))
  | ["cmpsuffix", wr, wq, mo, rb, r, q] => do
    let wr ← parseBool wr; let wq ← parseBool wq; let mo ← mo.toNat?; let rate ← floatOfBits rb
    let ref ← unhex r; let query ← unhex q
    pure (showAln (compareSuffix ⟨wr, wq, mo, thrOfRate rate⟩ ref query))
  -- matchto <type> <seq> <maxErrorsBits> <minOverlap> <readWild> <adapterWild> <indels> <forceAnywhere> <read>
  | ["matchto", ty, sq, rb, mo, rw, aw, ind, fa, rd] => do
    let ty ← parseType ty; let sq ← unhex sq; let me ← floatOfBits rb; let mo ← mo.toNat?
    let rw ← parseBool rw; let aw ← parseBool aw; let ind ← parseBool ind; let fa ← parseBool fa
    let rd ← unhex rd
    match mkAdapter ty sq me mo rw aw ind fa with
    | .error e => pure (showMkErr e)
    | .ok (a, _) =>
      match matchTo a rd with
      | none => pure "None"
      | some mt => pure s!"{if mt.before then "Before" else "After"} {mt.astart} {mt.astop} {mt.rstart} {mt.rstop} {mt.score} {mt.errors}"
  | _ => none

end Driver
