import Driver.Util
import Cutadapt.Parser
/-! Driver operations for the adapter-specification parser (C18).

* `parsespec <a|g|b> <spec hex> <max_errors> <min_overlap> <rw 0|1> <aw 0|1> <indels 0|1> [<header hex>:<sequence hex> ...]`
  (`<max_errors>`, `<min_overlap>`: `f:<literal>` float, `i:<literal>` int, `b:<0|1>` bool) prints the adapters separated by
  blanks, or `error:<class>:<site>`.
* `expandbraces <hex>` prints the expansion in hex or `error:…`.
* `parseparams <hex>` prints the dict as `key=value,…` in a fixed key order.
* `mkadapter <a|g|b> …` = `parsespec` going through `make_adapter` only (no `file:` handling).

Doubles: the model keeps `max_error_rate` as an exact quotient; `rateBits` reproduces CPython's arithmetic
(`float(literal)`, then `/ n`) with correctly rounded integer arithmetic and prints the IEEE-754 bit pattern. -/
namespace Driver.P
open Cutadapt Cutadapt.Parser Driver

def strOfBytes (b : Bytes) : Str := b.map (fun c => Char.ofNat c.toNat)
def bytesOfStr (s : Str) : Bytes := s.map (fun c => c.toNat.toUInt8)
def hexStr (s : Str) : String := hex (bytesOfStr s)

/-- `(a, b)` with `a/b = num / (den * 2^e)` -/
def scaled (num den : Nat) (e : Int) : Nat × Nat :=
  if e ≥ 0 then (num, den * 2 ^ e.toNat) else (num * 2 ^ (-e).toNat, den)

/-- correctly rounded (nearest, ties to even) binary64 of `num/den` for `num, den > 0` in the normal range: `(q, e)` with value
    `q * 2^e`, `2^52 ≤ q < 2^53` -/
def roundRat (num den : Nat) : Nat × Int :=
  let l : Int := (Nat.log2 num : Int) - (Nat.log2 den : Int)
  let e0 : Int := l - 52
  let q0 := let s := scaled num den e0; s.1 / s.2
  let e : Int := if q0 ≥ 2 ^ 53 then e0 + 1 else if q0 < 2 ^ 52 then e0 - 1 else e0
  let s := scaled num den e
  let q := s.1 / s.2
  let r := s.1 % s.2
  let q := if 2 * r > s.2 ∨ (2 * r = s.2 ∧ q % 2 = 1) then q + 1 else q
  if q = 2 ^ 53 then (2 ^ 52, e + 1) else (q, e)

def dyadicBits (q : Nat) (e : Int) : Option Nat :=
  let be := e + 1075
  if q < 2 ^ 52 ∨ q ≥ 2 ^ 53 ∨ be < 1 ∨ be > 2046 then none else some (be.toNat * 2 ^ 52 + (q - 2 ^ 52))

/-- bit pattern of the Python float `float(v) / div` (`div = 1`: `float(v)`) -/
def rateBits (v : Value) (div : Nat) : String :=
  if v.numer = 0 then "0" else
  if div = 0 then "range" else
  -- float(v): exact for bool/int below 2^53, correctly rounded for decimal literals
  let (q1, e1) := roundRat v.numer v.den
  -- int / int is correctly rounded from the exact quotient; float / int is an IEEE division of the rounded operand
  let (q, e) :=
    if div = 1 then (q1, e1)
    else if v.isFloat then (let s := scaled q1 1 (-e1); roundRat s.1 (s.2 * div))
    else roundRat v.numer (v.den * div)
  match dyadicBits q e with
  | some b => toString b
  | none => "range"

def natStr (n : Nat) : String := toString n

/-- Python `repr` of the value (floats with few digits in positional notation: digits, point, digits without trailing zeros) -/
def valueStr : Value → String
  | .bool true => "True"
  | .bool false => "False"
  | .int n => natStr n
  | .float d =>
    -- strip trailing zeros of the fraction
    let rec norm (fuel m s : Nat) : Nat × Nat :=
      match fuel with
      | 0 => (m, s)
      | fuel + 1 => if s > 0 ∧ m % 10 = 0 then norm fuel (m / 10) (s - 1) else (m, s)
    let (m, s) := norm d.scale d.mant d.scale
    let ip := m / 10 ^ s
    let fp := m % 10 ^ s
    if s = 0 then natStr ip ++ ".0"
    else
      let f := natStr fp
      natStr ip ++ "." ++ String.ofList (List.replicate (s - f.length) '0') ++ f

def clsStr : Cls → String
  | .front => "FrontAdapter"
  | .rightmostFront => "RightmostFrontAdapter"
  | .back => "BackAdapter"
  | .anywhere => "AnywhereAdapter"
  | .nonInternalFront => "NonInternalFrontAdapter"
  | .nonInternalBack => "NonInternalBackAdapter"
  | .prefix => "PrefixAdapter"
  | .suffix => "SuffixAdapter"

def b01 (b : Bool) : String := if b then "1" else "0"
def nameStr : Option Str → String
  | none => "*"
  | some n => hexStr n

def singleStr (withName : Bool) (a : Single) : String :=
  clsStr a.cls ++ ";" ++ hexStr a.sequence ++ ";" ++ (if withName then nameStr a.name else "~") ++ ";e=" ++ rateBits a.maxErrors a.divisor
    ++ ";o=" ++ valueStr a.minOverlap ++ ";indels=" ++ valueStr a.indels ++ ";rw=" ++ valueStr a.readWildcards
    ++ ";aw=" ++ b01 a.adapterWildcards ++ ";fa=" ++ b01 a.forceAnywhere

def descStr : AdapterDesc → String
  | .single a => singleStr true a
  | .linked f b fr br name =>
    "LinkedAdapter;" ++ nameStr name ++ ";fr=" ++ valueStr fr ++ ";br=" ++ valueStr br ++ ";[" ++ singleStr false f ++ "];[" ++ singleStr false b ++ "]"

def errSite : Err → String
  | .unknownParameter => "unknownParameter" | .noValue => "noValue" | .badNumber => "badNumber" | .duplicateKey => "duplicateKey"
  | .optionalRequired => "optionalRequired" | .indelsNoindels => "indelsNoindels" | .braceAfterChar => "braceAfterChar"
  | .braceCloseHere => "braceCloseHere" | .braceValue => "braceValue" | .braceInt => "braceInt"
  | .braceExpectedClose => "braceExpectedClose" | .braceExpectedOpen => "braceExpectedOpen" | .braceUnterminated => "braceUnterminated"
  | .ellipsisAnywhere => "ellipsisAnywhere" | .invalidSpec => "invalidSpec" | .multipleRestrictions => "multipleRestrictions"
  | .front5 => "front5" | .back3 => "back3" | .anywhereRestriction => "anywhereRestriction" | .anchoredMinOverlap => "anchoredMinOverlap"
  | .rightmost => "rightmost" | .linkedAnywhere => "linkedAnywhere" | .requiredOutsideLinked => "requiredOutsideLinked"
  | .emptySequence => "emptySequence" | .invalidCharacter => "invalidCharacter" | .onlyN => "onlyN" | .rateRange => "rateRange"
  | .typeError => "typeError" | .unsupported => "unsupported"

def errStr (e : Err) : String :=
  let c := match e.cls with
    | .keyError => "KeyError" | .valueError => "ValueError" | .invalidCharacter => "InvalidCharacter"
    | .typeError => "TypeError" | .unsupported => "unsupported"
  "error:" ++ c ++ ":" ++ errSite e

def keyStr : Key → String
  | .maxErrors => "max_errors" | .minOverlap => "min_overlap" | .anywhere => "anywhere" | .required => "required"
  | .optional => "optional" | .indels => "indels" | .noindels => "noindels" | .rightmost => "rightmost"
  | .readWildcards => "read_wildcards" | .adapterWildcards => "adapter_wildcards" | .forceAnywhere => "force_anywhere"

def allKeys : List Key :=
  [.adapterWildcards, .anywhere, .forceAnywhere, .indels, .maxErrors, .minOverlap, .noindels, .optional, .readWildcards,
   .required, .rightmost]

/-- floats inside a parameter dict are printed exactly: `mant/10^scale` normalised by `valueStr` -/
def paramsStr (p : Params) : String :=
  let items := allKeys.filterMap (fun k => (p.get k).map (fun v => keyStr k ++ "=" ++ valueStr v))
  if items.isEmpty then "{}" else ",".intercalate items

def parseType : String → Option AType
  | "a" => some .back
  | "g" => some .front
  | "b" => some .anywhere
  | _ => none

def parseValueTok (s : String) : Option Value :=
  match s.toList with
  | 'b' :: ':' :: r => if r = ['1'] then some (.bool true) else if r = ['0'] then some (.bool false) else none
  | 'i' :: ':' :: r => match pyNumber r with | .ok (.int n) => some (.int n) | _ => none
  | 'f' :: ':' :: r =>
    match pyNumber r with
    | .ok (.int n) => some (.float ⟨n, 0⟩)
    | .ok (.float d) => some (.float d)
    | _ => none
  | _ => none

def parseRecord (s : String) : Option (Str × Str) :=
  match s.splitOn ":" with
  | [h, q] => do
    let h ← unhex h; let q ← unhex q
    pure (strOfBytes h, strOfBytes q)
  | _ => none

def parseGlobals (e o rw aw ind : String) : Option Globals := do
  let e ← parseValueTok e; let o ← parseValueTok o
  let rw ← parseBool rw; let aw ← parseBool aw; let ind ← parseBool ind
  pure ⟨e, o, rw, aw, ind⟩

def resultStr : Except Err (List AdapterDesc) → String
  | .error e => errStr e
  | .ok l => if l.isEmpty then "none" else " ".intercalate (l.map descStr)

end Driver.P

namespace Driver
open Cutadapt Cutadapt.Parser Driver.P

def opsParser : List String → Option String
  | "parsespec" :: t :: spec :: e :: o :: rw :: aw :: ind :: recs => do
    let t ← parseType t; let spec ← unhex spec
    let g ← parseGlobals e o rw aw ind
    let recs ← recs.mapM parseRecord
    pure (resultStr (Parser.parse (strOfBytes spec) t g recs))
  | ["mkadapter", t, spec, e, o, rw, aw, ind] => do
    let t ← parseType t; let spec ← unhex spec
    let g ← parseGlobals e o rw aw ind
    let spec := strOfBytes spec
    if !isAscii spec then pure (errStr .unsupported) else
    pure (resultStr ((makeAdapter spec t g.toParams none).map (fun a => [a])))
  | ["expandbraces", s] => do
    let s ← unhex s
    let s := strOfBytes s
    if !isAscii s then pure (errStr .unsupported) else
    match expandBraces s with
    | .error e => pure (errStr e)
    | .ok r => pure (hexStr r)
  | ["parseparams", s] => do
    let s ← unhex s
    let s := strOfBytes s
    if !isAscii s then pure (errStr .unsupported) else
    match parseParams s with
    | .error e => pure (errStr e)
    | .ok p => pure (paramsStr p)
  | _ => none

end Driver
