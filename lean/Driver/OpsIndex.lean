import Driver.Util
import Cutadapt.Index
namespace Driver
open Cutadapt Cutadapt.Adapters Cutadapt.Index

def showIndexMatch : Option IndexMatch → String
  | none => "None"
  | some m => s!"{m.adapter} {m.astart} {m.astop} {m.rstart} {m.rstop} {m.score} {m.errors}"

/-- `{<hex seq> <rateBits>}…` → adapters built like `PrefixAdapter/SuffixAdapter(seq, max_errors=rate, indels=…)`
    (defaults: `adapter_wildcards=True`, `read_wildcards=False`) -/
def parseAdapters (ty : AdapterType) (indels : Bool) : Nat → List String → Option (List Adapter × List String)
  | 0, rest => some ([], rest)
  | n+1, sq :: rb :: rest => do
    let sq ← unhex sq; let rate ← floatOfBits rb
    match mkAdapter ty sq rate 3 false true indels false with
    | .error _ => none
    | .ok (a, _) =>
      let (as, rest) ← parseAdapters ty indels n rest
      pure (a :: as, rest)
  | _, _ => none

def parseIndexArgs (kind ind n : String) (rest : List String) : Option (Bool × List Adapter × List String) := do
  let isPrefix ← (if kind == "prefix" then some true else if kind == "suffix" then some false else none)
  let indels ← parseBool ind
  let n ← n.toNat?
  let (adapters, rest) ← parseAdapters (if isPrefix then .prefix else .suffix) indels n rest
  pure (isPrefix, adapters, rest)

def opsIndex : List String → Option String
  -- hsphere <hex s> <k>
  | ["hsphere", s, k] => do
    let s ← unhex s; let k ← k.toNat?
    pure (",".intercalate ((hammingSphere s k).map hex))
  -- editenv <hex t> <k>
  | ["editenv", t, k] => do
    let t ← unhex t; let k ← k.toNat?
    pure (",".intercalate ((editEnvironment t k).map (fun (s, e, m) => s!"{hex s}:{e}:{m}")))
  -- indexlookup <prefix|suffix> <indels 0/1> <n adapters> {<hex seq> <rateBits>}… <hex read>…   (one or more reads;
  -- results joined by " | ")
  | "indexlookup" :: kind :: ind :: n :: rest => do
    let (isPrefix, adapters, reads) ← parseIndexArgs kind ind n rest
    if reads.isEmpty then none else
    let reads ← reads.mapM unhex
    match mkIndex hashOps adapters isPrefix with
    | .error .emptyList => pure "error:empty-list"
    | .error (.notAcceptable i) => pure s!"error:not-acceptable {i}"
    | .ok idx => pure (" | ".intercalate (reads.map (fun r => showIndexMatch (indexMatchTo hashOps idx r))))
  -- indexdump <prefix|suffix> <indels 0/1> <n adapters> {<hex seq> <rateBits>}… [<hex key>…]
  --   → lengths, number of ambiguous keys, number of keys, then `key:adapter:e:m` (or `key:-`) for each requested key
  | "indexdump" :: kind :: ind :: n :: rest => do
    let (isPrefix, adapters, keys) ← parseIndexArgs kind ind n rest
    let keys ← keys.mapM unhex
    match mkIndex hashOps adapters isPrefix with
    | .error .emptyList => pure "error:empty-list"
    | .error (.notAcceptable i) => pure s!"error:not-acceptable {i}"
    | .ok idx =>
      let shown :=
        if keys.isEmpty then
          -- whole index, sorted by (hex) key
          (idx.index.toList.map (fun (key, (ai, e, m)) => s!"{hex key}:{ai}:{e}:{m}")).toArray.qsort (· < ·) |>.toList
        else keys.map (fun key => match hashOps.get? idx.index key with
          | none => s!"{hex key}:-"
          | some (ai, e, m) => s!"{hex key}:{ai}:{e}:{m}")
      pure s!"{idx.lengths} {idx.nAmbiguous} {idx.index.size} {",".intercalate shown}"
  | _ => none

end Driver
