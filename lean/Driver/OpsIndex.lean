import Driver.Util
import Cutadapt.Index
namespace Driver
open Cutadapt Cutadapt.Adapters Cutadapt.Index

def showIndexMatch : Option IndexMatch → String
  | none => "None"
  | some m => s!"{m.adapter} {m.astart} {m.astop} {m.rstart} {m.rstop} {m.score} {m.errors}"

/-- `{<hex seq> <rateBits>}…` → adapters built like `PrefixAdapter/SuffixAdapter(seq, max_errors=rate, indels=…)`
    (defaults: `adapter_wildcards=True`, `read_wildcards=False`); one `indels` flag per adapter -/
def parseAdapters (ty : AdapterType) : List Bool → List String → Option (List Adapter × List String)
  | [], rest => some ([], rest)
  | indels :: flags, sq :: rb :: rest => do
    let sq ← unhex sq; let rate ← floatOfBits rb
    match mkAdapter ty sq rate 3 false true indels false with
    | .error _ => none
    | .ok (a, _) =>
      let (as, rest) ← parseAdapters ty flags rest
      pure (a :: as, rest)
  | _, _ => none

/-- the `indels` token: `0` / `1` (all adapters) or `m` followed by one `0`/`1` per adapter (`;noindels` on some) -/
def parseIndelFlags (tok : String) (n : Nat) : Option (List Bool) :=
  if tok == "0" then some (List.replicate n false)
  else if tok == "1" then some (List.replicate n true)
  else match tok.toList with
    | 'm' :: cs => if cs.length == n then cs.mapM (fun c => if c == '0' then some false else if c == '1' then some true else none) else none
    | _ => none

def parseIndexArgs (kind ind n : String) (rest : List String) : Option (Bool × List Adapter × List String) := do
  let isPrefix ← (if kind == "prefix" then some true else if kind == "suffix" then some false else none)
  let n ← n.toNat?
  let flags ← parseIndelFlags ind n
  let (adapters, rest) ← parseAdapters (if isPrefix then .prefix else .suffix) flags rest
  pure (isPrefix, adapters, rest)

def opsIndex : List String → Option String
  -- hsphere <hex s> <k>
  | ["hsphere", s, k] => do
    let s ← unhex s; let k ← k.toNat?
    pure (",".intercalate ((hammingSphere s k).map hex))
  -- editenv <hex t> <k>
  | ["editenv", t, k] => do
    let t ← unhex t; let k ← k.toNat?
    pure (",".intercalate ((editEnvironment t k).map (fun (s, e, m) => s!"{hex s}:{e}:{m}")))
  -- indexlookup <prefix|suffix> <indels 0|1|m<flag per adapter>> <n adapters> {<hex seq> <rateBits>}… <hex read>…   (one or more reads;
  -- results joined by " | ")
  | "indexlookup" :: kind :: ind :: n :: rest => do
    let (isPrefix, adapters, reads) ← parseIndexArgs kind ind n rest
    if reads.isEmpty then none else
    let reads ← reads.mapM unhex
    match mkIndex hashOps adapters isPrefix with
    | .error .emptyList => pure "error:empty-list"
    | .error (.notAcceptable i) => pure s!"error:not-acceptable {i}"
    | .ok idx => pure (" | ".intercalate (reads.map (fun r => showIndexMatch (indexMatchTo hashOps idx r))))
  -- indexdump <prefix|suffix> <indels 0|1|m<flags>> <n adapters> {<hex seq> <rateBits>}… [<hex key>…]
  --   → lengths, number of ambiguous keys, number of keys, then `key:adapter:e:m` (or `key:-`) for each requested key
  | "indexdump" :: kind :: ind :: n :: rest => do
    let (isPrefix, adapters, keys) ← parseIndexArgs kind ind n rest
    let keys ← keys.mapM unhex
    match mkIndex hashOps adapters isPrefix with
    | .error .emptyList => pure "error:empty-list"
    | .error (.notAcceptable i) => pure s!"error:not-acceptable {i}"
    | .ok idx =>
      let shown :=
        if keys.isEmpty then
          -- whole index, sorted by (hex) key
          (idx.index.toList.map (fun (key, (ai, e, m)) => s!"{hex key}:{ai}:{e}:{m}")).toArray.qsort (· < ·) |>.toList
        else keys.map (fun key => match hashOps.get? idx.index key with
          | none => s!"{hex key}:-"
          | some (ai, e, m) => s!"{hex key}:{ai}:{e}:{m}")
      pure s!"{idx.lengths} {idx.nAmbiguous} {idx.index.size} {",".intercalate shown}"
  | _ => none

end Driver
