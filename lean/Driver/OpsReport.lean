import Driver.Util
import Cutadapt.Report
import Cutadapt.Adapters
namespace Driver
open Cutadapt

def opsReport : List String → Option String
  | ["eranges", len, rb] => do
    let len ← len.toNat?; let rate ← floatOfBits rb
    pure (toString (Report.errorRanges (Adapters.thrOfRate rate) len))
  | _ => none
end Driver
