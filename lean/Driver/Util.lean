import Cutadapt.Basic
/-! Token helpers for the line protocol (one operation per line, space-separated tokens, byte strings in hex). -/
namespace Driver
open Cutadapt

def hexVal (c : Char) : Option Nat :=
  if '0' ≤ c ∧ c ≤ '9' then some (c.toNat - 48)
  else if 'a' ≤ c ∧ c ≤ 'f' then some (c.toNat - 87)
  else none

def unhexAux : List Char → List UInt8 → Option (List UInt8)
  | [], acc => some acc.reverse
  | a :: b :: rest, acc =>
    match hexVal a, hexVal b with
    | some x, some y => unhexAux rest ((x * 16 + y).toUInt8 :: acc)
    | _, _ => none
  | _, _ => none

/-- "-" is the empty string -/
def unhex (s : String) : Option Bytes := if s == "-" then some [] else unhexAux s.toList []

def hexDigit (n : Nat) : Char := if n < 10 then Char.ofNat (48 + n) else Char.ofNat (87 + n)
def hex (b : Bytes) : String :=
  if b.isEmpty then "-" else String.mk (b.flatMap (fun c => [hexDigit (c.toNat / 16), hexDigit (c.toNat % 16)]))

def parseInt (s : String) : Option Int := s.toInt?
def parseBool (s : String) : Option Bool := if s == "1" then some true else if s == "0" then some false else none

def floatOfBits (s : String) : Option Float := s.toNat?.map (fun n => Float.ofBits n.toUInt64)
def bitsOfFloat (f : Float) : String := toString f.toBits.toNat

end Driver
