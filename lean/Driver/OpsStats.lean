import Driver.Util
import Cutadapt.StatsMerge
import Cutadapt.Tokenizer
/-! `Statistics.__iadd__` and the per-adapter `__iadd__` methods.
    statsmerge <summary> <summary>      summary := n,bp1,bp2,written,wbp1,wbp2,q1,q2,wa1,wa2,rc;filtered;polyA1;polyA2   table := k:v|k:v|… or -
    adaptermerge <alist> <alist>        alist := adapter/adapter/… or -      adapter := rc;front-errors;front-adjacent;back-errors;back-adjacent
                                        errors table := len.err:count|…      adjacent table := hexbase:count|…  (hex "-" = no base) -/
namespace Driver
open Cutadapt

def parseTable (s : String) : Option (List (Nat × Nat)) :=
  if s == "-" then some [] else
  (s.splitOn "|").mapM fun kv =>
    match kv.splitOn ":" with
    | [k, v] => do pure (← k.toNat?, ← v.toNat?)
    | _ => none

def showTable (t : List (Nat × Nat)) : String :=
  if t.isEmpty then "-" else "|".intercalate (t.map fun (k, v) => s!"{k}:{v}")

def parseSummary (s : String) : Option Summary :=
  match s.splitOn ";" with
  | [nums, f, p1, p2] =>
    match (nums.splitOn ",").mapM String.toNat? with
    | some [n, bp1, bp2, w, wb1, wb2, q1, q2, wa1, wa2, rc] => do
      pure { n := n, bp1 := bp1, bp2 := bp2, written := w, writtenBp1 := wb1, writtenBp2 := wb2, qualTrimmed1 := q1, qualTrimmed2 := q2,
             withAdapters1 := wa1, withAdapters2 := wa2, reverseComplemented := rc,
             filteredByStep := ← parseTable f, polyA1 := ← parseTable p1, polyA2 := ← parseTable p2 }
    | _ => none
  | _ => none

def showSummary (s : Summary) : String :=
  s!"{s.n},{s.bp1},{s.bp2},{s.written},{s.writtenBp1},{s.writtenBp2},{s.qualTrimmed1},{s.qualTrimmed2},{s.withAdapters1},{s.withAdapters2},{s.reverseComplemented};" ++
  showTable s.filteredByStep ++ ";" ++ showTable s.polyA1 ++ ";" ++ showTable s.polyA2

def parseErrors (s : String) : Option (List ((Nat × Nat) × Nat)) :=
  if s == "-" then some [] else
  (s.splitOn "|").mapM fun kv =>
    match kv.splitOn ":" with
    | [k, v] =>
      match k.splitOn "." with
      | [l, e] => do pure ((← l.toNat?, ← e.toNat?), ← v.toNat?)
      | _ => none
    | _ => none

def parseAdj (s : String) : Option (List (Bytes × Nat)) :=
  if s == "-" then some [] else
  (s.splitOn "|").mapM fun kv =>
    match kv.splitOn ":" with
    | [k, v] => do pure (← unhex k, ← v.toNat?)
    | _ => none

def sortBy {α} (lt : α → α → Bool) (l : List α) : List α := (l.toArray.qsort lt).toList

def showErrors (t : List ((Nat × Nat) × Nat)) : String :=
  if t.isEmpty then "-" else
  "|".intercalate ((sortBy (fun a b => a.1.1 < b.1.1 || (a.1.1 == b.1.1 && a.1.2 < b.1.2)) t).map fun ((l, e), v) => s!"{l}.{e}:{v}")

def showAdj (t : List (Bytes × Nat)) : String :=
  if t.isEmpty then "-" else "|".intercalate ((sortBy (fun a b => hex a.1 < hex b.1) t).map fun (k, v) => s!"{hex k}:{v}")

def parseAdapterStats (s : String) : Option AdapterStats :=
  match s.splitOn ";" with
  | [rc, fe, fa, be, ba] => do
    pure { reverseComplemented := ← rc.toNat?, front := { errors := ← parseErrors fe, adjacent := ← parseAdj fa },
           back := { errors := ← parseErrors be, adjacent := ← parseAdj ba } }
  | _ => none

def showAdapter (a : AdapterStats) : String :=
  s!"{a.reverseComplemented};{showErrors a.front.errors};{showAdj a.front.adjacent};{showErrors a.back.errors};{showAdj a.back.adjacent}"

def parseAdapterStatsList (s : String) : Option (List AdapterStats) :=
  if s == "-" then some [] else (s.splitOn "/").mapM parseAdapterStats

def opsStats : List String → Option String
  | ["statsmerge", a, b] => do
    let a ← parseSummary a; let b ← parseSummary b
    pure (showSummary (a.merge b))
  | ["adaptermerge", a, b] => do
    let a ← parseAdapterStatsList a; let b ← parseAdapterStatsList b
    match mergeAdapterStats a b with
    | .error _ => pure "error:adapter-stats-length"
    | .ok l => pure (if l.isEmpty then "-" else "/".intercalate (l.map showAdapter))
  -- tokenize <hex template>  →  tokens `L<hex>` / `V<hex>` separated by blanks, or the error
  | ["tokenize", t] => do
    let t ← unhex t
    match Tokenizer.tokenizeBraces t with
    | .error .unexpectedLeft => pure "error:unexpected-left"
    | .error .unexpectedRight => pure "error:unexpected-right"
    | .ok toks =>
      pure (if toks.isEmpty then "-" else " ".intercalate (toks.map fun
        | .lit b => "L" ++ hex b
        | .var v => "V" ++ hex v.toUTF8.toList))
  | _ => none

end Driver
