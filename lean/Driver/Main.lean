import Driver.OpsQual
import Driver.OpsAlign
import Driver.OpsParser
import Driver.OpsIndex
import Driver.OpsKmer
import Driver.OpsPipeline
import Driver.OpsReport
import Driver.OpsFiles
import Driver.OpsRunner
import Driver.OpsStats
/-! Line-protocol driver: one operation per input line, one result per output line.
    Unknown or malformed operations print `bad-op` (never a default value). -/
open Driver

def handlers : List (List String → Option String) := [opsReport, opsStats, opsFiles, opsRunner, opsQual, opsAlign, opsIndex, opsKmer, opsParser]

def step (line : String) : String :=
  if line.startsWith "pipeline " then opPipeline (line.drop 9).toString else
  if line.startsWith "regroup " then opRegroup (line.drop 8).toString else
  let toks := (line.trimAscii.toString.splitOn " ").filter (· ≠ "")
  match handlers.findSome? (fun h => h toks) with
  | some r => r
  | none => "bad-op"

partial def loop (h : IO.FS.Stream) (out : IO.FS.Stream) : IO Unit := do
  let line ← h.getLine
  if line.isEmpty then return ()
  out.putStrLn (step line)
  loop h out

def main : IO Unit := do
  let out ← IO.getStdout
  loop (← IO.getStdin) out
  out.flush
