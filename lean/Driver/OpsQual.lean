import Driver.Util
import Cutadapt.Qualtrim
import Cutadapt.ExpectedErrors
namespace Driver
open Cutadapt Cutadapt.Qualtrim

def opsQual : List String → Option String
  | ["qtrim", q, cf, cb, base] => do
    let q ← unhex q; let cf ← parseInt cf; let cb ← parseInt cb; let base ← parseInt base
    let (a, b) := qualityTrimIndex q cf cb base
    pure s!"{a} {b}"
  | ["nextseq", sq, q, c, base] => do
    let sq ← unhex sq; let q ← unhex q; let c ← parseInt c; let base ← parseInt base
    if sq.length != q.length then none else
    pure s!"{nextseqTrimIndex sq q c base}"
  | ["polya", s, rc] => do
    let s ← unhex s; let rc ← parseBool rc
    pure s!"{polyATrimIndex s rc}"
  | ["nend", s] => do
    let s ← unhex s
    let (a, b) := nEndIndices s
    pure s!"{a} {b}"
  | ["ncount", s] => do
    let s ← unhex s
    pure s!"{nCountBoth s}"
  | ["ee", q, base] => do
    let q ← unhex q; let base ← base.toNat?
    if base > 255 then none else
    match Cutadapt.ExpErr.expectedErrors base.toUInt8 q with
    | none => pure "ValueError"
    | some f => pure (bitsOfFloat f)
  | _ => none

end Driver
