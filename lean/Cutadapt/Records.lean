import Cutadapt.Adapters
import Cutadapt.Index
import Cutadapt.Generated.Dnaio
/-! Reads, matches and matchables (linked adapters, `MultipleAdapters`) — model of the data that flows through the
    pipeline (`dnaio.SequenceRecord` is a library parameter: slicing acts on sequence and qualities alike,
    `reverse_complement` reverses both and complements through dnaio's table). Core Lean only. -/
namespace Cutadapt
open Cutadapt.Adapters

structure Read where
  name : Bytes
  seq : Bytes
  qual : Option Bytes
deriving Repr, BEq, DecidableEq, Inhabited

namespace Read
def len (r : Read) : Nat := r.seq.length
/-- `record[a:b]` for natural bounds -/
def sub (r : Read) (a b : Nat) : Read := { r with seq := seg r.seq a b, qual := r.qual.map (seg · a b) }
/-- `record[a:b]` with optional, possibly negative bounds -/
def slice (r : Read) (a b : Option Int) : Read := { r with seq := pySlice r.seq a b, qual := r.qual.map (pySlice · a b) }
def dropFront (r : Read) (k : Nat) : Read := { r with seq := r.seq.drop k, qual := r.qual.map (·.drop k) }
def takeFront (r : Read) (k : Nat) : Read := { r with seq := r.seq.take k, qual := r.qual.map (·.take k) }
def complement (c : UInt8) : UInt8 := Generated.complementTable.getD c.toNat c
def revcomp (r : Read) : Read :=
  { r with seq := (r.seq.map complement).reverse, qual := r.qual.map List.reverse }
end Read

/-- a `SingleMatch` together with the string it was found in (`match.sequence`) -/
structure MatchRec where
  m : SingleMatch
  sequence : Bytes
deriving Repr, BEq, DecidableEq, Inhabited

namespace MatchRec
def trimmed (r : MatchRec) (rd : Read) : Read := if r.m.before then rd.dropFront r.m.rstop else rd.takeFront r.m.rstart
def remainderInterval (r : MatchRec) : Nat × Nat := r.m.remainderInterval r.sequence.length
def retainedAdapterInterval (r : MatchRec) : Nat × Nat := r.m.retainedAdapterInterval r.sequence.length
def removedSequenceLength (r : MatchRec) : Nat := r.m.removedSequenceLength r.sequence.length
def matchSequence (r : MatchRec) : Bytes := seg r.sequence r.m.rstart r.m.rstop
/-- `RemoveBeforeMatch.rest()` / `RemoveAfterMatch.rest()` -/
def rest (r : MatchRec) : Bytes := if r.m.before then r.sequence.take r.m.rstart else r.sequence.drop r.m.rstop
/-- `RemoveAfterMatch.adjacent_base()`: `sequence[rstart-1:rstart]` (Python slice: empty when `rstart = 0`) -/
def adjacentBase (r : MatchRec) : Bytes := if r.m.rstart = 0 then [] else seg r.sequence (r.m.rstart - 1) r.m.rstart
end MatchRec

/-- a match returned by `MultipleAdapters.match_to`: of a single adapter or of a linked adapter;
    `adapter` = position of the adapter in the cutter's list (identity of `match.adapter`) -/
inductive AnyMatch where
  | single (adapter : Nat) (r : MatchRec)
  | linked (adapter : Nat) (front back : Option MatchRec)
deriving Repr, BEq, DecidableEq, Inhabited

namespace AnyMatch
def adapter : AnyMatch → Nat
  | .single a _ => a
  | .linked a _ _ => a
def score : AnyMatch → Int
  | .single _ r => r.m.score
  | .linked _ f b => (f.map (·.m.score)).getD 0 + (b.map (·.m.score)).getD 0
def errors : AnyMatch → Nat
  | .single _ r => r.m.errors
  | .linked _ f b => (f.map (·.m.errors)).getD 0 + (b.map (·.m.errors)).getD 0
def trimmed : AnyMatch → Read → Read
  | .single _ r, rd => r.trimmed rd
  | .linked _ f b, rd =>
    let rd := match f with | some fm => fm.trimmed rd | none => rd
    match b with | some bm => bm.trimmed rd | none => rd
/-- `remainder(matches)` for single matches -/
def remainderOf (ms : List MatchRec) : Nat × Nat :=
  let start := (ms.map (fun m => m.remainderInterval.1)).sum
  match ms.getLast? with
  | none => (0, 0)
  | some l => (start, start + (l.remainderInterval.2 - l.remainderInterval.1))
def remainderInterval : AnyMatch → Nat × Nat
  | .single _ r => r.remainderInterval
  | .linked _ f b => remainderOf (f.toList ++ b.toList)
/-- `retained_adapter_interval()`; for a linked match without front part the code reads `front_match.sequence` of `None`:
    not reachable for `retain` with a back-only match? It is: then `len(self.front_match.sequence)` is only evaluated when
    the back match is missing, in which case the front match exists. -/
def retainedAdapterInterval : AnyMatch → Nat × Nat
  | .single _ r => r.retainedAdapterInterval
  | .linked _ f b =>
    let (start, offset) := match f with | some fm => (fm.m.rstart, fm.m.rstop) | none => (0, 0)
    let stop := match b with
      | some bm => bm.m.rstop + offset
      | none => (f.map (·.sequence.length)).getD 0
    (start, stop)
/-- `match_sequence()` -/
def matchSequence : AnyMatch → Bytes
  | .single _ r => r.matchSequence
  | .linked _ f b => (f.map (·.matchSequence)).getD [] ++ [44] ++ (b.map (·.matchSequence)).getD []
end AnyMatch

/-- `remainder(matches)` over arbitrary matches (`adapters.py:1533`) -/
def remainder (ms : List AnyMatch) : Nat × Nat :=
  let start := (ms.map (fun m => m.remainderInterval.1)).sum
  match ms.getLast? with
  | none => (0, 0)
  | some l => (start, start + (l.remainderInterval.2 - l.remainderInterval.1))

/-- the dictionary type of the adapter index as the pipeline uses it -/
abbrev IndexDict := Std.HashMap Bytes Index.Entry

/-- what `MultipleAdapters` iterates over: single adapters, linked adapters and — unless `--no-index` is given — the
    `IndexedPrefixAdapters` / `IndexedSuffixAdapters` objects into which `AdapterCutter._regroup_into_indexed_adapters` collects the
    indexable anchored adapters. `ids`: the adapter numbers (positions in the table `namesOf` builds) of the members of the index,
    in the order of `idx.adapters`. -/
inductive Matchable where
  | single (a : Adapter)
  | linked (front back : Adapter) (frontRequired backRequired : Bool) (name : String)
  | indexed (idx : Index.AdapterIndex IndexDict) (ids : List Nat)

namespace Matchable
def name : Matchable → String
  | .single a => a.name
  | .linked _ _ _ _ n => n
  | .indexed idx _ => if idx.isPrefix then "indexed_prefix_adapters" else "indexed_suffix_adapters"

/-- is this entry an `IndexedPrefixAdapters` / `IndexedSuffixAdapters` object? -/
def isIndexed : Matchable → Bool
  | .indexed .. => true
  | _ => false

/-- names of the adapters inside an index object (adapter numbers `ids` of `.indexed`), in the order of `idx.adapters` -/
def memberNames : Matchable → List String
  | .indexed idx _ => idx.adapters.map (·.name)
  | _ => []

/-- the match object that `_make_prefix_match` / `_make_suffix_match` build, as a `SingleMatch` (`rstart` is in the read: C08) -/
def ofIndexMatch (isPrefix : Bool) (im : Index.IndexMatch) : SingleMatch :=
  ⟨im.astart, im.astop, im.rstart.toNat, im.rstop, im.score, im.errors, isPrefix⟩

/-- `match_to` of a single adapter (without k-mer prefilter, see `Adapters.matchTo`) resp. `LinkedAdapter.match_to` -/
def matchTo (idx : Nat) : Matchable → Bytes → Option AnyMatch
  | .single a, s => (Adapters.matchTo a s).map fun m => .single idx ⟨m, s⟩
  | .linked f b fr br _, s =>
    let fm := Adapters.matchTo f s
    if fr && fm.isNone then none else
    let s' := match fm with
      | some m => if m.before then s.drop m.rstop else s.take m.rstart   -- `sequence[front_match.trim_slice()]`
      | none => s
    let bm := Adapters.matchTo b s'
    if bm.isNone && (br || fm.isNone) then none
    else some (.linked idx (fm.map (⟨·, s⟩)) (bm.map (⟨·, s'⟩)))
  | .indexed ix ids, s =>
    -- `IndexedPrefixAdapters.match_to = self._index.match_to`: the match names the adapter found, not the index object
    (Index.indexMatchTo Index.hashOps ix s).map fun im => .single (ids.getD im.adapter idx) ⟨ofIndexMatch ix.isPrefix im, s⟩
end Matchable

/-- the update rule of `MultipleAdapters.match_to` -/
def better (m best : AnyMatch) : Bool :=
  m.score > best.score || (m.score == best.score && m.errors < best.errors)

def bestMatchGo (s : Bytes) : List Matchable → Nat → Option AnyMatch → Option AnyMatch
  | [], _, best => best
  | a :: as, i, best =>
    match a.matchTo i s with
    | none => bestMatchGo s as (i+1) best
    | some m =>
      match best with
      | none => bestMatchGo s as (i+1) (some m)
      | some b => bestMatchGo s as (i+1) (if better m b then some m else some b)

/-- `MultipleAdapters.match_to` -/
def bestMatch (ads : List Matchable) (s : Bytes) : Option AnyMatch := bestMatchGo s ads 0 none

end Cutadapt
