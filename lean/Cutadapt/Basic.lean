/-! Shared vocabulary of the model: bytes, segments, Python slices. Core Lean only. -/
namespace Cutadapt

abbrev Sym := UInt8
abbrev Bytes := List UInt8

/-- `seg xs a b` is the Python slice `xs[a:b]` for `0 ≤ a`, `0 ≤ b`. -/
def seg (xs : List α) (a b : Nat) : List α := (xs.take b).drop a

theorem seg_self (xs : List α) (a : Nat) : seg xs a a = [] := by
  simp [seg]

theorem seg_succ (xs : List α) (a b : Nat) (hab : a ≤ b) (hb : b < xs.length) :
    seg xs a (b+1) = seg xs a b ++ [xs[b]] := by
  unfold seg
  rw [List.take_succ_eq_append_getElem hb]
  rw [List.drop_append_of_le_length (by simp; omega)]

theorem seg_length (xs : List α) (a b : Nat) : (seg xs a b).length = min b xs.length - a := by
  simp [seg]

theorem seg_zero_length (xs : List α) : seg xs 0 xs.length = xs := by
  simp [seg]

/-- CPython's normalisation of one slice bound against a sequence of length `n` (step 1):
    `none` ↦ default, negative values count from the end, everything is clamped to `[0, n]`. -/
def normBound (n : Nat) (dflt : Nat) : Option Int → Nat
  | none => dflt
  | some i => if i < 0 then (i + n).toNat else min i.toNat n

/-- Python slice `xs[a:b]` with optional, possibly negative bounds. -/
def pySlice (xs : List α) (a b : Option Int) : List α :=
  seg xs (normBound xs.length 0 a) (normBound xs.length xs.length b)

theorem pySlice_isSeg (xs : List α) (a b : Option Int) : ∃ i j, pySlice xs a b = seg xs i j :=
  ⟨_, _, rfl⟩

def bytesOfString (s : String) : Bytes := s.toUTF8.toList
def stringOfBytes (b : Bytes) : String := String.mk (b.map (fun c => Char.ofNat c.toNat))

end Cutadapt
