import Cutadapt.Adapters
import Std.Data.HashMap
/-! Model of the adapter index: `hamming_sphere`, `edit_environment` (`src/cutadapt/_align.pyx:717-882`) and
    `AdapterIndex` / `IndexedPrefixAdapters` / `IndexedSuffixAdapters` (`src/cutadapt/adapters.py:1234-1513`).

    Python dictionaries are used by the code only through `in`, `[]`, `[]=`, `del` (and iteration over `ambiguous`,
    whose keys are kept here in a separate list), so the model is written against a small dictionary interface
    `DictOps`. Two instances: association lists (`alistOps`, kernel-reducible: `decide` examples) and `Std.HashMap`
    (`hashOps`, what the compiled driver runs). All theorems about the index are proved for *every* instance that
    satisfies the three lookup laws (`DictOps.Lawful`), which both do. Core Lean + `Std.HashMap` only. -/
namespace Cutadapt.Index
open Cutadapt Cutadapt.Adapters

/-! ### `hamming_sphere` -/

/-- the characters of `"ACGT"` in the order the loops visit them -/
def acgt : List UInt8 := [65, 67, 71, 84]

/-- `for ch in "ACGT": if s[i] == ch: continue` -/
def others (c : UInt8) : List UInt8 := acgt.filter (· != c)

/-- `k == 1`: position `i` ascending, then the replacement character -/
def sphere1 : Bytes → List Bytes
  | [] => []
  | c :: cs => (others c).map (· :: cs) ++ (sphere1 cs).map (c :: ·)

/-- `k == 2`: `i`, `ch1`, `j > i`, `ch2` -/
def sphere2 : Bytes → List Bytes
  | [] => []
  | c :: cs => (others c).flatMap (fun ch1 => (sphere1 cs).map (ch1 :: ·)) ++ (sphere2 cs).map (c :: ·)

/-- `for i in range(cnt): for pch in "ACGT" (≠ s[i]): for t in sub(s[i+1:]): yield s[:i] + pch + t` -/
def sphereFrom (sub : Bytes → List Bytes) : Nat → Bytes → List Bytes
  | 0, _ => []
  | _, [] => []
  | cnt+1, c :: cs => (others c).flatMap (fun pch => (sub cs).map (pch :: ·)) ++ (sphereFrom sub cnt cs).map (c :: ·)

/-- `hamming_sphere(s, k)` as the list of yielded strings, in generator order. The first varied position of the
    recursive case ranges over `range(n - k + 1)` (empty when `n < k`). -/
def hammingSphereK : Nat → Bytes → List Bytes
  | 0, s => [s]
  | 1, s => sphere1 s
  | 2, s => sphere2 s
  | k+3, s => sphereFrom (hammingSphereK (k+2)) (s.length + 1 - (k+3)) s

def hammingSphere (s : Bytes) (k : Nat) : List Bytes := hammingSphereK k s

/-! ### `edit_environment` -/

/-- one cell of the two C matrices `costs` / `matches` -/
structure Cell where
  cost : Nat
  nmatch : Nat
deriving Repr, BEq, DecidableEq, Inhabited

/-- `memset(costs, k+1, …)` writes the *byte* `k+1` everywhere: a cell that is never assigned reads as the `int`
    `0x01010101 · (k+1)` (faithful for `k ≤ 126`; the index uses `k ≤ 3`) -/
def sentinel (k : Nat) : Nat := 16843009 * (k + 1)

/-- `bytes.maketrans(b"ACGTacgt", b"\0\1\2\3\0\1\2\3")` -/
def encT (c : UInt8) : UInt8 :=
  if c == 65 || c == 97 then 0 else if c == 67 || c == 99 then 1
  else if c == 71 || c == 103 then 2 else if c == 84 || c == 116 then 3 else c

/-- the four children of a trie node: code written to `s[i]` and the letter `trans` turns it into -/
def letters : List (UInt8 × UInt8) := [(0, 65), (1, 67), (2, 71), (3, 84)]

/-- the body of the `for j` loop (`mismatch` is the C variable `match`) -/
def stepCell (mismatch : Nat) (diag left up : Cell) : Cell :=
  let d := diag.cost + mismatch
  let l := left.cost + 1
  let u := up.cost + 1
  if d ≤ l ∧ d ≤ u then ⟨d, diag.nmatch + (1 - mismatch)⟩
  else if l ≤ u then ⟨l, left.nmatch⟩
  else ⟨u, up.nmatch⟩

/-- `j ∈ range(max(1, i - k), min(n + 1, i + k + 1))` for `1 ≤ j ≤ n` -/
def inBand (k i j : Nat) : Bool := decide (i ≤ j + k) && decide (j ≤ i + k)

/-- cells `j, j+1, …` of row `i`; `prev` is row `i-1` from column `j-1` on. Cells outside the band are never written by
    the code and read as the sentinel (cost) and 0 (matches). -/
def fillRow (k i : Nat) (code : UInt8) : Nat → Cell → List UInt8 → List Cell → List Cell
  | j, left, tj :: ts, diag :: up :: rest =>
    let c := if inBand k i j then stepCell (if encT tj == code then 0 else 1) diag left up else ⟨sentinel k, 0⟩
    c :: fillRow k i code (j+1) c ts (up :: rest)
  | _, _, _, _ => []

/-- row `i ≥ 1` of the matrices for a string whose last character has code `code`; column 0 holds `i` -/
def nextRow (k i : Nat) (code : UInt8) (t : List UInt8) (prev : List Cell) : List Cell :=
  let c0 : Cell := ⟨i, 0⟩
  c0 :: fillRow k i code 1 c0 t prev

/-- row 0: `costs[j] = j` -/
def row0 (n : Nat) : List Cell := (List.range (n + 1)).map (fun j => ⟨j, 0⟩)

/-- `min_cost` of row `i ≥ 1`: minimum over the cells the loop wrote (columns `j ≥ 1` inside the band),
    starting from `999999999` -/
def rowMinFrom (k i : Nat) : Nat → List Cell → Nat → Nat
  | _, [], m => m
  | j, c :: cs, m => rowMinFrom k i (j+1) cs (if inBand k i j then min m c.cost else m)
def rowMin (k i : Nat) (row : List Cell) : Nat := rowMinFrom k i 1 row.tail 999999999

/-- One trie node (`while True` iteration): yield if `costs[i][n] ≤ k`, then descend into the four children when
    `min_cost ≤ k and i < n + k` (`fuel = n + k - i`). Pre-order, children in the order A, C, G, T — the order in which
    the iterative code visits the strings. -/
def envNode (t : List UInt8) (k : Nat) : Nat → Nat → Bytes → List Cell → Nat → List (Bytes × Nat × Nat)
  | fuel, i, sRev, row, minCost =>
    let last := row.getD t.length ⟨0, 0⟩
    let here := if last.cost ≤ k then [(sRev.reverse, last.cost, last.nmatch)] else []
    match fuel with
    | 0 => here
    | fuel+1 =>
      if minCost ≤ k then
        here ++ letters.flatMap (fun (cl : UInt8 × UInt8) =>
          let row' := nextRow k (i+1) cl.1 t row
          envNode t k fuel (i+1) (cl.2 :: sRev) row' (rowMin k (i+1) row'))
      else here

/-- `edit_environment(t, k)`: the yielded `(s, errors, matches)` in generator order -/
def editEnvironment (t : Bytes) (k : Nat) : List (Bytes × Nat × Nat) :=
  envNode t k (t.length + k) 0 [] (row0 t.length) 0

/-! ### Dictionaries -/

/-- `(adapter (position in the given list), errors, matches)` — a value of `AdapterIndexDict` -/
abbrev Entry := Nat × Nat × Nat

structure DictOps (D : Type) where
  empty : D
  get? : D → Bytes → Option Entry
  insert : D → Bytes → Entry → D
  erase : D → Bytes → D

/-- the three lookup laws of a dictionary -/
structure DictOps.Lawful {D : Type} (ops : DictOps D) : Prop where
  get?_empty : ∀ k, ops.get? ops.empty k = none
  get?_insert : ∀ d k v k', ops.get? (ops.insert d k v) k' = if k = k' then some v else ops.get? d k'
  get?_erase : ∀ d k k', ops.get? (ops.erase d k) k' = if k = k' then none else ops.get? d k'

def alistGet : List (Bytes × Entry) → Bytes → Option Entry
  | [], _ => none
  | (k, v) :: rest, k' => if k = k' then some v else alistGet rest k'
/-- overwrite in place when the key is present (a Python `dict` keeps the position), append otherwise -/
def alistInsert : List (Bytes × Entry) → Bytes → Entry → List (Bytes × Entry)
  | [], k, v => [(k, v)]
  | (k0, v0) :: rest, k, v => if k0 = k then (k0, v) :: rest else (k0, v0) :: alistInsert rest k v
def alistErase : List (Bytes × Entry) → Bytes → List (Bytes × Entry)
  | [], _ => []
  | (k0, v0) :: rest, k => if k0 = k then alistErase rest k else (k0, v0) :: alistErase rest k

def alistOps : DictOps (List (Bytes × Entry)) := ⟨[], alistGet, alistInsert, alistErase⟩

def hashOps : DictOps (Std.HashMap Bytes Entry) :=
  ⟨Std.HashMap.emptyWithCapacity 1024, fun d k => d[k]?, fun d k v => d.insert k v, fun d k => d.erase k⟩

/-! ### `AdapterIndex._make_index` -/

/-- the loop state of `_make_index`: `index`, `lengths` (a set), `ambiguous` (membership: `ambSet`; its keys, without
    repetition: `ambKeys` — only their number and the final deletions depend on them, not their order) -/
structure Build (D : Type) where
  index : D
  lengths : List Nat
  ambSet : D
  ambKeys : List Bytes

def setAdd (l : List Nat) (x : Nat) : List Nat := if l.contains x then l else x :: l

/-- the body shared by the two inner loops. `addLen`: the indel branch does `lengths.add(len(s))` after the
    assignment (skipped by `continue`); the Hamming branch adds `n` once, after its loops.
    `elif matches > other_matches: ambiguous.pop(s, None)`: a strictly better entry clears the mark. -/
def addEntry {D : Type} (ops : DictOps D) (ai : Nat) (addLen : Bool) (st : Build D) (item : Bytes × Nat × Nat) : Build D :=
  let (s, errors, mt) := item
  let put (st : Build D) : Build D :=
    { st with index := ops.insert st.index s (ai, errors, mt),
              lengths := if addLen then setAdd st.lengths s.length else st.lengths }
  match ops.get? st.index s with
  | some (_, _, otherMatches) =>
    if mt < otherMatches then st
    else if otherMatches == mt && (ops.get? st.ambSet s).isNone then
      put { st with ambSet := ops.insert st.ambSet s (ai, errors, mt), ambKeys := s :: st.ambKeys }
    else if otherMatches < mt then
      put { st with ambSet := ops.erase st.ambSet s, ambKeys := st.ambKeys.filter (· != s) }
    else put st
  | none => put st

/-- `k = int(adapter.max_error_rate * len(sequence))` -/
def adapterK (a : Adapter) : Nat := a.thr a.seq.length

/-- the `(s, errors, matches)` one adapter contributes, in the order the loops produce them -/
def adapterItems (a : Adapter) : List (Bytes × Nat × Nat) :=
  if a.indels then editEnvironment a.seq (adapterK a)
  else (List.range (adapterK a + 1)).flatMap (fun e => (hammingSphere a.seq e).map (fun s => (s, e, a.seq.length - e)))

def addAdapter {D : Type} (ops : DictOps D) (st : Build D) (aia : Adapter × Nat) : Build D :=
  let (a, ai) := aia
  let st := (adapterItems a).foldl (addEntry ops ai a.indels) st
  if a.indels then st else { st with lengths := setAdd st.lengths a.seq.length }

def insertDesc (x : Nat) : List Nat → List Nat
  | [] => [x]
  | y :: ys => if y ≤ x then x :: y :: ys else y :: insertDesc x ys
/-- `sorted(lengths, reverse=True)` -/
def sortDesc (l : List Nat) : List Nat := l.foldr insertDesc []

def buildAll {D : Type} (ops : DictOps D) (adapters : List Adapter) : Build D :=
  adapters.zipIdx.foldl (addAdapter ops) ⟨ops.empty, [], ops.empty, []⟩

structure AdapterIndex (D : Type) where
  adapters : List Adapter
  isPrefix : Bool
  lengths : List Nat        -- descending
  index : D
  nAmbiguous : Nat

/-- `_make_index`: the fold, then `for s in ambiguous: del index[s]` -/
def makeIndex {D : Type} (ops : DictOps D) (adapters : List Adapter) (isPrefix : Bool) : AdapterIndex D :=
  let st := buildAll ops adapters
  { adapters := adapters, isPrefix := isPrefix, lengths := sortDesc st.lengths,
    index := st.ambKeys.reverse.foldl ops.erase st.index, nAmbiguous := st.ambKeys.length }

/-- `_accept` does not raise -/
def accept (a : Adapter) (isPrefix : Bool) : Bool :=
  (if isPrefix then a.ty == .prefix else a.ty == .suffix) &&
  !a.readWildcards && !a.adapterWildcards && decide (adapterK a ≤ 3)

inductive IndexErr where | emptyList | notAcceptable (i : Nat)
deriving Repr, BEq, DecidableEq

/-- `AdapterIndex.__init__` -/
def mkIndex {D : Type} (ops : DictOps D) (adapters : List Adapter) (isPrefix : Bool) : Except IndexErr (AdapterIndex D) :=
  if adapters.isEmpty then .error .emptyList else
  match adapters.zipIdx.find? (fun ai => !accept ai.1 isPrefix) with
  | some (_, i) => .error (.notAcceptable i)
  | none => .ok (makeIndex ops adapters isPrefix)

/-! ### Lookup -/

/-- a `RemoveBeforeMatch` / `RemoveAfterMatch` built by `_make_prefix_match` / `_make_suffix_match`.
    `rstart` is an `Int`: `len(sequence) - length` is not clamped by the code. -/
structure IndexMatch where
  adapter : Nat        -- position of the adapter in the given list
  astart : Nat
  astop : Nat
  rstart : Int
  rstop : Nat
  score : Int
  errors : Nat
deriving Repr, BEq, DecidableEq, Inhabited

instance : Inhabited Adapter := ⟨{ ty := .prefix, seq := [], thr := fun _ => 0, minOverlap := 0, readWildcards := false, adapterWildcards := false, indels := false }⟩

/-- `_make_prefix(s, n) = s[:n]`, `_make_suffix(s, n) = s[-n:]` (`s[-0:]` is all of `s`; so is `s[-n:]` for `n > len(s)`) -/
def makeAffix (isPrefix : Bool) (s : Bytes) (n : Nat) : Bytes :=
  if isPrefix then pySlice s none (some (n : Int)) else pySlice s (some (-(n : Int))) none

def makeMatch {D : Type} (idx : AdapterIndex D) (ai length : Nat) (score : Int) (errors : Nat) (sequence : Bytes) : IndexMatch :=
  let alen := (idx.adapters.getD ai default).seq.length
  if idx.isPrefix then ⟨ai, 0, alen, 0, length, score, errors⟩
  else ⟨ai, 0, alen, (sequence.length : Int) - (length : Int), sequence.length, score, errors⟩

/-- `_lookup_with_n`: look up with `N → A`, then re-align with the adapter's own `match_to` (k-mer prefilter not
    modelled here, see `Adapters.matchTo`); returns `(adapter, match.errors, match.score, match.rstop - match.rstart)` -/
def lookupWithN {D : Type} (ops : DictOps D) (idx : AdapterIndex D) (affix : Bytes) : Option (Nat × Nat × Int × Nat) :=
  match ops.get? idx.index (affix.map (fun c => if c == 78 then 65 else c)) with
  | none => none
  | some (ai, _, _) =>
    match matchTo (idx.adapters.getD ai default) affix with
    | none => none
    | some mt => some (ai, mt.errors, mt.score, mt.rstop - mt.rstart)

/-- the `if "N" in affix: … else: …` block for an affix looked up at `length`: `(adapter, e, m, match_length)` or
    nothing; without `N` the match length is the looked-up length -/
def lookupAffix {D : Type} (ops : DictOps D) (idx : AdapterIndex D) (affix : Bytes) (length : Nat) : Option (Nat × Nat × Int × Nat) :=
  if affix.contains 78 then lookupWithN ops idx affix
  else match ops.get? idx.index affix with
    | none => none
    | some (ai, e, m) => some (ai, e, (m : Int), length)

/-- `_match_to_one_length` (`self._length = self._lengths[0]`) -/
def matchToOneLength {D : Type} (ops : DictOps D) (idx : AdapterIndex D) (sequence : Bytes) : Option IndexMatch :=
  let length := idx.lengths.headD 0
  let affix := makeAffix idx.isPrefix (sequence.map asciiUpper) length
  match lookupAffix ops idx affix length with
  | none => none
  | some (ai, e, m, matchLength) => some (makeMatch idx ai matchLength m e sequence)

structure BestSoFar where
  adapter : Nat := 0
  length : Nat := 0
  m : Int := -1
  e : Nat := 1000
deriving Repr, BEq, DecidableEq

/-- the `for length in self._lengths` loop; `affix` is re-sliced from the previous (longer) affix as in the code;
    `n = len(sequence)`: lengths that exceed the read are skipped (the affix is left alone) -/
def multiLoop {D : Type} (ops : DictOps D) (idx : AdapterIndex D) (n : Nat) : List Nat → Bytes → BestSoFar → BestSoFar
  | [], _, best => best
  | length :: rest, affix, best =>
    if (length : Int) < best.m then best
    else if length > n then multiLoop ops idx n rest affix best
    else
      let affix := makeAffix idx.isPrefix affix length
      match lookupAffix ops idx affix length with
      | none => multiLoop ops idx n rest affix best
      | some (ai, e, m, matchLength) =>
        if m > best.m ∨ (m = best.m ∧ e < best.e) then multiLoop ops idx n rest affix ⟨ai, matchLength, m, e⟩
        else multiLoop ops idx n rest affix best

/-- `_match_to_multiple_lengths` -/
def matchToMultipleLengths {D : Type} (ops : DictOps D) (idx : AdapterIndex D) (sequence : Bytes) : Option IndexMatch :=
  let best := multiLoop ops idx sequence.length idx.lengths (sequence.map asciiUpper) {}
  if best.m = -1 then none else some (makeMatch idx best.adapter best.length best.m best.e sequence)

/-- `self.match_to`, bound in `__init__` according to `len(self._lengths) == 1` -/
def indexMatchTo {D : Type} (ops : DictOps D) (idx : AdapterIndex D) (sequence : Bytes) : Option IndexMatch :=
  if idx.lengths.length == 1 then matchToOneLength ops idx sequence else matchToMultipleLengths ops idx sequence

end Cutadapt.Index
