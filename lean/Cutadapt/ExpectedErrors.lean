import Cutadapt.Basic
import Cutadapt.Generated.Phred
/-! Model of `expected_errors_from_phreds` (`src/cutadapt/expected_errors.h`) and `qualtrim.expected_errors`.
    The accumulation is generic in the number type so that the same definition runs on `Float` (driver, bit-exact
    with the C code) and is reasoned about over exact numbers (C14). Core Lean only. -/
namespace Cutadapt.ExpErr
open Cutadapt Cutadapt.Generated

/-- `phred = c - base` in `uint8_t` arithmetic; invalid if `phred > 126 - base` (also `uint8_t`) -/
def phredOf (base c : UInt8) : Option Nat :=
  let p := c - base
  if p > 126 - base then none else some p.toNat

/-- all phreds, or `none` if the C function returns `-1.0` -/
def phreds (base : UInt8) (quals : Bytes) : Option (List Nat) := quals.mapM (phredOf base)

/-- the 4-way unrolled loop followed by the tail loop and the final `e0 + e1 + e2 + e3` -/
def accumulate [Add α] : (a0 a1 a2 a3 : α) → List α → α
  | a0, a1, a2, a3, x0 :: x1 :: x2 :: x3 :: rest => accumulate (a0 + x0) (a1 + x1) (a2 + x2) (a3 + x3) rest
  | a0, a1, a2, a3, rest => rest.foldl (· + ·) a0 + a1 + a2 + a3

def expectedErrorsG [Add α] (zero : α) (tbl : Nat → α) (base : UInt8) (quals : Bytes) : Option α :=
  (phreds base quals).map (fun ps => accumulate zero zero zero zero (ps.map tbl))

/-- `SCORE_TO_ERROR_RATE[p]` as a double -/
def tblFloat (p : Nat) : Float := Float.ofBits (phredBits.getD p 0)

/-- `expected_errors(qualities, base)`; `none` = `ValueError` -/
def expectedErrors (base : UInt8) (quals : Bytes) : Option Float := expectedErrorsG 0.0 tblFloat base quals

end Cutadapt.ExpErr
