/-! GENERATED from report.py / predicates.py / steps.py by gen/gen_filters.py — do not edit. -/
namespace Cutadapt.Generated

/-- keys of `report.FILTERS` (the categories that the text, minimal and JSON reports print) -/
def filtersKeys : List String := ["too_short", "too_long", "too_many_n", "too_many_expected_errors", "too_high_average_error_rate", "casava_filtered", "discard_trimmed", "discard_untrimmed"]

/-- `descriptive_identifier()` of every predicate class -/
def predicateIdents : List (String × String) := [("CasavaFiltered", "casava_filtered"), ("IsTrimmed", "discard_trimmed"), ("IsUntrimmed", "discard_untrimmed"), ("TooHighAverageErrorRate", "too_high_average_error_rate"), ("TooLong", "too_long"), ("TooManyExpectedErrors", "too_many_expected_errors"), ("TooManyN", "too_many_n"), ("TooShort", "too_short")]

/-- `descriptive_identifier()` of the demultiplexer steps that count discarded reads -/
def stepIdents : List (String × String) := [("Demultiplexer", "discard_untrimmed"), ("PairedDemultiplexer", "discard_untrimmed"), ("CombinatorialDemultiplexer", "discard_untrimmed")]

end Cutadapt.Generated
