/-! GENERATED from /repo's working tree by gen/gen_tolerance.py — do not edit.
    (k, n, largest number of substitutions in a full-length occurrence that is still trimmed with `-e k` on an adapter of n bases:
    one anchored adapter without index, through the adapter index (`none`: not observed, the index would be large), regular 3' adapter behind
    the k-mer prefilter); 97 = nothing trimmed, 98 = the run failed, 99 = not downward closed -/
namespace Cutadapt.Generated

def toleranceRows : List (Nat × Nat × Nat × Option Nat × Nat) := [
  (1, 49, 0, some 0, 0),
  (2, 49, 1, some 1, 1),
  (3, 47, 2, none, 2),
  (4, 49, 3, none, 3),
  (1, 48, 1, some 1, 1),
  (2, 50, 2, some 2, 2),
  (1, 10, 1, some 1, 1),
  (2, 20, 2, some 2, 2),
  (3, 30, 3, none, 3),
  (1, 47, 1, some 1, 1)
]

end Cutadapt.Generated
