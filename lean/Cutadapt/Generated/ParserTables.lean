/-! GENERATED from parser.py / adapters.py by gen/gen_parsertables.py — do not edit. -/
namespace Cutadapt.Generated

/-- `allowed_parameters`: accepted parameter name ↦ the canonical name it is un-abbreviated to -/
def allowedParameters : List (String × String) := [("e", "max_errors"), ("error_rate", "max_errors"), ("max_error_rate", "max_errors"), ("o", "min_overlap"), ("max_errors", "max_errors"), ("min_overlap", "min_overlap"), ("anywhere", "anywhere"), ("required", "required"), ("optional", "optional"), ("indels", "indels"), ("noindels", "noindels"), ("rightmost", "rightmost")]

/-- largest repeat count accepted inside braces by `expand_braces` -/
def braceLimit : Nat := 10000

/-- characters accepted in an adapter sequence when adapter wildcards are on -/
def iupacAlphabet : String := "ABCDGHKMNRSTUVWXY"

end Cutadapt.Generated
