/-! GENERATED from /repo's working tree by gen/gen_demux.py — do not edit.
    Demultiplexing as observed on the real command-line program. `demuxLists`: the adapter lists (name, sequence id) given with `-a`;
    `demuxSingle`: (list number, "plain" | "discard" (--discard-untrimmed) | "untrimmed" (--untrimmed-output), files existing after the run — each given
    by the text that stands in the place of `{name}`, the untrimmed file as `<untrimmed>` —,
    [(probe read, files holding it)]) — probe p1/p2/p3 ends in sequence S1/S2/S3, p0 carries no adapter;
    `demuxComb`: `{name1}-{name2}` with R1 adapters a=S1, b=S2 and R2 adapters x=S3, y=S1; pairs q11 (S1, S3), q12 (S1, S1), q20 (S2, none),
    q01 (none, S3), q00 (none, none). -/
namespace Cutadapt.Generated

def demuxLists : List (List (String × String)) := [[("a", "S1"), ("b", "S2")], [("a", "S1"), ("b", "S1")], [("a", "S1"), ("a", "S2")], [("a", "S1"), ("b", "S2"), ("c", "S3")], [("only", "S2")]]

def demuxSingle : List (Nat × String × List String × List (String × List String)) := [
  (0, "plain", ["a", "b", "unknown"], [("p1", ["a"]), ("p2", ["b"]), ("p3", ["unknown"]), ("p0", ["unknown"])]),
  (0, "discard", ["a", "b"], [("p1", ["a"]), ("p2", ["b"]), ("p3", []), ("p0", [])]),
  (0, "untrimmed", ["a", "b", "<untrimmed>"], [("p1", ["a"]), ("p2", ["b"]), ("p3", ["<untrimmed>"]), ("p0", ["<untrimmed>"])]),
  (1, "plain", ["a", "b", "unknown"], [("p1", ["a"]), ("p2", ["unknown"]), ("p3", ["unknown"]), ("p0", ["unknown"])]),
  (1, "discard", ["a", "b"], [("p1", ["a"]), ("p2", []), ("p3", []), ("p0", [])]),
  (1, "untrimmed", ["a", "b", "<untrimmed>"], [("p1", ["a"]), ("p2", ["<untrimmed>"]), ("p3", ["<untrimmed>"]), ("p0", ["<untrimmed>"])]),
  (2, "plain", ["a", "unknown"], [("p1", ["a"]), ("p2", ["a"]), ("p3", ["unknown"]), ("p0", ["unknown"])]),
  (2, "discard", ["a"], [("p1", ["a"]), ("p2", ["a"]), ("p3", []), ("p0", [])]),
  (2, "untrimmed", ["a", "<untrimmed>"], [("p1", ["a"]), ("p2", ["a"]), ("p3", ["<untrimmed>"]), ("p0", ["<untrimmed>"])]),
  (3, "plain", ["a", "b", "c", "unknown"], [("p1", ["a"]), ("p2", ["b"]), ("p3", ["c"]), ("p0", ["unknown"])]),
  (3, "discard", ["a", "b", "c"], [("p1", ["a"]), ("p2", ["b"]), ("p3", ["c"]), ("p0", [])]),
  (3, "untrimmed", ["a", "b", "c", "<untrimmed>"], [("p1", ["a"]), ("p2", ["b"]), ("p3", ["c"]), ("p0", ["<untrimmed>"])]),
  (4, "plain", ["only", "unknown"], [("p1", ["unknown"]), ("p2", ["only"]), ("p3", ["unknown"]), ("p0", ["unknown"])]),
  (4, "discard", ["only"], [("p1", []), ("p2", ["only"]), ("p3", []), ("p0", [])]),
  (4, "untrimmed", ["only", "<untrimmed>"], [("p1", ["<untrimmed>"]), ("p2", ["only"]), ("p3", ["<untrimmed>"]), ("p0", ["<untrimmed>"])])
]

def demuxComb : List (String × List String × List (String × List String)) := [
  ("plain", ["a-unknown.1", "a-unknown.2", "a-x.1", "a-x.2", "a-y.1", "a-y.2", "b-unknown.1", "b-unknown.2", "b-x.1", "b-x.2", "b-y.1", "b-y.2", "unknown-unknown.1", "unknown-unknown.2", "unknown-x.1", "unknown-x.2", "unknown-y.1", "unknown-y.2"], [("q11", ["a-x.1", "a-x.2"]), ("q12", ["a-y.1", "a-y.2"]), ("q20", ["b-unknown.1", "b-unknown.2"]), ("q01", ["unknown-x.1", "unknown-x.2"]), ("q00", ["unknown-unknown.1", "unknown-unknown.2"])]),
  ("discard", ["a-x.1", "a-x.2", "a-y.1", "a-y.2", "b-x.1", "b-x.2", "b-y.1", "b-y.2"], [("q11", ["a-x.1", "a-x.2"]), ("q12", ["a-y.1", "a-y.2"]), ("q20", []), ("q01", []), ("q00", [])])
]

/-- paired-end `{name}` with adapters for R2 only (x=S3, y=S1), the same probe pairs -/
def demuxR2Only : List (String × List String × List (String × List String)) := [
  ("plain", ["unknown.1", "unknown.2"], [("q11", ["unknown.1", "unknown.2"]), ("q12", ["unknown.1", "unknown.2"]), ("q20", ["unknown.1", "unknown.2"]), ("q01", ["unknown.1", "unknown.2"]), ("q00", ["unknown.1", "unknown.2"])]),
  ("discard", [], [("q11", []), ("q12", []), ("q20", []), ("q01", []), ("q00", [])])
]

end Cutadapt.Generated
