/-! GENERATED from /repo's working tree by gen/gen_stageorder.py — do not edit.
    Class names of `pipeline._modifiers` / `pipeline._steps` as assembled by the real `make_pipeline_from_args` for
    command lines enabling every read-modifying option resp. every filtering step. -/
namespace Cutadapt.Generated

/-- `-u 1 -u -1 --nextseq-trim 10 -q 10,10 -a A=ACGT --poly-a -l 10 --trim-n --length-tag length= --strip-suffix x -x P --zero-cap` -/
def stageOrderSingle : List String := ["UnconditionalCutter", "UnconditionalCutter", "NextseqQualityTrimmer", "QualityTrimmer", "AdapterCutter", "PolyATrimmer", "Shortener", "NEndTrimmer", "LengthTagModifier", "SuffixRemover", "PrefixSuffixAdder", "ZeroCapper"]

/-- the same with `--rename '{id} x'` instead of `-x P` -/
def stageOrderSingleRename : List String := ["UnconditionalCutter", "UnconditionalCutter", "NextseqQualityTrimmer", "QualityTrimmer", "AdapterCutter", "PolyATrimmer", "Shortener", "NEndTrimmer", "LengthTagModifier", "SuffixRemover", "ZeroCapper", "Renamer"]

/-- paired-end: additionally `-U 2 -U -2 -Q 5,5 -A B=TTTT -L 8 -p …`; (class of the R1 modifier, class of the R2 modifier) -/
def stageOrderPaired : List (String × String) := [("UnconditionalCutter", "None"), ("UnconditionalCutter", "None"), ("None", "UnconditionalCutter"), ("None", "UnconditionalCutter"), ("NextseqQualityTrimmer", "NextseqQualityTrimmer"), ("QualityTrimmer", "QualityTrimmer"), ("AdapterCutter", "AdapterCutter"), ("PolyATrimmer", "PolyATrimmer"), ("Shortener", "Shortener"), ("NEndTrimmer", "NEndTrimmer"), ("LengthTagModifier", "LengthTagModifier"), ("SuffixRemover", "SuffixRemover"), ("PrefixSuffixAdder", "PrefixSuffixAdder"), ("ZeroCapper", "ZeroCapper")]

def stageOrderPairedRename : List (String × String) := [("UnconditionalCutter", "None"), ("UnconditionalCutter", "None"), ("None", "UnconditionalCutter"), ("None", "UnconditionalCutter"), ("NextseqQualityTrimmer", "NextseqQualityTrimmer"), ("QualityTrimmer", "QualityTrimmer"), ("AdapterCutter", "AdapterCutter"), ("PolyATrimmer", "PolyATrimmer"), ("Shortener", "Shortener"), ("NEndTrimmer", "NEndTrimmer"), ("LengthTagModifier", "LengthTagModifier"), ("SuffixRemover", "SuffixRemover"), ("ZeroCapper", "ZeroCapper"), ("PairedEndRenamer", "PairedEndRenamer")]

/-- `--info-file info --rest-file rest --wildcard-file wild -m 1 -M 100 --max-n 1 --max-ee 1 --max-aer 0.5 --discard-casava --discard-untrimmed -a A=ACGT` -/
def stepOrderSingle : List String := ["RestFileWriter", "InfoFileWriter", "WildcardFileWriter", "too_short", "too_long", "too_many_n", "too_many_expected_errors", "too_high_average_error_rate", "casava_filtered", "discard_untrimmed", "SingleEndSink"]

def stepOrderPaired : List String := ["RestFileWriter", "InfoFileWriter", "WildcardFileWriter", "too_short", "too_long", "too_many_n", "too_many_expected_errors", "too_high_average_error_rate", "casava_filtered", "discard_untrimmed", "PairedEndSink"]

/-- unconditional cuts: (`-u` values as given (paired: also given as `-U`), cuts applied single-end, paired-end to R1, to R2), each
    observed from what the assembled modifiers remove from a probe read, in pipeline order -/
def cutOrder : List (List Int × List Int × List Int × List Int) := [([(-3), 5], [(-3), 5], [(-3), 5], [(-3), 5]), ([5, (-3)], [5, (-3)], [5, (-3)], [5, (-3)]), ([4], [4], [4], [4]), ([(-2)], [(-2)], [(-2)], [(-2)]), ([0, 4], [4], [4], [4]), ([(-2), 0], [(-2)], [(-2)], [(-2)]), ([0], [], [], []), ([7, (-1)], [7, (-1)], [7, (-1)], [7, (-1)]), ([(-1), 7], [(-1), 7], [(-1), 7], [(-1), 7])]

end Cutadapt.Generated
