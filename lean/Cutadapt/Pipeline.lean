import Cutadapt.Modifiers
import Cutadapt.ExpectedErrors
/-! Model of `predicates.py`, `steps.py`, `pipeline.py` and of the pipeline assembly in `cli.py`
    (`make_pipeline_from_args` and helpers). A run is a fold over the reads producing an event log. Core Lean only. -/
namespace Cutadapt
open Cutadapt.Adapters Cutadapt.Qualtrim

/-! ## Predicates (`predicates.py`) -/

inductive Pred where
  | tooShort (n : Int)
  | tooLong (n : Int)
  | tooManyN (cutoff : Float)
  | maxEE (maxErrors : Float)
  | maxAER (rate : Float)
  | casava
  | isUntrimmed
  | isTrimmed
deriving Inhabited

def Pred.ident : Pred → String
  | .tooShort _ => "too_short" | .tooLong _ => "too_long" | .tooManyN _ => "too_many_n"
  | .maxEE _ => "too_many_expected_errors" | .maxAER _ => "too_high_average_error_rate"
  | .casava => "casava_filtered" | .isUntrimmed => "discard_untrimmed" | .isTrimmed => "discard_trimmed"

/-- `read.name.partition(" ")[2][1:4] == ":Y:"` -/
def casavaFiltered (name : Bytes) : Bool :=
  let right := (name.dropWhile (· != 32)).drop 1
  seg right 1 4 == [58, 89, 58]

/-- `Predicate.test(read, info)`; `none` = exception (expected errors of an invalid / missing quality string) -/
def Pred.test (p : Pred) (read : Read) (info : Info) : Except Err Bool :=
  match p with
  | .tooShort n => .ok ((read.len : Int) < n)
  | .tooLong n => .ok ((read.len : Int) > n)
  | .tooManyN cutoff =>
    let nc := nCountBoth read.seq
    if cutoff < 1.0 then
      if read.len == 0 then .ok false else .ok (Float.ofNat nc / Float.ofNat read.len > cutoff)
    else .ok (Float.ofNat nc > cutoff)
  | .maxEE e =>
    match read.qual with
    | none => .error .value
    | some q => match ExpErr.expectedErrors 33 q with
      | none => .error .value
      | some v => .ok (v > e)
  | .maxAER r =>
    if read.len == 0 then .ok false else
    match read.qual with
    | none => .error .value
    | some q => match ExpErr.expectedErrors 33 q with
      | none => .error .value
      | some v => .ok (v / Float.ofNat read.len > r)
  | .casava => .ok (casavaFiltered read.name)
  | .isUntrimmed => .ok info.mts.isEmpty
  | .isTrimmed => .ok (!info.mts.isEmpty)

/-! ## Paired-end modifiers -/

/-- dnaio's `record_names_match(header1, header2)`: the ids (up to the first space or tab) must be equal, where a final `1`, `2` or
    `3` on both is ignored (`/1`, `/2`, `.1`, `.2` … of old paired-end naming schemes) -/
def recordId (name : Bytes) : Bytes := name.takeWhile (fun c => c != 32 && c != 9)
def isMateDigit (c : UInt8) : Bool := c == 49 || c == 50 || c == 51
def recordNamesMatch (n1 n2 : Bytes) : Bool :=
  let a := recordId n1
  let b := recordId n2
  if a.length != b.length then false else
  match a.getLast?, b.getLast? with
  | some x, some y => if isMateDigit x && isMateDigit y then a.dropLast == b.dropLast else a == b
  | _, _ => a == b

/-- the per-read dictionary `PairedEndRenamer._rename` builds (`id` and `rn` are added per output name) -/
structure RenameFields where
  id : Bytes
  comment : Bytes
  header : Bytes
  cutPrefix : Bytes
  cutSuffix : Bytes
  adapterName : Bytes
  matchSequence : Bytes

def renameFields (names : List String) (read : Read) (info : Info) : RenameFields :=
  { id := (parseName read.name).1, comment := (parseName read.name).2, header := read.name,
    cutPrefix := info.cutPrefix.getD [], cutSuffix := info.cutSuffix.getD [],
    adapterName := lastAdapterName names info, matchSequence := (info.mts.getLast?.map AnyMatch.matchSequence).getD [] }

/-- `self._template.format(id=…, rn=…, **own, r1=SimpleNamespace(**d[0]), r2=SimpleNamespace(**d[1]))`, one token:
    plain placeholders take the fields of the read being named, `{rn}` is 1 or 2, `{r1.x}` / `{r2.x}` always take R1's / R2's field -/
def renderPairedTok (rn : Nat) (own r1 r2 : RenameFields) : Tok → Except Err Bytes
  | .lit s => .ok s
  | .var "id" => .ok own.id
  | .var "rn" => .ok (natToBytes rn)
  | .var "comment" => .ok own.comment
  | .var "header" => .ok own.header
  | .var "cut_prefix" => .ok own.cutPrefix
  | .var "cut_suffix" => .ok own.cutSuffix
  | .var "adapter_name" => .ok own.adapterName
  | .var "match_sequence" => .ok own.matchSequence
  | .var "r1.comment" => .ok r1.comment
  | .var "r1.header" => .ok r1.header
  | .var "r1.cut_prefix" => .ok r1.cutPrefix
  | .var "r1.cut_suffix" => .ok r1.cutSuffix
  | .var "r1.adapter_name" => .ok r1.adapterName
  | .var "r1.match_sequence" => .ok r1.matchSequence
  | .var "r2.comment" => .ok r2.comment
  | .var "r2.header" => .ok r2.header
  | .var "r2.cut_prefix" => .ok r2.cutPrefix
  | .var "r2.cut_suffix" => .ok r2.cutSuffix
  | .var "r2.adapter_name" => .ok r2.adapterName
  | .var "r2.match_sequence" => .ok r2.matchSequence
  | .var _ => .error .key

inductive PMod where
  | wrap (m1 m2 : Option SMod)
  | pairedRevcomp (c1 c2 : Option Cutter) (suffix first1 first2 : Bool)
  | pairAdapters (ads1 ads2 : List Matchable) (action : Action) (first1 first2 : Bool)
  | pairedRename (tmpl1 tmpl2 : List Tok)     -- `PairedEndRenamer` (the CLI passes the same template twice)

/-- adapter number ↦ name: the entries of the `MultipleAdapters` list by position, followed by the members of its index objects
    (numbered from `ads.length` on, prefix index first — see `Assembly.regroup`) -/
def namesOf (ads : List Matchable) : Names := ads.map Matchable.name ++ ads.flatMap Matchable.memberNames

def cutterOpt (c : Option Cutter) (rd : Read) : Except Err (Read × List AnyMatch × Read) :=
  match c with
  | some c => matchAndTrim c rd
  | none => .ok (rd, [], rd)

def matchedEvents (side : Nat) (ms : List AnyMatch) (rc : Bool) : List Event :=
  if ms.isEmpty then [] else Event.withAdapter side :: ms.map (fun m => Event.matched side m rc)

/-- `_find_best_match_pair` -/
def bestPairGo (s1 s2 : Bytes) : List (Matchable × Matchable) → Nat → Option (AnyMatch × AnyMatch) → Option (AnyMatch × AnyMatch)
  | [], _, best => best
  | (a1, a2) :: rest, i, best =>
    match a1.matchTo i s1 with
    | none => bestPairGo s1 s2 rest (i+1) best
    | some m1 =>
      match a2.matchTo i s2 with
      | none => bestPairGo s1 s2 rest (i+1) best
      | some m2 =>
        let ts := m1.score + m2.score
        let te := m1.errors + m2.errors
        match best with
        | none => bestPairGo s1 s2 rest (i+1) (some (m1, m2))
        | some (b1, b2) =>
          if ts > b1.score + b2.score || (ts == b1.score + b2.score && te < b1.errors + b2.errors)
          then bestPairGo s1 s2 rest (i+1) (some (m1, m2))
          else bestPairGo s1 s2 rest (i+1) best

/-- one side of `PairedAdapterCutter.__call__`; returns the result and the input read as the call leaves it -/
def pairActionRead (action : Action) (read : Read) (m : AnyMatch) : Except Err (Read × Read) :=
  let read := if action == .lowercase then { read with seq := upperBytes read.seq } else read
  let tr := m.trimmed read
  match action with
  | .trim => .ok (tr, read)
  | .mask => .ok (maskedRead read [m], read)
  | .lowercase => .ok (lowercasedRead read [m], read)
  | .retain => let (a, b) := m.retainedAdapterInterval; .ok (read.sub a b, read)
  | .none => .ok (read, read)
  | .crop =>
    match m with
    | .single _ r => .ok (read.sub r.m.rstart r.m.rstop, read)
    | .linked _ _ _ => .error .attribute

def applyP (ads1 ads2 : List Matchable) : PMod → Read × Read → Info × Info →
    Except Err ((Read × Read) × (Info × Info) × List Event)
  | .wrap m1 m2, (r1, r2), (i1, i2) => do
    let (r1', i1', e1) ← match m1 with
      | some m => applyS (namesOf ads1) 0 m r1 i1
      | none => .ok (r1, i1, [])
    let (r2', i2', e2) ← match m2 with
      | some m => applyS (namesOf ads2) 1 m r2 i2
      | none => .ok (r2, i2, [])
    pure ((r1', r2'), (i1', i2'), e1 ++ e2)
  | .pairedRevcomp c1 c2 suffix first1 first2, (r1, r2), (i1, i2) => do
    -- `match_and_trim` upper-cases its argument *in place* under the `lowercase` action, and each of the two read
    -- objects is handed to whichever cutters exist (directly or in the swapped run): both end up upper-cased
    let lower := (c1.map (·.action == .lowercase)).getD false || (c2.map (·.action == .lowercase)).getD false
    let r1 := if lower then { r1 with seq := upperBytes r1.seq } else r1
    let r2 := if lower then { r2 with seq := upperBytes r2.seq } else r2
    let (t1, m1, _) ← cutterOpt c1 r1
    let (t2, m2, _) ← cutterOpt c2 r2
    let (t1s, m1s, _) ← cutterOpt c1 r2
    let (t2s, m2s, _) ← cutterOpt c2 r1
    let i1 := if first1 then { i1 with original := { i1.original with seq := r1.seq } } else i1
    let i2 := if first2 then { i2 with original := { i2.original with seq := r2.seq } } else i2
    let useRc := (!m1s.isEmpty || !m2s.isEmpty) && scoreSum m1s + scoreSum m2s > scoreSum m1 + scoreSum m2
    let (o1, o2, n1, n2) := if useRc then (t1s, t2s, m1s, m2s) else (t1, t2, m1, m2)
    let o1 := if useRc && suffix then { o1 with name := o1.name ++ bytesOfStr " rc" } else o1
    let o2 := if useRc && suffix then { o2 with name := o2.name ++ bytesOfStr " rc" } else o2
    -- `self.adapter_cutter1.with_adapters += 1` with `adapter_cutter1 = None` raises AttributeError
    if (!n1.isEmpty && c1.isNone) || (!n2.isEmpty && c2.isNone) then throw .attribute else
    pure ((o1, o2),
      ({ i1 with isRc := some useRc, mts := i1.mts ++ n1 }, { i2 with isRc := some useRc, mts := i2.mts ++ n2 }),
      (if useRc then [Event.revComp] else []) ++ matchedEvents 0 n1 useRc ++ matchedEvents 1 n2 useRc)
  | .pairAdapters a1 a2 action first1 first2, (r1, r2), (i1, i2) =>
    match bestPairGo r1.seq r2.seq (a1.zip a2) 0 none with
    | none => .ok ((r1, r2), (i1, i2), [])
    | some (m1, m2) => do
      let (o1, r1a) ← pairActionRead action r1 m1
      let (o2, r2a) ← pairActionRead action r2 m2
      let i1 := if first1 then { i1 with original := { i1.original with seq := r1a.seq } } else i1
      let i2 := if first2 then { i2 with original := { i2.original with seq := r2a.seq } } else i2
      pure ((o1, o2), ({ i1 with mts := i1.mts ++ [m1] }, { i2 with mts := i2.mts ++ [m2] }),
           [Event.withAdapter 0, Event.withAdapter 1, Event.matched 0 m1 false, Event.matched 1 m2 false])
  | .pairedRename t1 t2, (r1, r2), (i1, i2) =>
    if !recordNamesMatch r1.name r2.name then .error .value else     -- "Input read IDs not identical"
    let d1 := renameFields (namesOf ads1) r1 i1
    let d2 := renameFields (namesOf ads2) r2 i2
    match t1.mapM (renderPairedTok 1 d1 d1 d2), t2.mapM (renderPairedTok 2 d2 d1 d2) with
    | .ok n1, .ok n2 =>
      if !recordNamesMatch n1.flatten n2.flatten then .error .template   -- "After renaming R1 and R2, their IDs are no longer identical"
      else .ok (({ r1 with name := n1.flatten }, { r2 with name := n2.flatten }), (i1, i2), [])
    | .error e, _ => .error e
    | _, .error e => .error e

/-! ## Steps (`steps.py`) -/

inductive PairMode where
  | any | both | first
deriving Repr, BEq, DecidableEq, Inhabited

inductive Step where
  | restWriter (file : Nat)
  | infoWriter (file : Nat)
  | wildcardWriter (file : Nat)
  | filter (p1 p2 : Option Pred) (mode : PairMode) (writer : Option Nat)
  | sink (writer : Nat)
  | demux (writers : List (String × Nat)) (untrimmed : Option Nat)                 -- `Demultiplexer` / `PairedDemultiplexer`
  | combDemux (writers : List ((Option String × Option String) × Nat))              -- `CombinatorialDemultiplexer`

/-- dict lookup: the last binding of a key wins -/
def lookupLast [BEq κ] (k : κ) (l : List (κ × ν)) : Option ν := (l.reverse.find? (fun p => p.1 == k)).map (·.2)

def tab : Bytes := [9]
def joinTab (fs : List Bytes) : Bytes := (fs.intersperse tab).flatten

/-- `SingleMatch.get_info_records(read)[0]` without the leading name-suffix field -/
def infoFields (r : MatchRec) (read : Read) (adapterName : Bytes) : List Bytes :=
  let m := r.m
  let q := read.qual.getD []
  [natToBytes m.errors, natToBytes m.rstart, natToBytes m.rstop,
   read.seq.take m.rstart, seg read.seq m.rstart m.rstop, read.seq.drop m.rstop, adapterName,
   q.take m.rstart, seg q m.rstart m.rstop, q.drop m.rstop]

def rcField (isRc : Option Bool) : Bytes :=
  match isRc with | none => [] | some true => [49] | some false => [48]

/-- rows printed by `InfoFileWriter` for one read -/
def infoRows (names : Names) (read : Read) (info : Info) : List Bytes :=
  if info.mts.isEmpty then
    [joinTab [read.name, bytesOfStr "-1", read.seq, read.qual.getD []]]
  else
    let start := if info.isRc == some true then info.original.revcomp else info.original
    let step := fun (acc : Read × List Bytes) (m : AnyMatch) =>
      let (cur, rows) := acc
      let nm := bytesOfStr (names.getD m.adapter "")
      let new := match m with
        | .single _ r => [joinTab (read.name :: infoFields r cur nm ++ [rcField info.isRc])]
        | .linked _ f b =>
          let r1 := match f with
            | some fm => [joinTab (read.name :: infoFields fm cur (nm ++ bytesOfStr ";1") ++ [rcField info.isRc])]
            | none => []
          let cur' := match f with | some fm => fm.trimmed cur | none => cur
          let r2 := match b with
            | some bm => [joinTab (read.name :: infoFields bm cur' (nm ++ bytesOfStr ";2") ++ [rcField info.isRc])]
            | none => []
          r1 ++ r2
      (m.trimmed cur, rows ++ new)
    (info.mts.foldl step (start, [])).2

/-- `SingleMatch.wildcards()` -/
def wildcardsOf (adapterSeq : Bytes) (r : MatchRec) : Bytes :=
  (List.range (r.m.astop - r.m.astart)).filterMap fun i =>
    if adapterSeq.getD (r.m.astart + i) 0 == 78 && r.m.rstart + i < r.sequence.length
    then some (r.sequence.getD (r.m.rstart + i) 0) else none

def adapterSeqOf (ads : List Matchable) (i : Nat) : Bytes :=
  match ads[i]? with
  | some (.single a) => a.seq
  | some _ => []
  | none =>      -- a member of an index object (numbered after the list entries, as in `namesOf`)
    ((ads.flatMap fun a => match a with | .indexed ix _ => ix.adapters.map (·.seq) | _ => [])[i - ads.length]?).getD []

/-- result of a single-end step: `none` = read consumed -/
def stepS (ads : List Matchable) (idx : Nat) : Step → Read → Info → Except Err (Option Read × List Event)
  | .restWriter f, read, info =>
    match info.mts.getLast? with
    | none => .ok (some read, [])
    | some (.single _ r) =>
      if r.rest.isEmpty then .ok (some read, []) else .ok (some read, [.text f (r.rest ++ [32] ++ read.name)])
    | some (.linked _ _ _) => .error .attribute
  | .infoWriter f, read, info => .ok (some read, (infoRows (namesOf ads) read info).map (Event.text f))
  | .wildcardWriter f, read, info =>
    match info.mts.getLast? with
    | none => .ok (some read, [])
    | some (.single a r) => .ok (some read, [.text f (wildcardsOf (adapterSeqOf ads a) r ++ [32] ++ read.name)])
    | some (.linked _ _ _) => .error .attribute
  | .filter p1 _ _ w, read, info =>
    match p1 with
    | none => .error .attribute
    | some p =>
      match p.test read info with
      | .error e => .error e
      | .ok true => .ok (none, Event.filtered idx :: (match w with | some w => [Event.write w read none] | none => []))
      | .ok false => .ok (some read, [])
  | .sink w, read, _ => .ok (none, [.write w read none, .sinkStat idx read.len none])
  | .demux ws un, read, info =>
    match info.mts.getLast? with
    | some m =>
      match lookupLast ((namesOf ads).getD m.adapter "") ws with
      | some w => .ok (none, [.sinkStat idx read.len none, .write w read none])
      | none => .error .key
    | none =>
      match un with
      | some w => .ok (none, [.sinkStat idx read.len none, .write w read none])
      | none => .ok (none, [.filtered idx])
  | .combDemux _, _, _ => .error .attribute

def pairFiltered (p1 p2 : Option Pred) (mode : PairMode) (r1 r2 : Read) (i1 i2 : Info) : Except Err Bool :=
  match p1, p2 with
  | some a, none => a.test r1 i1
  | none, some b => b.test r2 i2
  | none, none => .error .attribute
  | some a, some b =>
    match mode with
    | .any => do let x ← a.test r1 i1; if x then pure true else b.test r2 i2      -- `or` short-circuits
    | .both => do let x ← a.test r1 i1; if x then b.test r2 i2 else pure false     -- `and` short-circuits
    | .first => a.test r1 i1

def stepP (ads1 ads2 : List Matchable) (idx : Nat) : Step → Read × Read → Info × Info →
    Except Err (Option (Read × Read) × List Event)
  | .filter p1 p2 mode w, (r1, r2), (i1, i2) =>
    match pairFiltered p1 p2 mode r1 r2 i1 i2 with
    | .error e => .error e
    | .ok true => .ok (none, Event.filtered idx :: (match w with | some w => [Event.write w r1 (some r2)] | none => []))
    | .ok false => .ok (some (r1, r2), [])
  | .sink w, (r1, r2), _ => .ok (none, [.write w r1 (some r2), .sinkStat idx r1.len (some r2.len)])
  | .demux ws un, (r1, r2), (i1, _) =>
    match i1.mts.getLast? with
    | some m =>
      match lookupLast ((namesOf ads1).getD m.adapter "") ws with
      | some w => .ok (none, [.sinkStat idx r1.len (some r2.len), .write w r1 (some r2)])
      | none => .error .key
    | none =>
      match un with
      | some w => .ok (none, [.sinkStat idx r1.len (some r2.len), .write w r1 (some r2)])
      | none => .ok (none, [.filtered idx])
  | .combDemux ws, (r1, r2), (i1, i2) =>
    let n1 := i1.mts.getLast?.map (fun m => (namesOf ads1).getD m.adapter "")
    let n2 := i2.mts.getLast?.map (fun m => (namesOf ads2).getD m.adapter "")
    match lookupLast (n1, n2) ws with
    | some w => .ok (none, [.sinkStat idx r1.len (some r2.len), .write w r1 (some r2)])
    | none => .ok (none, [.filtered idx])   -- missing key: counted as discard_untrimmed
  -- `PairedSingleEndStep`: the wrapped step sees R1 only
  | s, (r1, r2), (i1, _) =>
    match stepS ads1 idx s r1 i1 with
    | .error e => .error e
    | .ok (none, evs) => .ok (none, evs)
    | .ok (some r, evs) => .ok (some (r, r2), evs)

/-! ## Pipelines (`pipeline.py`) -/

structure SinglePipeline where
  ads : List Matchable
  mods : List SMod
  steps : List Step

structure PairedPipeline where
  ads1 : List Matchable
  ads2 : List Matchable
  mods : List PMod
  steps : List Step

def runModsS (names : Names) : List SMod → Read → Info → List Event → Except Err (Read × Info × List Event)
  | [], r, i, evs => .ok (r, i, evs)
  | m :: ms, r, i, evs =>
    match applyS names 0 m r i with
    | .error e => .error e
    | .ok (r', i', e') => runModsS names ms r' i' (evs ++ e')

def runStepsS (ads : List Matchable) : List Step → Nat → Read → Info → List Event → Except Err (List Event)
  | [], _, _, _, evs => .ok evs
  | s :: ss, idx, r, i, evs =>
    match stepS ads idx s r i with
    | .error e => .error e
    | .ok (none, e') => .ok (evs ++ e')
    | .ok (some r', e') => runStepsS ads ss (idx+1) r' i (evs ++ e')

/-- everything that happens to one read -/
def processReadS (p : SinglePipeline) (read : Read) : Except Err (List Event) :=
  match runModsS (namesOf p.ads) p.mods read { original := read } [Event.input read.len none] with
  | .error e => .error e
  | .ok (r, i, evs) => runStepsS p.ads p.steps 0 r i evs

def runModsP (a1 a2 : List Matchable) : List PMod → Read × Read → Info × Info → List Event →
    Except Err ((Read × Read) × (Info × Info) × List Event)
  | [], r, i, evs => .ok (r, i, evs)
  | m :: ms, r, i, evs =>
    match applyP a1 a2 m r i with
    | .error e => .error e
    | .ok (r', i', e') => runModsP a1 a2 ms r' i' (evs ++ e')

def runStepsP (a1 a2 : List Matchable) : List Step → Nat → Read × Read → Info × Info → List Event → Except Err (List Event)
  | [], _, _, _, evs => .ok evs
  | s :: ss, idx, r, i, evs =>
    match stepP a1 a2 idx s r i with
    | .error e => .error e
    | .ok (none, e') => .ok (evs ++ e')
    | .ok (some r', e') => runStepsP a1 a2 ss (idx+1) r' i (evs ++ e')

def processReadP (p : PairedPipeline) (r : Read × Read) : Except Err (List Event) :=
  match runModsP p.ads1 p.ads2 p.mods r ({ original := r.1 }, { original := r.2 })
      [Event.input r.1.len (some r.2.len)] with
  | .error e => .error e
  | .ok (r', i, evs) => runStepsP p.ads1 p.ads2 p.steps 0 r' i evs

/-- a whole run: the event log up to the first error (the exception aborts the run) -/
def runReads (f : α → Except Err (List Event)) : List α → List Event → List Event × Option Err
  | [], evs => (evs, none)
  | r :: rs, evs =>
    match f r with
    | .error e => (evs, some e)
    | .ok e' => runReads f rs (evs ++ e')

def runSingle (p : SinglePipeline) (reads : List Read) : List Event × Option Err := runReads (processReadS p) reads []
def runPaired (p : PairedPipeline) (reads : List (Read × Read)) : List Event × Option Err := runReads (processReadP p) reads []

end Cutadapt
