import Cutadapt.Properties.C12
#print axioms Cutadapt.C12.exit_status_zero_iff
#print axioms Cutadapt.C12.faulted_of_readerFault
#print axioms Cutadapt.C12.faulted_of_workerFault
#print axioms Cutadapt.C12.faulted_persists
#print axioms Cutadapt.C12.ok_not_faulted
#print axioms Cutadapt.C12.fault_reaches_main
#print axioms Cutadapt.C12.fault_executions_finite
#print axioms Cutadapt.C12.failed_only_if_fault
#print axioms Cutadapt.C12.exit0_only_if_wellformed
#print axioms Cutadapt.C12.concatRange_prefix
#print axioms Cutadapt.C12.written_prefix_is_serial_prefix
#print axioms Cutadapt.C12.maximal_execution_verdict
#print axioms Cutadapt.C12.serial_terminates
#print axioms Cutadapt.C12.serial_fault_fails
#print axioms Cutadapt.C12.serial_exit0_only_if_wellformed
#print axioms Cutadapt.C12.serial_written_prefix
