import Cutadapt.Properties.C19
#print axioms Cutadapt.C19.format_independent_of_proxy
#print axioms Cutadapt.C19.format_by_name
#print axioms Cutadapt.C19.fasta_forced_on_stdout
#print axioms Cutadapt.C19.format_fallback
#print axioms Cutadapt.C19.isSuffixOf_append_self
#print axioms Cutadapt.C19.suffix_clash
#print axioms Cutadapt.C19.find_first
#print axioms Cutadapt.C19.strip_append
#print axioms Cutadapt.C19.format_independent_of_compression_suffix
#print axioms Cutadapt.C19.fasta_names
#print axioms Cutadapt.C19.fastq_names
#print axioms Cutadapt.C19.deinterleave_interleave
#print axioms Cutadapt.C19.interleave_unzip
#print axioms Cutadapt.C19.interleave_length
#print axioms Cutadapt.C19.outputFormat_eq_formatOfName
#print axioms Cutadapt.C19.generated_output_formats
