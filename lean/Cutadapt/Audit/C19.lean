import Cutadapt.Properties.C19
