import Cutadapt.Properties.C07
import Cutadapt.Proofs.KmerCompose
#print axioms Cutadapt.C07.shift_and_correct
#print axioms Cutadapt.C07.shift_and_correct_entry
#print axioms Cutadapt.C07.kmers_present_spec
#print axioms Cutadapt.C07.kmer_chunks_spec
#print axioms Cutadapt.C07.pigeonhole_script
#print axioms Cutadapt.C07.positions_never_error
#print axioms Cutadapt.C07.internal_entry
#print axioms Cutadapt.C07.kmers_present_ignores_beyond
#print axioms Cutadapt.C07.window_inside
#print axioms Cutadapt.C07.overlap_level_safe
#print axioms Cutadapt.C07.overlap_levels_cover
#print axioms Cutadapt.C07.prefilter_unsafe_witness
#print axioms Cutadapt.C07.anywhere_short_read_repaired
#print axioms Cutadapt.C07.w2_ok
#print axioms Cutadapt.C07.w4_ok
#print axioms Cutadapt.C07.prefilter_not_safe
#print axioms Cutadapt.C07.prefilter_only_removes
#print axioms Cutadapt.C07.prefilter_safe_partial
#print axioms Cutadapt.C07.generated_prefilter_tolerance
#print axioms Cutadapt.C07.locateSound_of_ok
#print axioms Cutadapt.C07.prefilter_safe_partial_unconditional
