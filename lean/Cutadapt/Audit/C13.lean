import Cutadapt.Properties.C13
#print axioms Cutadapt.C13.pre_reverse
#print axioms Cutadapt.C13.back_spec
#print axioms Cutadapt.C13.trim3_spec
#print axioms Cutadapt.C13.trim5_spec
#print axioms Cutadapt.C13.combine
#print axioms Cutadapt.C13.interval_in_read
#print axioms Cutadapt.C13.pre_nonpos_of_all_nonpos
#print axioms Cutadapt.C13.bestPrefix_zero_of_all_nonpos
#print axioms Cutadapt.C13.pre_pos_step
#print axioms Cutadapt.C13.pre_pos_strict
#print axioms Cutadapt.C13.bestPrefix_full_of_all_pos
#print axioms Cutadapt.C13.all_good_unchanged
#print axioms Cutadapt.C13.all_bad_empty
#print axioms Cutadapt.C13.base_shift_invariant
#print axioms Cutadapt.C13.nextseq_vals
#print axioms Cutadapt.C13.nextseq_spec
#print axioms Cutadapt.C13.trimmed_bases_count
