import Cutadapt.Properties.C11
