import Cutadapt.Properties.C09
import Cutadapt.Proofs.RegroupDefault
import Cutadapt.Proofs.PairedRounds
#print axioms Cutadapt.C09.best_is_argmax
#print axioms Cutadapt.C09.best_none_iff
#print axioms Cutadapt.C09.best_position_unique
#print axioms Cutadapt.C09.rounds_spec
#print axioms Cutadapt.C09.action_beq
#print axioms Cutadapt.C09.fast_path_is_one_round
#print axioms Cutadapt.C09.trim_result
#print axioms Cutadapt.C09.nontrim_actions_once
#print axioms Cutadapt.C09.no_match_untouched
#print axioms Cutadapt.C09.no_matches_iff
#print axioms Cutadapt.C09.linked_matchTo_eq
#print axioms Cutadapt.C09.linked_none_iff
#print axioms Cutadapt.C09.linked_back_searched_in_remainder
#print axioms Cutadapt.C09.linked_remainder_front5
#print axioms Cutadapt.C09.linked_parts_iff
#print axioms Cutadapt.C09.linked_match_is_linked
#print axioms Cutadapt.C09.linked_none_untouched
#print axioms Cutadapt.C09.linked_none_not_counted
#print axioms Cutadapt.C09.with_adapters_iff_match
#print axioms Cutadapt.C09.default_pipeline_without_index
#print axioms Cutadapt.C09.default_paired_pipeline_without_index
#print axioms Cutadapt.C09.makeModsPaired_documented
#print axioms Cutadapt.C09.paired_rounds_on_both_mates
#print axioms Cutadapt.C09.paired_rounds_r2_only
