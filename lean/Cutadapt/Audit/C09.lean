import Cutadapt.Properties.C09
