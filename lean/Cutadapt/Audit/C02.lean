import Cutadapt.Properties.C02
#print axioms Cutadapt.C02.occ_raw
#print axioms Cutadapt.C02.alignment_complete
#print axioms Cutadapt.C02.matchTo_ne_none
#print axioms Cutadapt.C02.exact_occurrence_found
#print axioms Cutadapt.C02.noindel_complete
#print axioms Cutadapt.C02.indel_complete
#print axioms Cutadapt.C02.encoded_exact
#print axioms Cutadapt.C02.comparePrefix_exact
#print axioms Cutadapt.C02.anchored5_exact_removed_exactly
#print axioms Cutadapt.C02.anchored3_exact_removed_exactly
#print axioms Cutadapt.C02.back_cut_before_leftmost_copy
#print axioms Cutadapt.C02.front_cut_before_end_of_leftmost_copy
#print axioms Cutadapt.C02.rightmost_cut_after_rightmost_copy
#print axioms Cutadapt.C02.occ_of_match
