import Cutadapt.Properties.C17
