import Cutadapt.Properties.C06
#print axioms Cutadapt.C06.ordered_writer
#print axioms Cutadapt.C06.ordered_writer_prefix
#print axioms Cutadapt.C06.each_chunk_once
#print axioms Cutadapt.C06.received_nodup
#print axioms Cutadapt.C06.parallel_equals_serial
#print axioms Cutadapt.C06.no_deadlock
#print axioms Cutadapt.C06.terminates
#print axioms Cutadapt.C06.executions_finite
#print axioms Cutadapt.C06.maximal_execution_ends
#print axioms Cutadapt.C06.natAdd_isCommMonoid
