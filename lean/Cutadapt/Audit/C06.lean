import Cutadapt.Properties.C06
import Cutadapt.Proofs.StatsMergeMain
#print axioms Cutadapt.C06.ordered_writer
#print axioms Cutadapt.C06.ordered_writer_prefix
#print axioms Cutadapt.C06.each_chunk_once
#print axioms Cutadapt.C06.received_nodup
#print axioms Cutadapt.C06.parallel_equals_serial
#print axioms Cutadapt.C06.no_deadlock
#print axioms Cutadapt.C06.terminates
#print axioms Cutadapt.C06.executions_finite
#print axioms Cutadapt.C06.maximal_execution_ends
#print axioms Cutadapt.C06.natAdd_isCommMonoid
#print axioms Cutadapt.C06.merged_statistics_of_any_chunking
#print axioms Cutadapt.C06.merged_statistics_order_independent
#print axioms Cutadapt.C06.isSum_zero_left
#print axioms Cutadapt.C06.isSum_zero_right
#print axioms Cutadapt.C06.statistics_merge_comm_assoc
#print axioms Cutadapt.C06.appliedTo_append
#print axioms Cutadapt.C06.merged_adapter_statistics
#print axioms Cutadapt.C06.mergeAdapterStats_of_runs
