import Cutadapt.Properties.C16
