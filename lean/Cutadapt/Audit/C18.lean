import Cutadapt.Properties.C18
