import Cutadapt.Properties.C01
