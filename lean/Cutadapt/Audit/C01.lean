import Cutadapt.Properties.C01
#print axioms Cutadapt.C01.flags_match_documentation
#print axioms Cutadapt.C01.tables_match_documentation
#print axioms Cutadapt.C01.tables_match_documentation_comparer
#print axioms Cutadapt.C01.alignment_sound
#print axioms Cutadapt.C01.matchTo_sound
#print axioms Cutadapt.C01.noindel_is_hamming
#print axioms Cutadapt.C01.alignment_min
#print axioms Cutadapt.C01.errors_minimal
#print axioms Cutadapt.C01.matchTo_errors_is_distance
#print axioms Cutadapt.C01.exAdapter_wf
#print axioms Cutadapt.C01.noindel_needs_rate_le_one
#print axioms Cutadapt.C01.generated_full_tolerance
