import Cutadapt.Properties.C03
