import Cutadapt.Properties.C15
#print axioms Cutadapt.C15.adapterName_eq
#print axioms Cutadapt.C15.lookupLast_spec
#print axioms Cutadapt.C15.demux_routing
#print axioms Cutadapt.C15.demux_routing_paired
#print axioms Cutadapt.C15.comb_routing
#print axioms Cutadapt.C15.demuxWriter_paths
#print axioms Cutadapt.C15.demux_writers_opened
#print axioms Cutadapt.C15.comb_writers_opened
#print axioms Cutadapt.C15.demux_is_partition_per_read
#print axioms Cutadapt.C15.plain_ok_demux_ok
#print axioms Cutadapt.C15.partition_of_read
#print axioms Cutadapt.C15.demux_is_partition_of_plain_output
#print axioms Cutadapt.C15.cli_demux_partition
#print axioms Cutadapt.C15.generated_demux_files_and_routing
#print axioms Cutadapt.C15.generated_comb_files_and_routing
#print axioms Cutadapt.C15.generated_r2_only_is_unknown
