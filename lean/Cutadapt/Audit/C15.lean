import Cutadapt.Properties.C15
