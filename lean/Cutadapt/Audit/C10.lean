import Cutadapt.Properties.C10
