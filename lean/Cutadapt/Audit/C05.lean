import Cutadapt.Properties.C05
