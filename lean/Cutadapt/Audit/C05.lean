import Cutadapt.Properties.C05
#print axioms Cutadapt.C05.run_is_concat
#print axioms Cutadapt.C05.paired_writes_carry_both_mates
#print axioms Cutadapt.C05.pair_is_a_unit
#print axioms Cutadapt.C05.files_in_step
#print axioms Cutadapt.C05.pair_decision
#print axioms Cutadapt.C05.pair_decision_short_circuit
#print axioms Cutadapt.C05.pair_decision_one_sided
#print axioms Cutadapt.C05.lengthPreds_one_sided
#print axioms Cutadapt.C05.one_sided_length_bound
#print axioms Cutadapt.C05.untrimmed_filter_forced_both
#print axioms Cutadapt.C05.bestPairGo_same_rank
#print axioms Cutadapt.C05.bestPairGo_is_argmax
#print axioms Cutadapt.C05.pair_adapters_both_or_neither
#print axioms Cutadapt.C05.pair_adapters_trim
#print axioms Cutadapt.C05.paired_rename_keeps_ids_matched
#print axioms Cutadapt.C05.generated_pair_decisions_documented
#print axioms Cutadapt.C05.filter_modes_documented
