import Cutadapt.Properties.C20
#print axioms Cutadapt.C20.incr_getCount
#print axioms Cutadapt.C20.incr_keys_unique
#print axioms Cutadapt.C20.stats_are_tally
#print axioms Cutadapt.C20.stats_length
#print axioms Cutadapt.C20.other_events_do_not_contribute
#print axioms Cutadapt.C20.appliedTo_append
#print axioms Cutadapt.C20.appliedTo_matched
#print axioms Cutadapt.C20.total_matches
#print axioms Cutadapt.C20.parts_partition
#print axioms Cutadapt.C20.error_ranges_spec
#print axioms Cutadapt.C20.error_ranges_last
#print axioms Cutadapt.C20.error_ranges_entry
