import Cutadapt.Properties.C20
