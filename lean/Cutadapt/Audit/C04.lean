import Cutadapt.Properties.C04
