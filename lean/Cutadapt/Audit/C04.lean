import Cutadapt.Properties.C04
#print axioms Cutadapt.C04.each_read_one_fate
#print axioms Cutadapt.C04.each_pair_one_fate
#print axioms Cutadapt.C04.makeSteps_terminal
#print axioms Cutadapt.C04.filterIdents_nodup
#print axioms Cutadapt.C04.redirects_apart
#print axioms Cutadapt.C04.exSteps_terminal
#print axioms Cutadapt.C04.summarize_append
#print axioms Cutadapt.C04.figures_are_sums_over_reads_single
#print axioms Cutadapt.C04.figures_are_sums_over_reads_paired
#print axioms Cutadapt.C04.counts_add_up_single
#print axioms Cutadapt.C04.counts_add_up_paired
#print axioms Cutadapt.C04.idents_are_documented
#print axioms Cutadapt.C04.report_categories_complete
#print axioms Cutadapt.C04.report_adds_up_single
#print axioms Cutadapt.C04.report_adds_up_paired
#print axioms Cutadapt.C04.cli_counts_single
#print axioms Cutadapt.C04.cli_counts_paired
